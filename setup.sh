#!/bin/sh
# Offline setup: nothing to build. Verifies the tools the checks need are present.
set -e
cd "$(dirname "$0")"
test -x /venv/bin/python
java -version >/dev/null 2>&1
test -f /opt/veriftools/tla/tla2tools.jar
mkdir -p out evidence
./check list >/dev/null
echo "setup ok"
