import sys, time, json
sys.path.insert(0,'/verif')
from vf import graph, replay, env
from vf.families import httpparse as H
t=time.time(); g=graph.load_dot('/verif/.scratch_http/g.dot'); print("load", time.time()-t, len(g.states), g.nedges)
t=time.time(); paths=graph.edge_cover(g, max_len=14); print("cover", time.time()-t, len(paths), graph.covered_edges(paths))
t=time.time(); traces=replay.graph_paths_to_traces(g, paths); print("traces", time.time()-t)
table=json.load(open('/verif/.scratch_http/table.json'))
def mk(init):
    row=table[init["sc"]-1]; return H.ParserAdapter(row["kind"], row["wire"])
t=time.time(); n,divs=replay.replay("C29", traces, mk, keys={"obs"}); print("replay", time.time()-t, n, len(divs))
for d in divs[:5]: print(d)
