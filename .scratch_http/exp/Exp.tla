---- MODULE Exp ----
EXTENDS Integers, FiniteSets, TLC
CONSTANT F(_)
VARIABLE x
Big == Cardinality(SUBSET (1..16))
BigF == TLCEval([i \in 1..3 |-> Cardinality(SUBSET (1..16)) + i])
G(i) == BigF[i]
Init == x = 0
Next == x < 4000 /\ x' = x + 1 /\ F(1) > 0
Spec == Init /\ [][Next]_x
====
