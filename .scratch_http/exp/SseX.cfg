SPECIFICATION Spec
CONSTANTS
 NSc = 1
 MaxPieces = 1
 MaxK = 1
 ScWire <- XW
