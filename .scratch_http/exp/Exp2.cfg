SPECIFICATION Spec
