---- MODULE Exp2 ----
EXTENDS Integers, FiniteSets, TLC
VARIABLE x
Big == Cardinality(SUBSET (1..16))
Init == x = 0
Next == x < 4000 /\ x' = x + 1 /\ Big > 0
Spec == Init /\ [][Next]_x
====
