---- MODULE SseX ----
EXTENDS Sse
Wr(n) == [i \in 1..n |-> IF i % 7 = 0 THEN "LF" ELSE "a"]
XW(i) == Wr(200)
VARIABLE z
ASSUME PrintT(<<"n40", Obs(FeedAll(Ps0, Wr(40)))>>)
ASSUME PrintT(<<"n69", Obs(FeedAll(Ps0, Wr(69)))>>)
ASSUME PrintT(<<"n200", Obs(FeedAll(Ps0, Wr(200)))>>)
ASSUME PrintT(<<"n2000", Obs(FeedAll(Ps0, Wr(2000)))>>)
====
