SPECIFICATION Spec
CONSTANT F <- G
