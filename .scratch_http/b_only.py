import sys, time, random, json, os
sys.path.insert(0,'/verif')
from vf import tlc, env, trace
from vf.families import httpparse as H
n=int(sys.argv[1]); seed=int(sys.argv[2]) if len(sys.argv)>2 else 0
rng=random.Random(seed)
t=time.time()
trs=[];exc=[]
for i in range(n):
    evs,ex,wire=H.random_execution(rng)
    if ex: exc.append((type(ex).__name__, str(ex)[:80], wire[:200]))
    else: trs.append(evs)
print("gen", time.time()-t, "exc", len(exc), exc[:3], "avg events", sum(len(t) for t in trs)/max(1,len(trs)), "avg wire", sum(len(t[0]['wire']) for t in trs)/max(1,len(trs)))
t=time.time()
out=trace.validate("HttpParseTrace", H.TRACE_CFG, H.SPEC_DIR, trs, batch=int(os.environ.get("BATCH","100")))
print("validate", time.time()-t, "acc", len(out.accepted), "rej", out.rejected, out.model_errors[:2], out.states)
for i,pref in list(out.rejected.items())[:3]:
    json.dump({"steps":H._short(trs[i][:pref+1])}, open('/verif/.scratch_http/rej%d.json'%i,'w'))
    print('/verif/.scratch_http/rej%d.json'%i)
