import sys, random, json
sys.path.insert(0,'/verif')
from vf.families import sse as S
rng=random.Random(0)
trs=[]
for i in range(int(sys.argv[1])):
    evs,ex,wire=S.random_execution(rng)
    if not ex: trs.append(evs)
    else: print("EXC", ex, wire)
json.dump(trs, open('/verif/.scratch_http/trs33.json','w'))
open('/verif/.scratch_http/tr33.cfg','w').write(S.TRACE_CFG)
print(max(len(t[0]['wire']) for t in trs))
