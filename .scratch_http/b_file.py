import sys, random, json
sys.path.insert(0,'/verif')
from vf.families import httpparse as H
rng=random.Random(0)
trs=[]
for i in range(int(sys.argv[1])):
    evs,ex,wire=H.random_execution(rng)
    if not ex: trs.append(evs)
json.dump(trs, open('/verif/.scratch_http/trs.json','w'))
open('/verif/.scratch_http/tr.cfg','w').write(H.TRACE_CFG)
