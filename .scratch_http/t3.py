import sys, time
sys.path.insert(0, '/verif')
from vf import tlc, env
cfg = """SPECIFICATION Spec
CONSTANTS
  MaxMut = 1
  MaxPieces = 1
  MaxK = 160
  MaxPos = 2
  MaxDepth = %s
  Level = 1
INVARIANT NeverRaisesOutOfService
INVARIANT OthersUndisturbed
INVARIANT FailedMeansClosed
CONSTRAINT Bounded
""" % sys.argv[1]
t=time.time()
res = tlc.run("Malformed", cfg, spec_dir=env.SPECS+"/http", tag="t3", timeout=600)
print(res.ok, res.error, res.error_name, res.generated, res.distinct, res.depth, res.coverage, time.time()-t)
if not res.ok:
    for a,s in res.trace: print(a, s)
    print(res.out[-2500:])
