"""diag.py <replay.json> : show what the spec expects at the rejected event"""
import sys, json, os
sys.path.insert(0,'/verif')
from vf import tlc, env, tlaval
from vf.families import httpparse as H
d=json.load(open(sys.argv[1]))
steps=d['steps']
# restore wire
wire=steps[0]['wire']
steps[0]['wire']=list(H.to_syms(wire.encode('iso-8859-1')))
path='/verif/.scratch_http/one.json'
json.dump([steps], open(path,'w'))
res=tlc.run("HttpParseTrace", H.TRACE_CFG, spec_dir=H.SPEC_DIR, workers=1, deadlock=False, coverage=False, extra_env={"TRACE_FILE":path,"VF_PROGRESS":"0","VF_LENIENT":"1"}, tag="diag")
vals=tlc.printed_values(res.out); print(res.out[-2500:]) if "--out" in sys.argv else None
last=[v for v in vals if v and v[0]=="OBS"]
print("wire:", wire.encode('iso-8859-1'))
exp=max(last, key=lambda v:v[1])
print("event", exp[1]-1, json.dumps(steps[exp[1]-2])[:100])
print("EXPECTED:", exp[2])
print("ACTUAL  :", steps[-1].get('obs'))
