import sys, time, json
sys.path.insert(0,'/verif')
from vf import graph, replay, env
from vf.families import sse as S
t=time.time(); g=graph.load_dot('/verif/.scratch_http/sse.dot'); print("load", time.time()-t, len(g.states), g.nedges)
t=time.time(); paths=graph.edge_cover(g, max_len=12); print("cover", time.time()-t, len(paths), graph.covered_edges(paths))
traces=replay.graph_paths_to_traces(g, paths)
table=json.load(open('/verif/.scratch_http/sse_table.json'))
for fl in S.FLAVORS:
    t=time.time(); n,divs=replay.replay("C33", traces, lambda init: S.SseAdapter(fl, table[init["sc"]-1]["wire"]), keys={"obs"}, stop_after=6); print(fl, "replay", time.time()-t, n, len(divs))
    for d in divs[:6]:
        print("  ", d, S.to_bytes(table[d.steps[0]["state"]["sc"]-1]["wire"]), [s["action"] for s in d.steps[1:]])
