import sys, time
sys.path.insert(0, '/verif')
from vf import tlc, env
cfg = """SPECIFICATION Spec
CONSTANTS
  Level = %s
  MaxPieces = %s
  NSc <- FamN
  MaxK <- FamMaxLen
  ScWire <- FamWire
INVARIANT SplitIndependent
INVARIANT ObsIsFunctionOfParser
INVARIANT Final
INVARIANT Prefix
""" % (sys.argv[1], sys.argv[2])
t=time.time()
res = tlc.run("SseMC", cfg, spec_dir=env.SPECS+"/http", extra_env={"TABLE_OUT": "/verif/.scratch_http/sse_table.json"}, dump_dot=(sys.argv[3] if len(sys.argv)>3 else None), tag="t2")
print(res.ok, res.error, res.error_name, res.generated, res.distinct, res.depth, res.coverage, time.time()-t)
if not res.ok:
    for a,s in res.trace: print(a, s)
    print(res.out[-1500:])
