"""Run-time environment of a check: paths, seed, tier, scratch space, access to the code under test."""
import atexit
import os
import shutil
import sys
import tempfile

VERIF = os.path.dirname(os.path.dirname(os.path.abspath(__file__)))
REPO = os.environ.get("VERIF_REPO", "/repo")
SPECS = os.path.join(VERIF, "specs")
OUT = os.path.join(VERIF, "out")
EVIDENCE = os.path.join(VERIF, "evidence")
PYTHON = "/venv/bin/python"
JAVA_CP = "/opt/veriftools/tla/tla2tools.jar:/opt/veriftools/tla/CommunityModules-deps.jar"
NCPU = min(int(os.environ.get("VF_WORKERS", "16")), os.cpu_count() or 1)

_scratch = None
_used = False


def seed():
    try:
        return int(os.environ.get("VERIF_SEED", "0"))
    except ValueError:
        return 0


def scratch():
    """a per-process scratch directory, removed at exit (TLC metadirs, generated cfgs, dumps)."""
    global _scratch
    if _scratch is None:
        base = os.environ.get("VERIF_SCRATCH") or tempfile.gettempdir()
        _scratch = tempfile.mkdtemp(prefix="vf-", dir=base)
        atexit.register(shutil.rmtree, _scratch, True)
    return _scratch


def subdir(name):
    d = os.path.join(scratch(), name)
    os.makedirs(d, exist_ok=True)
    return d


def use_repo():
    """make `import ioflo` resolve to the working tree under test, compiled afresh."""
    global _used
    if _used:
        return
    _used = True
    sys.dont_write_bytecode = True
    if REPO not in sys.path:
        sys.path.insert(0, REPO)
    # drop any ioflo already imported from elsewhere
    for m in [m for m in sys.modules if m == "ioflo" or m.startswith("ioflo.")]:
        f = getattr(sys.modules[m], "__file__", "") or ""
        if not f.startswith(REPO):
            del sys.modules[m]


def child_env(extra=None):
    """environment for python children that import the code under test."""
    e = dict(os.environ)
    e["PYTHONPATH"] = REPO
    e["PYTHONDONTWRITEBYTECODE"] = "1"
    e["PYTHONPYCACHEPREFIX"] = subdir("pycache")
    e["PYTHONHASHSEED"] = "0"
    e["IOFLO_VERIF"] = "1"
    if extra:
        e.update(extra)
    return e
