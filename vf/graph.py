"""State graphs dumped by TLC (`-dump dot,actionlabels`) and path covers over them."""
import re
from collections import deque

from .tlaval import parse_state, parse_value


def _dot_unescape(s):
    out = []
    i = 0
    n = len(s)
    while i < n:
        c = s[i]
        if c == "\\" and i + 1 < n:
            d = s[i + 1]
            if d == "n":
                out.append("\n")
            else:
                out.append(d)
            i += 2
        else:
            out.append(c)
            i += 1
    return "".join(out)


def _label(line, start):
    """return (raw label, index after closing quote) for label starting at `start` (after opening quote)"""
    i = start
    n = len(line)
    while i < n:
        c = line[i]
        if c == "\\":
            i += 2
            continue
        if c == '"':
            return line[start:i], i + 1
        i += 1
    raise ValueError("unterminated label")


_NODE = re.compile(r'^(-?\d+) \[label="')
_EDGE = re.compile(r'^(-?\d+) -> (-?\d+) \[label="')
_ACT = re.compile(r"^(\w+)(?:\((.*)\))?$", re.S)


class Graph:
    def __init__(self):
        self.states = {}    # id -> dict
        self.inits = []
        self.out = {}       # id -> [(label, (name, args), dst)]
        self.nedges = 0

    def action(self, label):
        return label


def parse_action(label):
    """'Push("a", 1)' -> ('Push', ("a", 1))"""
    m = _ACT.match(label.strip())
    if not m:
        return label, ()
    name, a = m.group(1), m.group(2)
    if a is None or a.strip() == "":
        return name, ()
    return name, parse_value("<<" + a + ">>")


def load_dot(path, parse=True):
    g = Graph()
    with open(path) as f:
        for line in f:
            m = _EDGE.match(line)
            if m:
                raw, _ = _label(line, m.end())
                lab = _dot_unescape(raw)
                src, dst = int(m.group(1)), int(m.group(2))
                g.out.setdefault(src, []).append((lab, parse_action(lab), dst))
                g.nedges += 1
                continue
            m = _NODE.match(line)
            if m:
                raw, end = _label(line, m.end())
                nid = int(m.group(1))
                txt = _dot_unescape(raw)
                g.states[nid] = parse_state(txt) if parse else txt
                if "style = filled" in line[end:end + 40]:
                    g.inits.append(nid)
    for n in g.states:
        g.out.setdefault(n, [])
    return g


def edge_cover(g, max_len=40, near=300, max_paths=None):
    """Paths (lists of (src, label, action, dst)) rooted at initial states that together cover every edge.

    Self-loops and parallel edges count as separate edges when their labels differ.
    """
    # shortest path tree from inits
    pred = {}
    dq = deque()
    for i in g.inits:
        pred[i] = None
        dq.append(i)
    while dq:
        u = dq.popleft()
        for k, (lab, act, v) in enumerate(g.out[u]):
            if v not in pred:
                pred[v] = (u, k)
                dq.append(v)

    def root_path(u):
        p = []
        while pred[u] is not None:
            pu, k = pred[u]
            lab, act, v = g.out[pu][k]
            p.append((pu, lab, act, v))
            u = pu
        p.reverse()
        return p

    uncovered = {u: set(range(len(es))) for u, es in g.out.items() if es and u in pred}
    uncovered = {u: s for u, s in uncovered.items() if s}
    paths = []

    def take(u, path):
        k = min(uncovered[u])
        uncovered[u].discard(k)
        if not uncovered[u]:
            del uncovered[u]
        lab, act, v = g.out[u][k]
        path.append((u, lab, act, v))
        return v

    def near_uncovered(u, budget):
        seen = {u: None}
        q = deque([u])
        n = 0
        found = None
        while q and n < near * 10 and found is None:
            x = q.popleft()
            for k, (lab, act, v) in enumerate(g.out[x]):
                n += 1
                if v not in seen:
                    seen[v] = (x, k)
                    if v in uncovered:
                        found = v
                        break
                    q.append(v)
        if found is None:
            return None
        p = []
        x = found
        while seen[x] is not None:
            px, k = seen[x]
            lab, act, v = g.out[px][k]
            p.append((px, lab, act, v))
            x = px
        p.reverse()
        return p if len(p) <= budget else None

    depth = {}
    for u in pred:
        depth[u] = 0 if pred[u] is None else None
    def _depth(u):
        stack = []
        while depth[u] is None:
            stack.append(u)
            u = pred[u][0]
        d = depth[u]
        while stack:
            d += 1
            depth[stack.pop()] = d
        return d
    order = sorted(uncovered, key=_depth)
    for start in order:
        while start in uncovered:
            path = root_path(start)
            u = start
            while True:
                while u in uncovered and len(path) < max_len:
                    u = take(u, path)
                if len(path) >= max_len:
                    break
                hop = near_uncovered(u, max_len - len(path) - 1)
                if not hop:
                    break
                path.extend(hop)
                u = hop[-1][3]
            paths.append(path)
            if max_paths and len(paths) >= max_paths:
                return paths
    return paths


def covered_edges(paths):
    return len({(s, lab, d) for p in paths for (s, lab, a, d) in p})
