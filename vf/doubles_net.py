"""Scripted test doubles for the I/O layer of ioflo (sockets, TLS contexts, serial devices).

The environment of a transport (what the kernel answers to send/recv/connect/accept, what the TLS layer answers to
do_handshake, what a serial device answers to read/write) is an *action of the specification*; these doubles let the
harness feed exactly the answer the model (or a seeded random generator) chose to the real ioflo classes, and record
everything the code did to its socket.  No kernel socket is ever created; no port is bound.

Used by the families txstream (C24), sockerr (C25), servertable (C26); meant to be reused by C27/C28/C35/C36.

Vocabulary of scripted results (plain tuples, build them with the helpers below)
-------------------------------------------------------------------------------
    FULL                 send / sendto / write accepts every byte offered
    partial(k)           send / write accepts min(k, len(data)) bytes
    ZERO                 send / write returns 0 without raising
    BLOCK                the operation would block: BlockingIOError(EAGAIN) on a plain socket,
                         ssl.SSLWantReadError (recv, do_handshake) / ssl.SSLWantWriteError (send) once the socket is
                         TLS wrapped, OSError(EAGAIN) on a serial device
    WANT_READ, WANT_WRITE   the TLS flavours of would-block, explicitly
    TLS_EOF              ssl.SSLEOFError(SSL_ERROR_EOF, ...)
    err(errno_code)      OSError(errno_code, strerror) (Python picks ConnectionResetError etc. by itself)
    exc(exception)       raise exactly this exception instance
    data(b)              recv / read delivers these bytes (cut at the buffer size; the rest stays for the next call)
    CLOSED               recv returns b"" (orderly close by the peer); read returns b""
    dgram(b, addr)       recvfrom delivers (b, addr)
    rc(code)             connect_ex returns this code (0 and EISCONN mark the socket connected)
    conn(sock, addr)     accept returns (sock, addr)
    OK                   do_handshake / shutdown / close / bind succeed

Every operation `op` has its own FIFO script: `sock.push("send", FULL, partial(1), BLOCK)`.  When the script of an
operation is empty the double answers with `sock.defaults[op]`:
    send, recv, recvfrom, accept, read, write -> BLOCK (a quiet line and a full buffer: the most conservative environment);
    sendto -> FULL; connect_ex -> rc(0); do_handshake, shutdown, close, bind, listen -> OK.
With `strict=True` an empty script raises ScriptExhausted (an AssertionError) instead.

What is recorded (never reset by the code under test)
------------------------------------------------------
    sock.calls          [(op, outcome)]  outcome: ("full", n) ("part", n) ("zero",) ("block",) ("raise", name)
                                                   ("data", n) ("closed",) ("rc", code) ("conn", addr) ("ok",) ...
    sock.sent           bytearray of every byte accepted by send (the *wire*), sock.sent_chunks the pieces
    sock.delivered      bytearray of every byte handed out by recv, sock.delivered_chunks the pieces
    sock.dgrams_sent    [(bytes, addr)] accepted by sendto;  sock.dgrams_delivered likewise for recvfrom
    sock.shutdowns      [how] of every shutdown() call that reached the socket (also unsuccessful ones)
    sock.closed, sock.close_count, sock.blocking, sock.opts, sock.bound, sock.listening, sock.connected, sock.tls
    sock.after_close    [op] operations attempted after close() (they raise OSError(EBADF) like a real socket)

Replacing what the code under test reaches for
----------------------------------------------
    FakeSocketModule    stands in for the `socket` module inside one ioflo module (`install(clienting, "socket", fake)`);
                        `.socket(...)` returns ScriptedSockets made by a factory callback, everything else (constants,
                        `error`, `getaddrinfo`) is the real module's.  `fake.created` lists the sockets made.
    FakeTlsContext      stands in for ssl.SSLContext: `wrap_socket` returns a ScriptedTlsSocket view of the ScriptedSocket
                        (a *new object*, as with the real library) and switches the inner socket to TLS behaviour.
    ScriptedSerial      stands in for pyserial's `Serial` (read/write/reset_*_buffer/close) under serialing.SerialNb.
    FakeOsModule        stands in for `os` inside serialing so that DeviceNb's os.read/os.write/os.close on a fake file
                        descriptor reach a ScriptedSerial.
    install(module, attr, value) -> undo()    scoped monkey patch helper; `patched(...)` is the context manager form.
    parse_wirelog(bytes) -> [(kind, address text, payload)] for WireLog buffers.
"""
import contextlib
import errno
import os as _os
import re
import socket as _socket
import ssl as _ssl
from collections import deque

# ------------------------------------------------------------------ result vocabulary
FULL = ("full",)
ZERO = ("zero",)
BLOCK = ("block",)
WANT_READ = ("want_read",)
WANT_WRITE = ("want_write",)
TLS_EOF = ("tls_eof",)
CLOSED = ("closed",)
OK = ("ok",)


def partial(k):
    return ("partial", int(k))


def err(code):
    return ("errno", int(code))


def exc(exception):
    return ("raise", exception)


def data(b):
    return ("data", bytes(b))


def dgram(b, addr):
    return ("dgram", bytes(b), addr)


def rc(code):
    return ("rc", int(code))


def conn(sock, addr):
    return ("conn", sock, addr)


class ScriptExhausted(AssertionError):
    """strict mode: the code under test performed an operation the script did not foresee"""


def os_error(code):
    return OSError(code, _os.strerror(code))


def tls_eof_error():
    return _ssl.SSLEOFError(_ssl.SSL_ERROR_EOF, "EOF occurred in violation of protocol (scripted)")


def want_read_error():
    return _ssl.SSLWantReadError(_ssl.SSL_ERROR_WANT_READ, "The operation did not complete (read) (scripted)")


def want_write_error():
    return _ssl.SSLWantWriteError(_ssl.SSL_ERROR_WANT_WRITE, "The operation did not complete (write) (scripted)")


_DEFAULTS = {
    "send": BLOCK, "recv": BLOCK, "recvfrom": BLOCK, "accept": BLOCK, "sendto": FULL,
    "connect_ex": rc(0), "connect": OK, "do_handshake": OK, "shutdown": OK, "close": OK, "bind": OK, "listen": OK,
    "read": BLOCK, "write": BLOCK,
}

_fileno = [10000]


class _Scripted(object):
    """script bookkeeping shared by ScriptedSocket and ScriptedSerial"""

    def __init__(self, name="", strict=False, defaults=None):
        self.name = name
        self.strict = strict
        self.defaults = dict(_DEFAULTS)
        if defaults:
            self.defaults.update(defaults)
        self.script = {}
        self.calls = []

    def push(self, op, *results):
        """append results to the script of operation `op`"""
        self.script.setdefault(op, deque()).extend(results)
        return self

    def push_front(self, op, result):
        self.script.setdefault(op, deque()).appendleft(result)

    def pending(self, op=None):
        """results not consumed yet (of one operation, or {op: [..]} of all)"""
        if op is not None:
            return list(self.script.get(op, ()))
        return {k: list(v) for k, v in self.script.items() if v}

    def clear(self, op=None):
        if op is None:
            self.script.clear()
        else:
            self.script.pop(op, None)

    def count(self, op):
        """how many times the code under test performed `op`"""
        return sum(1 for c in self.calls if c[0] == op)

    def _next(self, op):
        q = self.script.get(op)
        if q:
            return q.popleft()
        if self.strict:
            raise ScriptExhausted("%s: unscripted %s()" % (self.name or type(self).__name__, op))
        return self.defaults[op]

    def _log(self, op, *outcome):
        self.calls.append((op, tuple(outcome)))


class ScriptedSocket(_Scripted):
    """A socket object whose every answer comes from a script (see module docstring)."""

    def __init__(self, name="", peer=None, sockname=None, family=_socket.AF_INET, type=_socket.SOCK_STREAM, proto=0,
                 connected=False, strict=False, defaults=None):
        super(ScriptedSocket, self).__init__(name=name, strict=strict, defaults=defaults)
        self.family = family
        self.type = type
        self.proto = proto
        self.peer = peer                  # answered by getpeername() once connected
        self.sockname = sockname or ("0.0.0.0", 0)
        self.connected = connected
        self.tls = False                  # switched on by FakeTlsContext.wrap_socket
        self.wrapper = None
        self.blocking = True
        self.timeout = None
        self.opts = {}
        self.bound = None
        self.listening = False
        self.closed = False
        self.close_count = 0
        self.shutdowns = []
        self.after_close = []
        self.sent = bytearray()
        self.sent_chunks = []
        self.delivered = bytearray()
        self.delivered_chunks = []
        self.dgrams_sent = []
        self.dgrams_delivered = []
        _fileno[0] += 1
        self._fd = _fileno[0]

    def __repr__(self):
        return "<ScriptedSocket %s fd=%s peer=%s%s%s>" % (self.name, self._fd, self.peer, " tls" if self.tls else "",
                                                          " closed" if self.closed else "")

    # ---- helpers
    def _alive(self, op):
        if self.closed:
            self.after_close.append(op)
            self._log(op, "raise", "EBADF-after-close")
            raise os_error(errno.EBADF)

    def _fail(self, op, r, reading):
        """raise what result r stands for, or return False when r is not a failure"""
        k = r[0]
        if k == "block":
            if self.tls:
                k = "want_read" if reading else "want_write"
            else:
                self._log(op, "block")
                raise BlockingIOError(errno.EAGAIN, _os.strerror(errno.EAGAIN))
        if k == "want_read":
            self._log(op, "block")
            raise want_read_error()
        if k == "want_write":
            self._log(op, "block")
            raise want_write_error()
        if k == "tls_eof":
            self._log(op, "raise", "SSLEOFError")
            raise tls_eof_error()
        if k == "errno":
            self._log(op, "raise", errno.errorcode.get(r[1], str(r[1])))
            raise os_error(r[1])
        if k == "raise":
            self._log(op, "raise", type(r[1]).__name__)
            raise r[1]
        return False

    # ---- stream output
    def send(self, data, flags=0):
        self._alive("send")
        r = self._next("send")
        self._fail("send", r, reading=False)
        n = len(data)
        if r[0] == "full":
            k = n
        elif r[0] == "partial":
            k = min(r[1], n)
        elif r[0] == "zero":
            k = 0
        else:
            raise AssertionError("send cannot be answered with %r" % (r,))
        if k:
            piece = bytes(data[:k])
            self.sent.extend(piece)
            self.sent_chunks.append(piece)
        if k == n:
            self._log("send", "full", k)
        elif k:
            self._log("send", "part", k)
        else:
            self._log("send", "zero")
        return k

    def sendall(self, data, flags=0):
        view = bytes(data)
        while view:
            view = view[self.send(view):]

    # ---- stream input
    def recv(self, bufsize, flags=0):
        self._alive("recv")
        r = self._next("recv")
        self._fail("recv", r, reading=True)
        if r[0] == "closed":
            self._log("recv", "closed")
            return b""
        if r[0] != "data":
            raise AssertionError("recv cannot be answered with %r" % (r,))
        b = r[1]
        if bufsize is not None and len(b) > bufsize:
            self.push_front("recv", ("data", b[bufsize:]))
            b = b[:bufsize]
        self.delivered.extend(b)
        self.delivered_chunks.append(b)
        self._log("recv", "data", len(b))
        return b

    # ---- datagrams
    def sendto(self, data, *args):
        addr = args[-1]
        self._alive("sendto")
        r = self._next("sendto")
        self._fail("sendto", r, reading=False)
        if r[0] not in ("full", "zero"):
            raise AssertionError("sendto cannot be answered with %r" % (r,))
        if r[0] == "zero":
            self._log("sendto", "zero")
            return 0
        self.dgrams_sent.append((bytes(data), addr))
        self._log("sendto", "full", len(data))
        return len(data)

    def recvfrom(self, bufsize, flags=0):
        self._alive("recvfrom")
        r = self._next("recvfrom")
        self._fail("recvfrom", r, reading=True)
        if r[0] != "dgram":
            raise AssertionError("recvfrom cannot be answered with %r" % (r,))
        b = r[1][:bufsize]
        self.dgrams_delivered.append((b, r[2]))
        self._log("recvfrom", "data", len(b))
        return b, r[2]

    # ---- connecting / accepting
    def connect_ex(self, address):
        self._alive("connect_ex")
        r = self._next("connect_ex")
        self._fail("connect_ex", r, reading=False)
        if r[0] != "rc":
            raise AssertionError("connect_ex cannot be answered with %r" % (r,))
        if r[1] in (0, errno.EISCONN):
            self.connected = True
            if self.peer is None:
                self.peer = address
            if self.sockname[1] == 0:
                self.sockname = ("127.0.0.1", 40000 + self._fd % 20000)
        self._log("connect_ex", "rc", r[1])
        return r[1]

    def connect(self, address):
        self._alive("connect")
        r = self._next("connect")
        self._fail("connect", r, reading=False)
        self.connected = True
        if self.peer is None:
            self.peer = address
        self._log("connect", "ok")

    def accept(self):
        self._alive("accept")
        r = self._next("accept")
        self._fail("accept", r, reading=True)
        if r[0] != "conn":
            raise AssertionError("accept cannot be answered with %r" % (r,))
        self._log("accept", "conn", r[2])
        return r[1], r[2]

    def do_handshake(self, block=False):
        self._alive("do_handshake")
        r = self._next("do_handshake")
        self._fail("do_handshake", r, reading=True)
        self._log("do_handshake", "ok")

    def bind(self, address):
        self._alive("bind")
        r = self._next("bind")
        self._fail("bind", r, reading=False)
        self.bound = address
        host, port = address[0], address[1]
        self.sockname = (host or "0.0.0.0", port or (40000 + self._fd % 20000))
        self._log("bind", "ok")

    def listen(self, backlog=5):
        self._alive("listen")
        r = self._next("listen")
        self._fail("listen", r, reading=False)
        self.listening = True
        self._log("listen", "ok")

    # ---- names, options
    def getpeername(self):
        self._alive("getpeername")
        if not self.connected or self.peer is None:
            raise os_error(errno.ENOTCONN)
        return self.peer

    def getsockname(self):
        self._alive("getsockname")
        return self.sockname

    def setblocking(self, flag):
        self._alive("setblocking")
        self.blocking = bool(flag)
        self.timeout = None if flag else 0.0

    def settimeout(self, value):
        self._alive("settimeout")
        self.timeout = value
        self.blocking = value is None

    def gettimeout(self):
        return self.timeout

    def setsockopt(self, level, optname, value, *rest):
        self._alive("setsockopt")
        self.opts[(level, optname)] = value

    def getsockopt(self, level, optname, *rest):
        self._alive("getsockopt")
        return self.opts.get((level, optname), 0)

    def fileno(self):
        return -1 if self.closed else self._fd

    # ---- ending
    def shutdown(self, how):
        self._alive("shutdown")
        self.shutdowns.append(how)
        r = self._next("shutdown")
        self._fail("shutdown", r, reading=False)
        if not self.connected:
            self._log("shutdown", "raise", "ENOTCONN")
            raise os_error(errno.ENOTCONN)
        self._log("shutdown", "ok", how)

    @property
    def shut(self):
        """True when a shutdown of both directions (or a close) reached the socket"""
        return self.closed or _socket.SHUT_RDWR in self.shutdowns or \
            (_socket.SHUT_RD in self.shutdowns and _socket.SHUT_WR in self.shutdowns)

    def close(self):
        self.close_count += 1
        if self.closed:
            return
        r = self._next("close")
        self.closed = True
        self._log("close", "ok")
        self._fail("close", r, reading=False)

    def detach(self):
        return self.fileno()

    def __enter__(self):
        return self

    def __exit__(self, *a):
        self.close()


class ScriptedTlsSocket(object):
    """What FakeTlsContext.wrap_socket returns: a distinct object (as ssl.SSLSocket is) that shares script and records
    with the ScriptedSocket it wraps (`.inner`).  Would-block answers become ssl.SSLWant*Error."""

    def __init__(self, inner, context=None, server_side=False, server_hostname=None, do_handshake_on_connect=True):
        object.__setattr__(self, "inner", inner)
        object.__setattr__(self, "context", context)
        object.__setattr__(self, "server_side", server_side)
        object.__setattr__(self, "server_hostname", server_hostname)
        inner.tls = True
        inner.wrapper = self
        if do_handshake_on_connect and inner.connected:
            inner.do_handshake()

    def __getattr__(self, name):
        return getattr(self.inner, name)

    def __setattr__(self, name, value):
        setattr(self.inner, name, value)

    def __repr__(self):
        return "<ScriptedTlsSocket over %r>" % (self.inner,)


class FakeTlsContext(object):
    """Stands in for ssl.SSLContext below ClientTls / IncomerTls / ServerTls (ssl itself is not modelled)."""

    def __init__(self, verify_mode=_ssl.CERT_NONE, check_hostname=False):
        self.verify_mode = verify_mode
        self.check_hostname = check_hostname
        self.options = 0
        self.wrapped = []        # [(inner socket, kwargs)]
        self.loaded = []         # certificate related calls, recorded only

    def wrap_socket(self, sock, server_side=False, do_handshake_on_connect=True, suppress_ragged_eofs=True,
                    server_hostname=None, session=None):
        inner = getattr(sock, "inner", sock)
        self.wrapped.append((inner, {"server_side": server_side, "server_hostname": server_hostname,
                                     "do_handshake_on_connect": do_handshake_on_connect}))
        return ScriptedTlsSocket(inner, context=self, server_side=server_side, server_hostname=server_hostname,
                                 do_handshake_on_connect=do_handshake_on_connect)

    def load_verify_locations(self, *a, **k):
        self.loaded.append(("load_verify_locations", a, k))

    def load_default_certs(self, *a, **k):
        self.loaded.append(("load_default_certs", a, k))

    def load_cert_chain(self, *a, **k):
        self.loaded.append(("load_cert_chain", a, k))

    def set_ciphers(self, *a, **k):
        self.loaded.append(("set_ciphers", a, k))


class FakeSocketModule(object):
    """Stands in for the `socket` module inside one module of the code under test.

        fake = FakeSocketModule(on_create=lambda s: s.push("connect_ex", rc(errno.EINPROGRESS), rc(0)))
        undo = install(clienting, "socket", fake)

    `factory(family, type, proto)` may build the ScriptedSocket itself; `on_create(sock)` is called for every socket
    made (pre-load scripts there: the code under test creates its sockets inside open()/reopen()).
    """

    def __init__(self, factory=None, on_create=None, strict=False):
        self.factory = factory
        self.on_create = on_create
        self.strict = strict
        self.created = []

    def socket(self, family=_socket.AF_INET, type=_socket.SOCK_STREAM, proto=0, fileno=None):
        if self.factory:
            s = self.factory(family, type, proto)
        else:
            s = ScriptedSocket(name="sock%d" % (len(self.created) + 1), family=family, type=type, proto=proto,
                               strict=self.strict)
        self.created.append(s)
        if self.on_create:
            self.on_create(s)
        return s

    @property
    def last(self):
        return self.created[-1] if self.created else None

    def __getattr__(self, name):
        return getattr(_socket, name)


class ScriptedSerial(_Scripted):
    """Stands in for pyserial's Serial object (and, through FakeOsModule, for a tty file descriptor).

    Operations "read" and "write" use the same vocabulary as recv / send: data(b) | CLOSED (nothing there: b"") | BLOCK |
    err(code) for read; FULL | partial(k) | ZERO | BLOCK | err(code) for write.  BLOCK raises OSError(EAGAIN).
    Records: .written / .written_chunks (the wire), .delivered / .delivered_chunks.
    """

    def __init__(self, name="tty", port="/dev/scripted", strict=False, defaults=None):
        super(ScriptedSerial, self).__init__(name=name, strict=strict, defaults=defaults)
        self.port = port
        self.is_open = True
        self.closed = False
        self.written = bytearray()
        self.written_chunks = []
        self.delivered = bytearray()
        self.delivered_chunks = []
        self.resets = []
        _fileno[0] += 1
        self._fd = _fileno[0]

    def _fail(self, op, r):
        if r[0] == "block":
            self._log(op, "block")
            raise os_error(errno.EAGAIN)
        if r[0] == "errno":
            self._log(op, "raise", errno.errorcode.get(r[1], str(r[1])))
            raise os_error(r[1])
        if r[0] == "raise":
            self._log(op, "raise", type(r[1]).__name__)
            raise r[1]

    def _alive(self, op):
        if self.closed:
            self._log(op, "raise", "EBADF-after-close")
            raise os_error(errno.EBADF)

    def write(self, data):
        self._alive("write")
        r = self._next("write")
        self._fail("write", r)
        n = len(data)
        k = n if r[0] == "full" else min(r[1], n) if r[0] == "partial" else 0
        if r[0] not in ("full", "partial", "zero"):
            raise AssertionError("write cannot be answered with %r" % (r,))
        if k:
            piece = bytes(data[:k])
            self.written.extend(piece)
            self.written_chunks.append(piece)
        self._log("write", "full" if k == n else "part" if k else "zero", k)
        return k

    def read(self, size=1):
        self._alive("read")
        r = self._next("read")
        self._fail("read", r)
        if r[0] == "closed":
            self._log("read", "closed")
            return b""
        if r[0] != "data":
            raise AssertionError("read cannot be answered with %r" % (r,))
        b = r[1]
        if len(b) > size:
            self.push_front("read", ("data", b[size:]))
            b = b[:size]
        self.delivered.extend(b)
        self.delivered_chunks.append(b)
        self._log("read", "data", len(b))
        return b

    @property
    def in_waiting(self):
        return sum(len(r[1]) for r in self.script.get("read", ()) if r[0] == "data")

    def reset_input_buffer(self):
        self.resets.append("input")

    def reset_output_buffer(self):
        self.resets.append("output")

    def fileno(self):
        return self._fd

    def close(self):
        self.closed = True
        self.is_open = False
        self._log("close", "ok")


class FakeOsModule(object):
    """Stands in for `os` inside ioflo.aio.serial.serialing: read/write/close on the file descriptor of a registered
    ScriptedSerial reach that double; `open(path, flags)` of a registered path returns its descriptor."""

    def __init__(self, *devices):
        self.devices = {}
        self.paths = {}
        for d in devices:
            self.register(d)

    def register(self, dev):
        self.devices[dev.fileno()] = dev
        self.paths[dev.port] = dev
        return dev.fileno()

    def open(self, path, flags, mode=0o777):
        if path in self.paths:
            return self.paths[path].fileno()
        raise FileNotFoundError(errno.ENOENT, _os.strerror(errno.ENOENT), path)

    def read(self, fd, n):
        if fd in self.devices:
            return self.devices[fd].read(n)
        raise os_error(errno.EBADF)

    def write(self, fd, data):
        if fd in self.devices:
            return self.devices[fd].write(data)
        raise os_error(errno.EBADF)

    def close(self, fd):
        if fd in self.devices:
            return self.devices[fd].close()
        raise os_error(errno.EBADF)

    def __getattr__(self, name):
        return getattr(_os, name)


# ------------------------------------------------------------------ patching helpers
def install(module, attr, value):
    """module.attr = value; returns undo()"""
    missing = object()
    old = module.__dict__.get(attr, missing)
    setattr(module, attr, value)

    def undo():
        if old is missing:
            try:
                delattr(module, attr)
            except AttributeError:
                pass
        else:
            setattr(module, attr, old)
    return undo


@contextlib.contextmanager
def patched(module, attr, value):
    undo = install(module, attr, value)
    try:
        yield value
    finally:
        undo()


# ------------------------------------------------------------------ wire log
_WL = re.compile(rb"(TX|RX) ([^\n]*)\n([^\n]*)\n")


def parse_wirelog(buf):
    """WireLog buffer -> [(b"TX"|b"RX", address text, payload)].

    The format has no length field ("TX <address>\\n<payload>\\n"), so payloads must not contain a newline byte: the
    harness chooses its byte alphabet accordingly.  Raises ValueError when the buffer is not a sequence of records.
    """
    out = []
    pos = 0
    buf = bytes(buf or b"")
    while pos < len(buf):
        m = _WL.match(buf, pos)
        if not m:
            raise ValueError("wire log is not a sequence of records at offset %d: %r" % (pos, buf[pos:pos + 40]))
        out.append((m.group(1), m.group(2).decode("latin-1"), m.group(3)))
        pos = m.end()
    return out
