"""Targeted reshaping of generated Flo programs so that corner cases the plain generator rarely hits occur often.

All functions take (rng, prog) and modify the program value in place (it stays well formed).
  later_done       an auxiliary framer completes only after k runs (two frames, `go` on recurred, `done me` on arrival)
  branchy_condaux  a frame with >= 2 children carries a conditional auxiliary on an input, and the framer starts (or
                   moves) in the NON-primary branch below it, so suspension / restoration concern a non-default outline
  shared_original  one original plain auxiliary is listed under two frames of different subtrees with transitions
                   between them (ownership hand-over, refusal while owned)
  deepen           add a third level to a frame forest with transitions inside the same top frame
"""
from .gen import frame, rec, need


def _int_inputs(prog):
    """input shares holding plain integers (typed string / boolean inputs exist with the `needs` profile)"""
    ok = [s for s in prog["inputs"] if type(prog["shares"].get(s)) is int]
    return ok or ["in.a"]


def _keys_of(prog, f):
    return prog["framers"][f]["frames"]


def _kids(prog, f, key):
    return [c for c in _keys_of(prog, f) if prog["frames"][c]["over"] == key]


def _new_frame(prog, f, over=""):
    keys = _keys_of(prog, f)
    i = len(keys)
    while "%s.%s%d" % (f, f[0], i) in prog["frames"]:
        i += 1
    key = "%s.%s%d" % (f, f[0], i)
    fr = frame(f, "%s%d" % (f, i), over=over)
    for ctx in ("enter", "exit", "recur"):
        fr[ctx].append(rec("%s%s%d" % (ctx[0], f, i)))
    prog["frames"][key] = fr
    keys.append(key)
    if over and not prog["frames"][over]["under"]:
        prog["frames"][over]["under"] = key
    return key


def auxes_of_kind(prog, sched="aux"):
    return [f for f, d in prog["framers"].items() if d["sched"] == sched]


def later_done(rng, prog, aux=None, k=None):
    cands = auxes_of_kind(prog)
    if not cands:
        return False
    aux = aux or rng.choice(cands)
    keys = _keys_of(prog, aux)
    for key in keys:
        fr = prog["frames"][key]
        for ctx in ("enter", "recur", "exit", "renter", "rexit", "precur"):
            fr[ctx] = [a for a in fr[ctx] if a.get("k") != "done"]
    first = prog["framers"][aux]["first"]
    last = _new_frame(prog, aux)
    prog["frames"][last]["enter"].append({"k": "done", "who": "me"})
    k = k if k is not None else rng.choice((1, 1, 2, 3))
    prog["frames"][first]["precur"].insert(0, {"k": "go", "far": last, "needs": [need("recurred", False, op=">=", goal=k)], "transit": []})
    return True


def branchy_condaux(rng, prog, framer=None):
    mains = [f for f in prog["order"]]
    conds = [f for f in auxes_of_kind(prog) if any(a.get("k") == "auxif" and a["aux"] == f
                                                   for fr in prog["frames"].values() for a in fr["precur"])]
    if not mains:
        return False
    if not conds:
        # never reuse a plain auxiliary as a conditional one (a framer is one or the other): make a fresh framer
        i = 0
        while "y%d" % i in prog["framers"]:
            i += 1
        y = "y%d" % i
        prog["framers"][y] = {"sched": "aux", "period": 0, "first": "", "frames": []}
        prog["framers"][y]["first"] = _new_frame(prog, y)
        conds = [y]
    f = framer or rng.choice(mains)
    keys = _keys_of(prog, f)
    # a main frame with two children
    main = None
    for key in keys:
        if len(_kids(prog, f, key)) >= 2:
            main = key
            break
    if main is None:
        main = keys[0] if not prog["frames"][keys[0]]["over"] else _new_frame(prog, f)
        while len(_kids(prog, f, main)) < 2:
            _new_frame(prog, f, over=main)
    kids = _kids(prog, f, main)
    primary = prog["frames"][main]["under"] or kids[0]
    other = [c for c in kids if c != primary][0]
    x = rng.choice(conds)
    fr = prog["frames"][main]
    fr["precur"] = [a for a in fr["precur"] if a.get("k") != "auxif"]
    fr["precur"].insert(rng.randint(0, len(fr["precur"])),
                        {"k": "auxif", "aux": x, "needs": [need("cmp", False, share=rng.choice(_int_inputs(prog)), op="==", goal=1)]})
    # no plain-aux or guard obstacles on the way in
    prog["framers"][f]["first"] = other
    # the sibling branches move between each other now and then
    prog["frames"][other]["precur"].append({"k": "go", "far": primary, "needs": [need("recurred", False, op=">=", goal=rng.randint(2, 5))], "transit": []})
    prog["frames"][primary]["precur"].append({"k": "go", "far": other, "needs": [need("recurred", False, op=">=", goal=rng.randint(1, 3))], "transit": []})
    later_done(rng, prog, x)
    return True


def shared_original(rng, prog):
    plains = [a for a in auxes_of_kind(prog)
              if not any(b.get("k") == "auxif" and b["aux"] == a for fr in prog["frames"].values() for b in fr["precur"])]
    mains = list(prog["order"])
    if not plains or not mains:
        return False
    a = rng.choice(plains)
    f = rng.choice(mains)
    keys = _keys_of(prog, f)
    while len(keys) < 3:
        _new_frame(prog, f)
    # two frames that are never in one outline together: two roots, or two siblings
    roots = [k for k in keys if not prog["frames"][k]["over"]]
    while len(roots) < 2:
        roots.append(_new_frame(prog, f))
    h1, h2 = roots[0], roots[1]
    for fr in prog["frames"].values():
        if a in fr["auxes"]:
            fr["auxes"].remove(a)
    prog["frames"][h1]["auxes"].append(a)
    prog["frames"][h2]["auxes"].append(a)
    prog["frames"][h1]["precur"].insert(0, {"k": "go", "far": h2, "needs": [need("recurred", False, op=">=", goal=rng.randint(1, 3))], "transit": []})
    prog["frames"][h2]["precur"].insert(0, {"k": "go", "far": h1, "needs": [need("recurred", False, op=">=", goal=rng.randint(1, 3))], "transit": []})
    if rng.random() < 0.6:
        # a third frame below h1 that also wants it: entering h1 > h3 together must be refused (also when the
        # auxiliary is at that moment owned by the frame being exited), entering h3 alone from h1 as well
        h3 = _new_frame(prog, f, over=h1)
        prog["frames"][h3]["auxes"].append(a)
        prog["frames"][h2]["precur"].insert(0, {"k": "go", "far": h3, "needs": [need("recurred", False, op=">=", goal=rng.randint(1, 2))], "transit": []})
        if rng.random() < 0.5:
            prog["frames"][h1]["under"] = h3
    prog["framers"][f]["first"] = rng.choice((h1, h2))
    return True


def ready_then_start(rng, prog):
    """a slave (or an inactive framer) with a first-frame condition on an input is readied while the condition holds and
    started later, after the environment may have flipped the condition (the start must re-check)"""
    slaves = auxes_of_kind(prog, "slave")
    mains = list(prog["order"])
    if not mains:
        return False
    boss = rng.choice(mains)
    prog["framers"][boss]["sched"] = "active"
    if slaves and rng.random() < 0.7:
        tgt = rng.choice(slaves)
        mk = lambda ctl: {"k": "fiat", "ctl": ctl, "who": tgt}
    else:
        others = [m for m in mains if m != boss]
        if not others:
            return False
        tgt = rng.choice(others)
        prog["framers"][tgt]["sched"] = "inactive"
        mk = lambda ctl: {"k": "bid", "ctl": ctl, "who": [tgt], "period": -1}
    first = prog["framers"][tgt]["first"]
    inp = rng.choice(_int_inputs(prog))
    prog["frames"][first]["benter"] = [need("cmp", False, share=inp, op="==", goal=0)]
    k1 = _new_frame(prog, boss)
    k2 = _new_frame(prog, boss)
    k3 = _new_frame(prog, boss)
    prog["frames"][k1]["enter"].append(mk("ready"))
    prog["frames"][k1]["precur"].append({"k": "go", "far": k2, "needs": [need("recurred", False, op=">=", goal=rng.randint(1, 3))], "transit": []})
    prog["frames"][k2]["enter"].append(mk("start"))
    prog["frames"][k2]["precur"].append({"k": "go", "far": k3, "needs": [need("recurred", False, op=">=", goal=rng.randint(1, 2))], "transit": []})
    prog["frames"][k3]["enter"].append(mk(rng.choice(("stop", "start", "run"))))
    prog["frames"][k3]["precur"].append({"k": "go", "far": k1, "needs": [need("recurred", False, op=">=", goal=2)], "transit": []})
    prog["framers"][boss]["first"] = k1
    return True


def deepen(rng, prog):
    mains = list(prog["order"])
    if not mains:
        return False
    f = rng.choice(mains)
    keys = _keys_of(prog, f)
    top = keys[0]
    while prog["frames"][top]["over"]:
        top = prog["frames"][top]["over"]
    mid1 = _new_frame(prog, f, over=top)
    mid2 = _new_frame(prog, f, over=top)
    leaf1 = _new_frame(prog, f, over=mid1)
    leaf2 = _new_frame(prog, f, over=mid2)
    leaf3 = _new_frame(prog, f, over=mid2)
    for a, b in ((leaf1, leaf3), (leaf3, leaf2), (leaf2, mid1), (mid1, leaf3)):
        prog["frames"][a]["precur"].append({"k": "go", "far": b, "needs": [need("recurred", False, op=">=", goal=rng.randint(1, 2))], "transit": []})
    prog["framers"][f]["first"] = rng.choice((leaf1, leaf3, mid2))
    # a transition owned by the top frame whose target keeps the middle frame (only the leaf changes)
    prog["frames"][top]["precur"].insert(0, {"k": "go", "far": rng.choice((leaf2, leaf3)),
                                             "needs": [need("recurred", False, op="==", goal=rng.randint(1, 3))], "transit": []})
    if rng.random() < 0.7:
        clocked_aux(rng, prog, mid2)
    return True


def clocked_aux(rng, prog, host):
    """a fresh plain auxiliary on frame `host` whose own frames move on repeat / timeout"""
    i = 0
    while "x%d" % i in prog["framers"]:
        i += 1
    a = "x%d" % i
    prog["framers"][a] = {"sched": "aux", "period": 0, "first": "", "frames": []}
    k1 = _new_frame(prog, a)
    k2 = _new_frame(prog, a)
    k3 = _new_frame(prog, a)
    prog["framers"][a]["first"] = k1
    if rng.random() < 0.5:
        n = need("recurred", False, op=">=", goal=rng.randint(1, 4))
        sugar = "repeat"
    else:
        n = need("elapsed", False, op=">=", goal=rng.randint(1, 4) * prog["tick"])
        sugar = "timeout"
    prog["frames"][k1]["precur"].append({"k": "go", "far": k2, "needs": [n], "transit": [], "sugar": sugar})
    prog["frames"][k2]["precur"].append({"k": "go", "far": k3, "needs": [need("recurred", False, op=">=", goal=rng.randint(1, 3))],
                                         "transit": [], "sugar": "repeat"})
    prog["frames"][host]["auxes"].append(a)
    return a


def exit_bids(rng, prog):
    """a framer that is stopped by another one bids on itself (or on all) from an exit context, and the stopper exists"""
    mains = list(prog["order"])
    if len(mains) < 2:
        return False
    victim, boss = rng.sample(mains, 2)
    prog["framers"][victim]["sched"] = "active"
    prog["framers"][boss]["sched"] = "active"
    vk = _keys_of(prog, victim)
    for key in rng.sample(vk, k=min(len(vk), rng.randint(1, 2))):
        prog["frames"][key]["exit"].append({"k": "bid", "ctl": rng.choice(("start", "start", "run", "ready")),
                                            "who": rng.choice((["me"], ["all"], [victim])), "period": -1})
    bk = _keys_of(prog, boss)
    key = rng.choice(bk)
    prog["frames"][key][rng.choice(("enter", "recur"))].append({"k": "bid", "ctl": "stop", "who": [victim], "period": -1})
    # and later possibly start it again
    prog["frames"][rng.choice(bk)]["recur"].append({"k": "bid", "ctl": rng.choice(("start", "stop")), "who": [victim], "period": -1})
    return True


def guarded_aux_reentry(rng, prog):
    """an original plain auxiliary whose first frame carries an entry guard on an input, under a frame that is
    forcibly re-entered (`go me` / go to an ancestor that keeps it): the guard is checked again at every re-entry,
    also while the auxiliary is still owned by that very frame"""
    plains = [a for a in auxes_of_kind(prog)
              if not any(b.get("k") == "auxif" and b["aux"] == a for fr in prog["frames"].values() for b in fr["precur"])]
    mains = list(prog["order"])
    if not plains or not mains:
        return False
    a = rng.choice(plains)
    hosts = [k for k, fr in prog["frames"].items() if a in fr["auxes"] and fr["framer"] in mains]
    if not hosts:
        f = rng.choice(mains)
        h = rng.choice(_keys_of(prog, f))
        prog["frames"][h]["auxes"].append(a)
    else:
        h = rng.choice(hosts)
    s = rng.choice(_int_inputs(prog))
    first = prog["framers"][a]["first"]
    prog["frames"][first]["benter"] = [need("cmp", False, share=s, op="==", goal=prog["shares"].get(s, 0))]
    target = h
    if prog["frames"][h]["over"] and rng.random() < 0.4:
        target = prog["frames"][h]["over"]      # re-enter from the ancestor down: h is exited and entered again
    prog["frames"][h]["precur"].insert(0, {"k": "go", "far": target, "needs": [need("recurred", False, op=">=", goal=rng.randint(1, 3))], "transit": []})
    return True


SHAPES = {
    "C03": (exit_bids, deepen, branchy_condaux),
    "C04": (exit_bids, ready_then_start, ready_then_start),
    "C05": (deepen, branchy_condaux, exit_bids),
    "C06": (deepen, branchy_condaux, shared_original, later_done),
    "C07": (deepen, shared_original, branchy_condaux, later_done, exit_bids),
    "C08": (shared_original, deepen, exit_bids, ready_then_start, guarded_aux_reentry, guarded_aux_reentry),
    "C09": (shared_original, later_done, deepen, exit_bids, shared_original),
    "C10": (branchy_condaux, later_done, branchy_condaux),
    "C11": (deepen, later_done),
}


def apply(rng, prop, prog, fraction=0.5):
    """reshape about `fraction` of the programs of a property with one or two of its shapes"""
    fns = SHAPES.get(prop)
    if not fns or rng.random() >= fraction:
        return []
    used = []
    for fn in rng.sample(fns, k=min(len(fns), rng.choice((1, 1, 2)))):
        if fn(rng, prog):
            used.append(fn.__name__)
    return used
