"""Clones of moot framers (property C12) on top of the Flo machinery.

A generated case has two views of the same program:
  * the SCRIPT view: moot template framers (`framer T be moot`), host frames declaring clones (`aux T as tag`,
    `aux T as mine`, nested clones inside templates), template acts addressing framer-/frame-/main-relative shares
    (`count of framer`, `flag of frame`, `total of framer main`);
  * the SPEC view (the `prog` of specs/flo/Flo.tla): no templates; every clone is an ordinary auxiliary framer whose
    frames and actions are a copy of its template's, named as the real build named it, with every relative share
    resolved to the path the documentation prescribes for THAT clone (framer.<clone>.count, framer.<clone>.frame.<f>.flag,
    framer.<main framer>.total ...).
Property C12 is then exactly: the recorded execution of the script (clones) is a behaviour of the spec view (originals
run alone under the same inputs, each with private relative state).  Shares of distinct clones are distinct names in
the spec view, so any sharing of relative state in the implementation changes counters and hence transitions.
"""
import copy
import random

from .gen import frame, rec, need


def rel(name, kind):
    """script-view share reference"""
    return "%s of %s" % (name, kind)


def resolve(ref, framer, frame_name, main_framer, main_frame):
    """documented resolution of a relative reference inside framer `framer` / frame `frame_name`"""
    if " of " not in ref:
        return ref
    name, kind = ref.split(" of ", 1)
    if kind == "framer":
        return "framer.%s.%s" % (framer, name)
    if kind == "frame":
        return "framer.%s.frame.%s.%s" % (framer, frame_name, name)
    if kind == "framer main":
        return "framer.%s.%s" % (main_framer, name)
    if kind == "frame main":
        return "framer.%s.frame.%s.%s" % (main_framer, main_frame, name)
    raise ValueError(ref)


SHARE_FIELDS = ("share", "src", "dst", "goal_share")


def _map_shares(obj, fn):
    """apply fn to every share reference in an act / need (recursively)"""
    if isinstance(obj, list):
        return [_map_shares(x, fn) for x in obj]
    if isinstance(obj, dict):
        out = {}
        for k, v in obj.items():
            if k in ("share", "src", "dst") and isinstance(v, str):
                out[k] = fn(v)
            elif k == "goal" and obj.get("k") == "cmpshare":
                out[k] = fn(v)
            else:
                out[k] = _map_shares(v, fn)
        return out
    return obj


class CloneGen:
    def __init__(self, rng):
        self.r = rng
        self.n = 0

    def tag(self, b):
        self.n += 1
        return "%s%d" % (b, self.n)

    def template(self, name, nframes, nested=None):
        """template framer: dict(frames=[frame dicts in order], first=frame name, clones={frame name: [(orig, tag)]})"""
        r = self.r
        frames = []
        names = ["%s%d" % (name.lower(), i) for i in range(nframes)]
        for i, fn in enumerate(names):
            fr = frame(name, fn)
            if i > 0 and r.random() < 0.3:
                fr["over"] = names[r.randrange(i)]
            for ctx in ("enter", "exit", "recur"):
                if r.random() < 0.8:
                    fr[ctx].append(rec(self.tag(ctx[0] + fn + "_")))
            # several actions per context (a clone must carry all of them, in order)
            if r.random() < 0.5:
                fr["exit"].append(rec(self.tag("x2" + fn + "_")))
            if r.random() < 0.3:
                fr["renter"].append(rec(self.tag("re" + fn + "_")))
                fr["rexit"].append(rec(self.tag("rx" + fn + "_")))
            frames.append(fr)
        for i, fr in enumerate(frames):
            kids = [g["name"] for g in frames if g["over"] == fr["name"]]
            if kids:
                fr["under"] = r.choice(kids)    # primary-under overrides (the `under` verb) must survive cloning
        first = frames[0]
        # private state: initialised on entry of the first frame's outline top (the first frame itself is a root)
        first["enter"].insert(0, {"k": "put", "share": rel("count", "framer"), "val": 0})
        first["enter"].insert(1, {"k": "put", "share": rel("flag", "frame"), "val": 0})
        first["enter"].insert(2, {"k": "put", "share": rel("total", "framer"), "val": 0})   # written by nested clones
        for i, fr in enumerate(frames):
            c = r.random()
            if c < 0.7:
                fr["recur"].append({"k": "inc", "share": rel("count", "framer"), "by": 1})
            if r.random() < 0.3:
                fr["recur"].append({"k": "inc", "share": rel("total", "framer main"), "by": 1})
            if r.random() < 0.3 and fr is first:
                fr["recur"].append({"k": "inc", "share": rel("flag", "frame"), "by": 1})
            # transitions on private state / clocks / inputs
            for _ in range(r.choice((1, 1, 2))):
                far = r.choice(names)
                k = r.random()
                if k < 0.5:
                    n = need("cmp", r.random() < 0.15, share=rel("count", "framer"), op=r.choice((">=", ">", "==")), goal=r.randint(1, 4))
                elif k < 0.7:
                    n = need("recurred", False, op=">=", goal=r.randint(1, 3))
                elif k < 0.8:
                    n = need("cmp", False, share=r.choice(("in.a", "in.b")), op="==", goal=r.randint(0, 1))
                elif k < 0.9:
                    # a marker condition on an ABSOLUTE share: every clone keeps its own mark on it
                    n = need("updated", False, share=r.choice(("in.a", "in.b")), frame="", by="", form="name")
                else:
                    n = need("cmp", False, share=rel("total", "framer main"), op=">=", goal=r.randint(1, 5))
                fr["precur"].append({"k": "go", "far": far, "needs": [n], "transit": []})
        if r.random() < 0.7:
            r.choice(frames)[r.choice(("enter", "recur"))].append({"k": "done", "who": "me"})
        # entry guards (let me if [not] ...) on the later frames of the template: copied with the clone
        for fr in frames[1:]:
            if r.random() < 0.5:
                fr["benter"] = [need("cmp", r.random() < 0.6, share=r.choice(("in.a", "in.b")), op=r.choice(("==", "!=", ">=")), goal=r.randint(0, 1))]
        clones = {}
        if nested and r.random() < 0.8:
            host = r.choice(frames)
            if host["over"] == "" and host is first or True:
                clones[host["name"]] = [(nested, r.choice(("inner", "mine")))]
        return {"name": name, "frames": frames, "first": first["name"], "clones": clones}

    def case(self):
        r = self.r
        tick = r.choice((1, 2))
        t0 = self.template("T0", r.randint(1, 3))
        t1 = self.template("T1", r.randint(1, 3), nested="T0")
        templates = {"T0": t0, "T1": t1}
        hosts = []
        nhost = r.randint(1, 2)
        for h in range(nhost):
            hname = "m%d" % h
            names = ["%s%d" % (hname, i) for i in range(r.randint(2, 3))]
            frames = []
            for i, fn in enumerate(names):
                fr = frame(hname, fn)
                if i > 0 and r.random() < 0.4:
                    fr["over"] = names[r.randrange(i)]
                for ctx in ("enter", "exit", "recur"):
                    if r.random() < 0.7:
                        fr[ctx].append(rec(self.tag(ctx[0] + fn + "_")))
                frames.append(fr)
            for fr in frames:
                kids = [g["name"] for g in frames if g["over"] == fr["name"]]
                if kids:
                    fr["under"] = kids[0]
            frames[0]["enter"].insert(0, {"k": "put", "share": rel("total", "framer"), "val": 0})
            clones = {}
            tags = 0
            for fr in frames:
                lst = []
                for _ in range(r.choice((0, 1, 1, 2))):
                    orig = r.choice(("T0", "T0", "T1"))
                    if r.random() < 0.5:
                        tags += 1
                        lst.append((orig, "c%d" % tags))
                    else:
                        lst.append((orig, "mine"))
                if lst:
                    clones[fr["name"]] = lst
            for fr in frames:
                for _ in range(r.choice((1, 1, 2))):
                    far = r.choice(names)
                    k = r.random()
                    if k < 0.35:
                        n = need("recurred", False, op=">=", goal=r.randint(1, 4))
                    elif k < 0.6:
                        n = need("cmp", False, share=rel("total", "framer"), op=">=", goal=r.randint(1, 6))
                    elif k < 0.8 and fr["name"] in clones:
                        n = {"k": "auxdone", "neg": False, "mode": r.choice(("any", "all")), "frame": fr["name"]}
                    else:
                        n = need("cmp", False, share=r.choice(("in.a", "in.b")), op="==", goal=r.randint(0, 1))
                    fr["precur"].append({"k": "go", "far": far, "needs": [n], "transit": []})
            # an ORIGINAL (not cloned) auxiliary shared by two frames of one outline, declared after the clones of
            # those frames: an outline that would claim it twice must be refused whatever else the frames carry
            origs = {}
            nested_pairs = [(fr["over"], fr["name"]) for fr in frames if fr["over"]]
            if nested_pairs and r.random() < 0.5:
                up, lo = r.choice(nested_pairs)
                sname = "s%d" % h
                sfr = frame(sname, sname + "0")
                for ctx in ("enter", "exit", "recur"):
                    sfr[ctx].append(rec(self.tag(ctx[0] + sname + "_")))
                origs = {"framer": {"name": sname, "frames": [sfr], "first": sname + "0", "clones": {}},
                         "frames": {up: [sname], lo: [sname]} if r.random() < 0.7 else {lo: [sname]}}
            hosts.append({"name": hname, "frames": frames, "first": names[0], "clones": clones, "origs": origs,
                          "sched": "active" if h == 0 or r.random() < 0.7 else "inactive"})
        envs = {}
        ticks = r.randint(5, 9)
        for n in range(1, ticks):
            if r.random() < 0.4:
                envs[n] = [(r.choice(("in.a", "in.b")), r.randint(0, 1))]
        return {"tick": tick, "templates": templates, "hosts": hosts, "envs": envs, "ticks": ticks}


# ---- script view ---------------------------------------------------------------------------------------------------
def script_prog(case):
    prog = {"tick": case["tick"], "order": [h["name"] for h in case["hosts"]], "framers": {}, "frames": {},
            "shares": {"in.a": 0, "in.b": 0}, "inputs": ["in.a", "in.b"]}

    def add(fdef, sched):
        keys = []
        for fr in fdef["frames"]:
            key = "%s.%s" % (fdef["name"], fr["name"])
            f2 = copy.deepcopy(fr)
            f2["over"] = "%s.%s" % (fdef["name"], fr["over"]) if fr["over"] else ""
            f2["under"] = "%s.%s" % (fdef["name"], fr["under"]) if fr["under"] else ""
            f2["auxes"] = ["%s as %s" % (o, t) for (o, t) in fdef["clones"].get(fr["name"], [])]
            f2["auxes"] += list(fdef.get("origs", {}).get("frames", {}).get(fr["name"], []))
            for a in f2["precur"]:
                if a["k"] == "go":
                    a["far"] = "%s.%s" % (fdef["name"], a["far"])
                    for n in a["needs"]:
                        if n["k"] == "auxdone":
                            n["frame"] = "%s.%s" % (fdef["name"], n["frame"])
            prog["frames"][key] = f2
            keys.append(key)
        prog["framers"][fdef["name"]] = {"sched": sched, "period": 0, "first": "%s.%s" % (fdef["name"], fdef["first"]), "frames": keys}

    for h in case["hosts"]:
        add(h, h["sched"])
        if h.get("origs"):
            add(h["origs"]["framer"], "aux")
    for t in case["templates"].values():
        add(t, "moot")
    return prog


# ---- spec view -----------------------------------------------------------------------------------------------------
def spec_prog(case, auxnames):
    """auxnames: {(framer name, frame name): [real clone names in declaration order]} read from the built house"""
    prog = {"tick": case["tick"], "order": [h["name"] for h in case["hosts"]], "framers": {}, "frames": {},
            "shares": {"in.a": 0, "in.b": 0}, "inputs": ["in.a", "in.b"]}

    def instantiate(fdef, name, sched, main_framer, main_frame):
        keys = []
        for fr in fdef["frames"]:
            key = "%s.%s" % (name, fr["name"])
            f2 = copy.deepcopy(fr)
            f2["framer"] = name
            f2["over"] = "%s.%s" % (name, fr["over"]) if fr["over"] else ""
            f2["under"] = "%s.%s" % (name, fr["under"]) if fr["under"] else ""
            fn = lambda ref, fr=fr: _reg(resolve(ref, name, fr["name"], main_framer, main_frame))
            for ctx in ("benter", "enter", "renter", "precur", "recur", "exit", "rexit"):
                f2[ctx] = _map_shares(f2[ctx], fn)
            for a in f2["precur"]:
                if a["k"] == "go":
                    a["far"] = "%s.%s" % (name, a["far"])
                    for n in a["needs"]:
                        if n["k"] == "auxdone":
                            n["frame"] = "%s.%s" % (name, n["frame"])
            decl = fdef["clones"].get(fr["name"], [])
            shared = list(fdef.get("origs", {}).get("frames", {}).get(fr["name"], [])) if sched != "aux" or True else []
            real = auxnames.get((name, fr["name"]), [])
            if real[len(decl):] != shared:
                raise ValueError("frame %s.%s: original auxiliaries %r built as %r" % (name, fr["name"], shared, real))
            real = real[:len(decl)]
            if len(real) != len(decl):
                raise ValueError("frame %s.%s: %d clones declared, %d auxiliaries built (%r)" % (name, fr["name"], len(decl), len(real), real))
            f2["auxes"] = list(real) + shared
            prog["frames"][key] = f2
            keys.append(key)
            for (orig, tag), cname in zip(decl, real):
                instantiate(case["templates"][orig], cname, "aux", name, fr["name"])
        prog["framers"][name] = {"sched": sched, "period": 0, "first": "%s.%s" % (name, fdef["first"]), "frames": keys}

    def _reg(s):
        prog["shares"].setdefault(s, 0)
        return s

    for h in case["hosts"]:
        instantiate(h, h["name"], h["sched"], h["name"], "")
        if h.get("origs"):
            instantiate(h["origs"]["framer"], h["origs"]["framer"]["name"], "aux", h["name"], "")
    return prog


def expected_name(host_framer, tag):
    """documented name of a named clone: <surname>_<tag> where the surname of a framer is its own name"""
    return "%s_%s" % (host_framer, tag)


def generate(seed, n):
    rng = random.Random(seed)
    return [CloneGen(rng).case() for _ in range(n)]
