"""Seeded generator of well-formed Flo programs (the JSON value of specs/flo/Flo.tla) and environment schedules.

A `profile` switches feature families on and off so that each property's check can concentrate its programs:
  forest      nested frames / several children / primary-under overrides
  aux         plain auxiliaries      condaux   conditional auxiliaries     done   done verbs and done-needs
  bids        start/stop/abort/run/ready bids incl. period changes         guards benter conditions (let)
  clocks      elapsed / recurred conditions (timeout, repeat)              inputs conditions on input shares
  raises      crash injection (an action raising an exception / keyboard interrupt)
  periods     non-zero framer periods (multiples / non-multiples of the tick)
  slaves      slave framers driven by ready/start/run/stop/abort fiats (first-frame guards on inputs)
  needs       general comparison conditions (C21): tolerance, share-valued goals, string / boolean shares, truthiness,
              conditions on the framer clocks with tolerance, conjunctions of up to three, sometimes numbers in halves
  marks       `is updated` / `is changed` conditions on transitions (C20), with `in frame` / `by` forms
  watch       (shape) a program concentrated on marks: watcher framers, a writer framer before / after them in house
              order writing same / different values at various ticks by put / inc / a second field, inputs written by
              the environment
"""
import random

from .emit import EXTRA

ALL = ("forest", "aux", "condaux", "done", "bids", "guards", "clocks", "inputs", "periods", "slaves", "needs", "marks")


def frame(framer, name, over="", under=""):
    return {"framer": framer, "name": name, "over": over, "under": under, "auxes": [], "benter": [], "enter": [],
            "renter": [], "precur": [], "recur": [], "exit": [], "rexit": []}


def rec(tag):
    return {"k": "rec", "tag": tag}


def need(k, neg=False, **kw):
    d = {"k": k, "neg": neg}
    d.update(kw)
    return d


OPS = ("==", "!=", "<", "<=", ">=", ">")


def kind_of(v):
    return "b" if isinstance(v, bool) else "s" if isinstance(v, str) else "n"


def normalize(prog):
    """defaults for fields added after a program was recorded (replay of older evidence)"""
    prog.setdefault("envvals", {s: [0, 1] for s in prog.get("inputs", ())})
    return prog


class Gen:
    def __init__(self, rng, profile=ALL, size=None):
        self.r = rng
        self.p = set(profile)
        self.size = size or {}
        self.ntag = 0
        self.markkinds = {}

    def has(self, f):
        return f in self.p

    def tag(self, base):
        self.ntag += 1
        return "%s%d" % (base, self.ntag)

    # ---- structure -------------------------------------------------------------------------------------------
    def make_framer(self, prog, name, sched, nframes, period=0):
        r = self.r
        keys = []
        for i in range(nframes):
            key = "%s.%s%d" % (name, name[0], i)
            fr = frame(name, "%s%d" % (name, i))
            # forest: attach to an earlier frame or stay a root
            if self.has("forest") and i > 0 and r.random() < 0.65:
                fr["over"] = r.choice(keys)
            prog["frames"][key] = fr
            keys.append(key)
        # primary unders: first declared child, sometimes overridden
        for key in keys:
            kids = [c for c in keys if prog["frames"][c]["over"] == key]
            if kids:
                prog["frames"][key]["under"] = r.choice(kids) if (self.has("forest") and r.random() < 0.3) else kids[0]
        first = r.choice(keys) if r.random() < 0.5 else keys[0]
        prog["framers"][name] = {"sched": sched, "period": period, "first": first, "frames": keys}
        return keys

    def recorders(self, prog, keys, density=0.8):
        r = self.r
        for key in keys:
            fr = prog["frames"][key]
            for ctx in ("enter", "exit", "recur"):
                if r.random() < density:
                    fr[ctx].append(rec(self.tag(ctx[0] + fr["name"] + "_")))
            for ctx in ("renter", "rexit"):
                if r.random() < density * 0.6:
                    fr[ctx].append(rec(self.tag(ctx[:2] + fr["name"] + "_")))

    def nums(self, prog, inputs=False):
        """numeric shares (all shares of the programs made without the `needs` flag)"""
        return [s for s in (prog["inputs"] if inputs else prog["shares"]) if kind_of(prog["shares"][s]) == "n"]

    def check_need(self, prog, neg):
        """state <op> goal [+- tol] in its general form (C21)"""
        r = self.r
        scale = prog.get("scale", 1)
        c = r.random()
        if c < 0.2 and self.has("clocks"):
            if r.random() < 0.5:
                return need("check", neg, src="elapsed", share="", st="n", op=r.choice(OPS), gk="lit", gt="n",
                            goal=r.randint(0, 3) * prog["tick"] + r.choice((0, 0, 1)), tol=r.choice((0, 0, 1, prog["tick"], -1)))
            if r.random() < 0.3:
                return need("check", neg, src="recurred", share="", st="n", op=r.choice(OPS), gk="share", gt="n",
                            goal=r.choice(self.nums(prog)), tol=r.choice((0, 0, scale)))
            return need("check", neg, src="recurred", share="", st="n", op=r.choice(OPS), gk="lit", gt="n",
                        goal=r.randint(0, 3 * scale), tol=r.choice((0, 0, 1, scale)), fl=r.random() < 0.3)
        s = r.choice(list(prog["shares"]))
        st = kind_of(prog["shares"][s])
        same = [x for x in prog["shares"] if x != s and kind_of(prog["shares"][x]) == st]
        if st == "n":
            if r.random() < 0.1:    # a number is never equal to a string
                return need("check", neg, src="share", share=s, st="n", op=r.choice(("==", "!=")), gk="lit", gt="s",
                            goal=r.choice(("a", "b")), tol=r.choice((0, 0, 1)))
            if same and r.random() < 0.35:
                return need("check", neg, src="share", share=s, st="n", op=r.choice(OPS), gk="share", gt="n",
                            goal=r.choice(same), tol=r.choice((0, 0, 1, 2, -1)))
            return need("check", neg, src="share", share=s, st="n", op=r.choice(OPS), gk="lit", gt="n",
                        goal=r.randint(-2, 3), tol=r.choice((0, 0, 0, 1, 2, -1)), fl=r.random() < 0.3)
        if st == "s":
            if same and r.random() < 0.35:
                return need("check", neg, src="share", share=s, st="s", op=r.choice(OPS), gk="share", gt="s",
                            goal=r.choice(same), tol=0)
            return need("check", neg, src="share", share=s, st="s", op=r.choice(OPS), gk="lit", gt="s",
                        goal=r.choice(("a", "b", "ab")), tol=r.choice((0, 0, 0, 1)))
        return need("check", neg, src="share", share=s, st="b", op=r.choice(("==", "!=")), gk="lit", gt="b",
                    goal=r.random() < 0.5, tol=0)

    def mark_need(self, prog, neg, key, keys):
        """share is updated|changed [in frame F] [by marker] on a transition of frame `key` (C20)"""
        r = self.r
        kind = r.choice(("updated", "updated", "changed"))
        share = r.choice(self.nums(prog))
        if kind == "changed" and r.random() < 0.4:
            share = "out.m"      # the share with named fields: a field may be added after the snapshot
        c = r.random()
        frame, form = "", "name"
        if c < 0.35:
            frame, form = key, r.choice(("name", "me", "bare"))
        elif c < 0.55:
            frame = r.choice(keys)
        by = ""
        if r.random() < 0.35:
            by = r.choice(("u0", "u1") if kind == "updated" else ("c0", "c1"))
        # one mark (share, framer, name) is used by conditions of one kind only
        fr = prog["frames"][key]
        name = by or prog["frames"][frame or key]["name"]
        kind = self.markkinds.setdefault((share, fr["framer"], name), kind)
        if by and by[0] != kind[0]:
            by = ""
            name = prog["frames"][frame or key]["name"]
            kind = self.markkinds.setdefault((share, fr["framer"], name), kind)
        return need(kind, neg, share=share, frame=frame, by=by, form=form)

    def mark_cluster(self, prog, key, keys):
        """two or three conditions of ONE kind on ONE share naming ONE frame (`in frame X`) under DIFFERENT marks
        (the frame's default mark, `by m`, `by n`): every one of these marks is set on entry to X"""
        r = self.r
        fr = prog["frames"][key]
        share = r.choice(self.nums(prog))
        frame = key if r.random() < 0.6 else r.choice(keys)
        fname = prog["frames"][frame]["name"]
        kind = self.markkinds.setdefault((share, fr["framer"], fname), r.choice(("updated", "changed")))
        bys = ["", "u0", "u1"] if kind == "updated" else ["", "c0", "c1"]
        bys = [b for b in bys if self.markkinds.setdefault((share, fr["framer"], b or fname), kind) == kind]
        if r.random() < 0.5 and len(bys) > 2:
            bys.remove(r.choice(bys))
        r.shuffle(bys)
        return [need(kind, r.random() < 0.1, share=share, frame=frame, by=b,
                     form=r.choice(("name", "me", "bare")) if frame == key else "name") for b in bys]

    def some_need(self, prog, framer, auxes=(), go=None):
        r = self.r
        kinds = []
        if self.has("inputs"):
            kinds += ["cmp", "cmp", "bool"]
        if self.has("clocks"):
            kinds += ["elapsed", "recurred"]
        if self.has("done") and auxes:
            kinds += ["done"]
        if self.has("needs"):
            kinds += ["check", "check", "check", "truthy"]
        if self.has("marks") and go:
            kinds += ["updated"] * (6 if self.has("watch") else 2)
        if not kinds:
            kinds = ["always"]
        k = r.choice(kinds)
        neg = r.random() < 0.2
        if k == "check":
            return self.check_need(prog, neg)
        if k == "truthy":
            s = r.choice(list(prog["shares"]))
            return need("truthy", neg, share=s, st=kind_of(prog["shares"][s]))
        if k == "updated":
            return self.mark_need(prog, neg, go[0], go[1])
        if k == "cmp":
            s = r.choice(self.nums(prog))
            return need("cmp", neg, share=s, op=r.choice(OPS), goal=r.randint(0, 2))
        if k == "bool":
            return need("bool", neg, share=r.choice(self.nums(prog, True)))
        if k == "elapsed":
            return need("elapsed", neg, op=r.choice((">=", ">=", ">", "==")), goal=r.randint(0, 3) * prog["tick"] + r.choice((0, 0, 1)))
        if k == "recurred":
            return need("recurred", neg, op=r.choice((">=", ">=", ">", "==")), goal=r.randint(0, 3))
        if k == "done":
            return need("done", neg, who=r.choice(list(auxes)))
        return need("always", False)

    def needs(self, prog, framer, auxes=(), maxn=2, go=None):
        if self.has("needs") and maxn > 1:
            maxn = 3
        return [self.some_need(prog, framer, auxes, go) for _ in range(self.r.randint(1, maxn))]

    def behaviour(self, prog, name, keys, auxnames=(), condaux=(), others=()):
        """transitions, guards, store acts, bids inside one framer"""
        r = self.r
        for key in keys:
            fr = prog["frames"][key]
            # store acts
            if r.random() < 0.5:
                fr["enter"].append({"k": "put", "share": r.choice(self.outs), "val": r.randint(0, 2)})
            if r.random() < 0.4:
                fr["recur"].append({"k": "inc", "share": r.choice(self.outs), "by": 1})
            if r.random() < 0.15:
                fr["exit"].append({"k": "copy", "src": r.choice(self.nums(prog)), "dst": r.choice(self.outs)})
            if self.has("needs") and r.random() < 0.3:
                fr[r.choice(("enter", "recur"))].append({"k": "put", "share": "out.s", "val": r.choice(("a", "b", "ab"))})
            if self.has("marks") and r.random() < 0.2:
                fr["enter"].append({"k": "putf", "share": "out.m", "field": EXTRA, "val": r.randint(0, 1)})
            # guards
            if self.has("guards") and r.random() < 0.3:
                fr["benter"] = self.needs(prog, name, (), 1)
            # a precur-context ordinary act
            if r.random() < 0.15:
                fr["precur"].append(rec(self.tag("p" + fr["name"] + "_")))
            # conditional auxiliaries come before / between transitions
            if condaux and r.random() < 0.5:
                fr["precur"].append({"k": "auxif", "aux": r.choice(list(condaux)), "needs": self.needs(prog, name, (), 1)})
            # transitions
            for _ in range(r.choice((0, 1, 1, 2))):
                far = r.choice(keys)
                fr["precur"].append({"k": "go", "far": far, "needs": self.needs(prog, name, auxnames, go=(key, keys)), "transit": []})
            if condaux and r.random() < 0.2:
                fr["precur"].append({"k": "auxif", "aux": r.choice(list(condaux)), "needs": self.needs(prog, name, (), 1)})
            # several marks of one share set on entry to one frame (one transition per condition)
            if self.has("marks") and r.random() < 0.12:
                for n in self.mark_cluster(prog, key, keys):
                    fr["precur"].append({"k": "go", "far": r.choice(keys), "needs": [n], "transit": []})
            # timeout / repeat: implicit transitions to the lexically next frame
            nxt = keys.index(key) + 1
            if self.has("clocks") and nxt < len(keys) and r.random() < 0.35:
                if r.random() < 0.5:
                    n = need("elapsed", False, op=">=", goal=r.randint(0, 4) * prog["tick"] + r.choice((0, 0, 1)))
                    fr["precur"].append({"k": "go", "far": keys[nxt], "needs": [n], "transit": [], "sugar": "timeout"})
                else:
                    n = need("recurred", False, op=">=", goal=r.randint(0, 4))
                    fr["precur"].append({"k": "go", "far": keys[nxt], "needs": [n], "transit": [], "sugar": "repeat"})
            # bids
            if self.has("bids") and others and r.random() < 0.3:
                ctl = r.choice(("stop", "start", "start", "abort", "run", "ready"))
                who = r.choice((["me"], ["all"], [r.choice(list(others))], [r.choice(list(others))]))
                period = -1
                if ctl in ("start", "run", "ready") and self.has("periods") and r.random() < 0.5:
                    period = r.randint(0, 3)
                ctx = r.choice(("enter", "enter", "recur", "exit"))
                fr[ctx].append({"k": "bid", "ctl": ctl, "who": who, "period": period})

    def program(self):
        r = self.r
        prog = {"tick": r.choice((1, 2, 2, 3)), "order": [], "framers": {}, "frames": {},
                "shares": {"in.a": 0, "in.b": 0, "out.x": 0, "out.y": 0}, "inputs": ["in.a", "in.b"],
                "envvals": {"in.a": [0, 1], "in.b": [0, 1]}}
        self.outs = ["out.x", "out.y"]
        if self.has("needs"):
            prog["shares"].update({"in.s": "a", "in.t": True, "out.s": "a"})
            prog["inputs"] += ["in.s", "in.t"]
            prog["envvals"].update({"in.a": [-1, 0, 1], "in.s": ["a", "b"], "in.t": [True, False]})
            if r.random() < 0.3:
                prog["scale"] = 2      # numbers in halves
        if self.has("marks"):
            prog["shares"]["out.m"] = 0       # a share with named fields: data in field `pos`, a second field `sub` may be added
            prog["fielded"] = ["out.m"]
            self.outs.append("out.m")
        if self.has("watch"):
            return self.watch_program(prog)
        nmain = self.size.get("framers", r.randint(1, 3))
        mains = ["m%d" % i for i in range(nmain)]
        naux = r.randint(1, 2) if self.has("aux") else 0
        ncond = r.randint(1, 2) if self.has("condaux") else 0
        auxn = ["a%d" % i for i in range(naux)]
        condn = ["c%d" % i for i in range(ncond)]
        scheds = {}
        for i, m in enumerate(mains):
            scheds[m] = "active" if (i == 0 or r.random() < 0.6) else "inactive"
        prog["order"] = list(mains)
        r.shuffle(prog["order"])
        allkeys = {}
        for m in prog["order"]:
            period = r.choice((0, 0, 1, 2, 3, 4)) if self.has("periods") else 0
            allkeys[m] = self.make_framer(prog, m, scheds[m], self.size.get("frames", r.randint(2, 4)), period)
        for a in auxn + condn:
            allkeys[a] = self.make_framer(prog, a, "aux", r.randint(1, 3))
        slaven = ["s%d" % i for i in range(r.randint(1, 2))] if self.has("slaves") else []
        for s in slaven:
            allkeys[s] = self.make_framer(prog, s, "slave", r.randint(1, 3))
            self.recorders(prog, allkeys[s], 0.9)
            self.behaviour(prog, s, allkeys[s], (), (), ())
            if r.random() < 0.6:   # a first-frame condition so that starts can fail
                prog["frames"][prog["framers"][s]["first"]]["benter"] = [need("cmp", r.random() < 0.3, share=r.choice(self.nums(prog, True)), op="==", goal=1)]
            if r.random() < 0.4:
                prog["frames"][r.choice(allkeys[s])][r.choice(("enter", "recur"))].append({"k": "done", "who": "me"})
        self.slaven = slaven
        # attach plain auxiliaries to frames of main framers (an original may appear under two frames)
        for a in auxn:
            hosts = r.sample([k for m in mains for k in allkeys[m]], k=r.choice((1, 1, 2)))
            for h in hosts:
                if a not in prog["frames"][h]["auxes"]:
                    prog["frames"][h]["auxes"].append(a)
        for m in mains:
            self.recorders(prog, allkeys[m])
            hosted = sorted({a for k in allkeys[m] for a in prog["frames"][k]["auxes"]})
            self.behaviour(prog, m, allkeys[m], hosted + condn if self.has("done") else (), condn,
                           [x for x in mains if x != m])
            for s in slaven:
                for _ in range(r.randint(1, 3)):
                    k = r.choice(allkeys[m])
                    ctl = r.choice(("ready", "start", "start", "run", "run", "stop", "abort"))
                    prog["frames"][k][r.choice(("enter", "recur", "recur", "exit"))].append({"k": "fiat", "ctl": ctl, "who": s})
        for a in auxn + condn:
            self.recorders(prog, allkeys[a], 0.9)
            self.behaviour(prog, a, allkeys[a], (), (), ())
            # auxiliaries complete through `done me` somewhere (sometimes never, sometimes at once)
            c = r.random()
            if self.has("done") or a in condn:
                if c < 0.25:
                    prog["frames"][prog["framers"][a]["first"]]["enter"].append({"k": "done", "who": "me"})
                elif c < 0.85:
                    k = r.choice(allkeys[a])
                    prog["frames"][k][r.choice(("enter", "recur"))].append({"k": "done", "who": "me"})
        return prog

    def envs(self, prog, ticks):
        """{tick: [(share, value)]} environment writes applied at the boundary before that tick"""
        r = self.r
        out = {}
        if not self.has("inputs"):
            return out
        for n in range(1, ticks):
            if r.random() < (0.6 if self.has("watch") else 0.45):
                s = r.choice(prog["inputs"])
                out[n] = [(s, r.choice(prog["envvals"][s]))]
                if r.random() < 0.2:
                    s = r.choice(prog["inputs"])
                    out[n].append((s, r.choice(prog["envvals"][s])))
            if self.has("marks") and r.random() < 0.15:
                # another field of the share with named fields is written from outside (added on the first write)
                out.setdefault(n, []).append(("out.m", r.randint(0, 1), EXTRA))
        return out

    def watch_program(self, prog):
        """watcher framers whose transitions are guarded by marker conditions + a writer framer (C20)"""
        r = self.r
        nw = r.choice((1, 1, 2))
        watchers = ["w%d" % i for i in range(nw)]
        order = list(watchers)
        order.insert(r.randint(0, len(order)), "p0")     # the writer runs before / between / after the watchers
        prog["order"] = order
        allkeys = {}
        for f in order:
            if f == "p0":
                keys = allkeys[f] = self.make_framer(prog, f, "active", r.randint(2, 4))
                prog["framers"][f]["first"] = keys[0]
                for i, key in enumerate(keys):
                    fr = prog["frames"][key]
                    fr["over"], fr["under"] = "", ""
                for i, key in enumerate(keys):
                    fr = prog["frames"][key]
                    # writes of the same / different values, of a second field, increments; on entry or every tick
                    for _ in range(r.choice((0, 1, 1, 2))):
                        w = r.random()
                        sh = r.choice(self.outs)
                        ctx = r.choice(("enter", "enter", "enter", "recur", "exit"))
                        if w < 0.45:
                            fr[ctx].append({"k": "put", "share": sh, "val": r.randint(0, 1)})
                        elif w < 0.7:
                            fr[ctx].append({"k": "putf", "share": "out.m", "field": EXTRA, "val": r.randint(0, 1)})
                        elif w < 0.85:
                            fr[ctx].append({"k": "inc", "share": sh, "by": r.choice((0, 1))})
                        else:
                            fr[ctx].append({"k": "copy", "src": r.choice(self.nums(prog)), "dst": sh})
                    # move on at once / after some ticks / when an input says so / stay
                    nxt = keys[(i + 1) % len(keys)]
                    c = r.random()
                    if c < 0.3:
                        fr["precur"].append({"k": "go", "far": nxt, "needs": [], "transit": []})
                    elif c < 0.6:
                        n = need("recurred", False, op=">=", goal=r.randint(1, 3))
                        fr["precur"].append({"k": "go", "far": nxt, "needs": [n], "transit": []})
                    elif c < 0.85:
                        n = need("cmp", r.random() < 0.3, share=r.choice(prog["inputs"][:2]), op="==", goal=1)
                        fr["precur"].append({"k": "go", "far": nxt, "needs": [n], "transit": []})
                continue
            keys = allkeys[f] = self.make_framer(prog, f, "active", r.randint(2, 3))
            self.recorders(prog, keys, 0.7)
            for key in keys:
                fr = prog["frames"][key]
                for _ in range(r.choice((1, 1, 2))):
                    ns = [self.mark_need(prog, r.random() < 0.15, key, keys)]
                    c = r.random()
                    if c < 0.2:
                        ns.append(self.mark_need(prog, r.random() < 0.15, key, keys))
                    elif c < 0.35:
                        ns.insert(r.randint(0, 1), need("cmp", False, share=r.choice(prog["inputs"][:2]), op=r.choice(("==", "!=")), goal=r.randint(0, 1)))
                    fr["precur"].append({"k": "go", "far": r.choice(keys), "needs": ns, "transit": []})
                # several marks of one share set on entry to one frame: one transition per condition
                if r.random() < 0.35:
                    for n in self.mark_cluster(prog, key, keys):
                        fr["precur"].insert(r.randint(0, len(fr["precur"])), {"k": "go", "far": r.choice(keys), "needs": [n], "transit": []})
                # the watcher itself writes a watched share on entry (after the entry mark) / every tick
                if r.random() < 0.25:
                    fr[r.choice(("enter", "enter", "recur", "exit"))].append({"k": "put", "share": r.choice(self.outs), "val": r.randint(0, 1)})
                if self.has("guards") and r.random() < 0.2:
                    fr["benter"] = [need("cmp", False, share=r.choice(prog["inputs"][:2]), op="==", goal=r.randint(0, 1))]
        return prog


def generate(seed, n, profile=ALL, size=None):
    rng = random.Random(seed)
    out = []
    for _ in range(n):
        g = Gen(rng, profile, size)
        prog = g.program()
        ticks = rng.randint(4, 9)
        out.append((prog, g.envs(prog, ticks), ticks))
    return out
