"""Print a Flo `prog` (the JSON value shared with specs/flo/Flo.tla) as FloScript text.

prog = {
  "tick": int quanta, "order": [taskable framer names in house order],
  "framers": {name: {"sched": active|inactive|aux|slave, "period": int quanta, "first": frame key, "frames": [keys in
                      declaration order]}},
  "frames": {key: {"framer", "name", "over": key|"", "under": key|"", "auxes": [framer names],
                   "benter": [needs], "enter"/"renter"/"precur"/"recur"/"exit"/"rexit": [acts]}},
  "shares": {share name: initial int}, "inputs": [share names written by the environment]}
acts:  {"k":"rec","tag"} {"k":"put","share","val"} {"k":"inc","share","by"} {"k":"copy","src","dst"}
       {"k":"bid","ctl","who":[names]|["me"]|["all"],"period":-1|q} {"k":"done","who":"me"|name}
       {"k":"fiat","ctl","who"} {"k":"raise","what":"error"|"interrupt"}
       precur only: {"k":"go","far":key,"needs":[..],"transit":[]} {"k":"auxif","aux":name,"needs":[..]}
needs: {"k":"always"|"cmp"|"cmpshare"|"bool"|"elapsed"|"recurred"|"done"|"status"|"auxdone", "neg":bool, ...}
Time is in integer quanta; QUANTUM maps it to seconds (binary-exact by default).
"""
from fractions import Fraction

QUANTUM = Fraction(1, 16)


def num(q, quantum=None):
    """quanta -> literal text of seconds"""
    x = Fraction(q) * (quantum or QUANTUM)
    if x.denominator == 1:
        return "%d.0" % x.numerator
    return repr(float(x))


def need_text(prog, n, quantum=None):
    k = n["k"]
    neg = "not " if n.get("neg") else ""
    if k == "always":
        return neg + "elapsed >= 0.0"
    if k == "cmp":
        return "%s%s %s %d" % (neg, n["share"], n["op"], n["goal"])
    if k == "cmpshare":
        return "%s%s %s %s" % (neg, n["share"], n["op"], n["goal"])
    if k == "bool":
        return "%s%s" % (neg, n["share"])
    if k == "elapsed":
        return "%selapsed %s %s" % (neg, n["op"], num(n["goal"], quantum))
    if k == "recurred":
        return "%srecurred %s %d" % (neg, n["op"], n["goal"])
    if k == "done":
        return "%s%s is done" % (neg, n["who"])
    if k == "status":
        return "%s%s is %s" % (neg, n["who"], n["is"])
    if k == "auxdone":
        fr = prog["frames"][n["frame"]]
        who = n["mode"] if n["mode"] in ("any", "all") else "aux " + n["mode"]
        return "%s%s in frame %s in framer %s is done" % (neg, who, fr["name"], fr["framer"])
    raise ValueError(k)


def needs_text(prog, ns, quantum=None):
    return " and ".join(need_text(prog, n, quantum) for n in ns)


def act_lines(prog, a, ctx, quantum=None):
    k = a["k"]
    if k == "rec":
        return ["do vfrec at %s with tag \"%s\"" % (ctx, a["tag"])]
    if k == "put":
        return ["put %d into %s" % (a["val"], a["share"])]
    if k == "inc":
        return ["inc %s with %d" % (a["share"], a["by"])]
    if k == "copy":
        return ["copy %s into %s" % (a["src"], a["dst"])]
    if k == "bid":
        s = "bid %s %s" % (a["ctl"], " ".join(a["who"]))
        if a.get("period", -1) >= 0:
            s += " at %s" % num(a["period"], quantum)
        return [s]
    if k == "done":
        return ["done %s" % a["who"]]
    if k == "fiat":
        return ["%s %s" % (a["ctl"], a["who"])]
    if k == "raise":
        return ["do vfraise at %s with what \"%s\"" % (ctx, a["what"])]
    raise ValueError(k)


CONTEXTS = ("enter", "renter", "recur", "exit", "rexit")


def emit(prog, quantum=None, house="h1"):
    out = ["house %s" % house, ""]
    for s, v in prog["shares"].items():
        out.append("  init %s with %d" % (s, v))
    out.append("")
    # declaration order: taskables in house order first, then aux / slave framers
    names = list(prog["order"]) + [f for f in prog["framers"] if f not in prog["order"]]
    if any(fr["sched"] == "slave" for fr in prog["framers"].values()) and len(names) % 2:
        # declaration order is free: sometimes slaves / auxiliaries are declared before the framers that use them
        names = [f for f in prog["framers"] if f not in prog["order"]] + list(prog["order"])
    for f in names:
        fr = prog["framers"][f]
        first = prog["frames"][fr["first"]]["name"]
        out.append("  framer %s be %s at %s first %s" % (f, fr["sched"], num(fr["period"], quantum), first))
        declared = []
        for key in fr["frames"]:
            k = prog["frames"][key]
            line = "    frame %s" % k["name"]
            if k["over"]:
                line += " in %s" % prog["frames"][k["over"]]["name"]
            out.append(line)
            declared.append(key)
            body = []
            kids = [c for c in fr["frames"] if prog["frames"][c]["over"] == key]
            if k["under"] and kids and kids[0] != k["under"]:
                body.append("under %s" % prog["frames"][k["under"]]["name"])   # primary child override
            if k["benter"]:
                body.append("let me if " + needs_text(prog, k["benter"], quantum))
            for a in k["auxes"]:
                body.append("aux %s" % a)
            for ctx in CONTEXTS:
                if k[ctx]:
                    body.append(ctx)
                    for a in k[ctx]:
                        body.extend(act_lines(prog, a, ctx, quantum))
                    body.append("native")
            for a in k["precur"]:
                if a["k"] == "go" and a.get("sugar") == "timeout":
                    body.append("timeout %s" % num(a["needs"][0]["goal"], quantum))   # go next if elapsed >= T
                elif a["k"] == "go" and a.get("sugar") == "repeat":
                    body.append("repeat %d" % a["needs"][0]["goal"])                  # go next if recurred >= N
                elif a["k"] == "go":
                    far = prog["frames"][a["far"]]["name"]
                    body.append("go %s%s" % (far, (" if " + needs_text(prog, a["needs"], quantum)) if a["needs"] else ""))
                elif a["k"] == "auxif":
                    body.append("aux %s if %s" % (a["aux"], needs_text(prog, a["needs"], quantum)))
                else:
                    body.append("precur")
                    body.extend(act_lines(prog, a, "precur", quantum))
                    body.append("native")
            out.extend("      " + b for b in body)
        out.append("")
    return "\n".join(out) + "\n"
