"""Print a Flo `prog` (the JSON value shared with specs/flo/Flo.tla) as FloScript text.

prog = {
  "tick": int quanta, "order": [taskable framer names in house order],
  "framers": {name: {"sched": active|inactive|aux|slave, "period": int quanta, "first": frame key, "frames": [keys in
                      declaration order]}},
  "frames": {key: {"framer", "name", "over": key|"", "under": key|"", "auxes": [framer names],
                   "benter": [needs], "enter"/"renter"/"precur"/"recur"/"exit"/"rexit": [acts]}},
  "shares": {share name: initial value}, "inputs": [share names written by the environment],
  "envvals": {input share: [values the environment may write]},
  optional "scale": s (numbers in shares / put / inc / cmp / check literals are ints in units of 1/s; default 1),
  optional "qpu": quanta per store unit (only for `elapsed <op> share` conditions),
  optional "uninit": [shares the script does not init (empty until a need / the environment creates a field)],
  optional "fielded": [shares whose data is the field `pos` (instead of `value`) and that may get a second field `sub`
  (field names that are not hexadecimal numerals: a bare `fa` as a goal is the number 250)]}
share values: int (in units of 1/scale), str, bool - a share keeps the kind of its initial value
acts:  {"k":"rec","tag"} {"k":"put","share","val"} {"k":"inc","share","by"} {"k":"copy","src","dst"}
       {"k":"putf","share","field","val"}   put val into <field> in share (a second field of the share)
       {"k":"bid","ctl","who":[names]|["me"]|["all"],"period":-1|q} {"k":"done","who":"me"|name}
       {"k":"fiat","ctl","who"} {"k":"raise","what":"error"|"interrupt"}
       precur only: {"k":"go","far":key,"needs":[..],"transit":[]} {"k":"auxif","aux":name,"needs":[..]}
needs: {"k":"always"|"cmp"|"cmpshare"|"bool"|"elapsed"|"recurred"|"done"|"status"|"auxdone", "neg":bool, ...}
       {"k":"check","neg","src":"share"|"elapsed"|"recurred","share":name|"","st":"n"|"s"|"b","op",
        "gk":"lit"|"share","goal":literal|share name,"gt":"n"|"s"|"b","tol":int, optional "fl":bool (whole numbers
        printed as floats)}      state <op> goal [+- tol]; numeric literals in units of 1/scale (elapsed: quanta)
       {"k":"truthy","neg","share","st"}                    bare `if share`
       {"k":"updated"|"changed","neg","share","frame":key|"","by":marker|"","form":"name"|"me"|"bare"}
        (transitions only)       share is updated|changed [in frame F] [by marker]
Time is in integer quanta; QUANTUM maps it to seconds (binary-exact by default).
"""
from fractions import Fraction

QUANTUM = Fraction(1, 16)
MAIN, EXTRA = "pos", "sub"     # field names of the shares listed in prog["fielded"]


def num(q, quantum=None):
    """quanta -> literal text of seconds"""
    x = Fraction(q) * (quantum or QUANTUM)
    if x.denominator == 1:
        return "%d.0" % x.numerator
    return repr(float(x))


def numtext(v, scale=1, fl=False):
    """int in units of 1/scale -> literal text (whole numbers as ints unless fl)"""
    x = Fraction(v, scale)
    if x.denominator == 1 and not fl:
        return "%d" % x.numerator
    return repr(float(x))


def valtext(v, scale=1, fl=False):
    if isinstance(v, bool):
        return "True" if v else "False"
    if isinstance(v, str):
        return '"%s"' % v
    return numtext(v, scale, fl)


def ref(prog, s):
    """how acts and comparison conditions refer to the data of share s"""
    return MAIN + " in " + s if s in prog.get("fielded", ()) else s


def need_text(prog, n, quantum=None):
    k = n["k"]
    neg = "not " if n.get("neg") else ""
    scale = prog.get("scale", 1)
    if k == "check":
        clock = n["src"] != "share"
        state = ref(prog, n["share"]) if not clock else n["src"]

        def lit(v):
            if n["src"] == "elapsed":
                return num(v, quantum)
            return valtext(v, scale, n.get("fl", False))
        goal = ref(prog, n["goal"]) if n["gk"] == "share" else lit(n["goal"])
        if n["gk"] == "share" and "gspell" in n:      # the goal's field as the script writes it ("" = left to the default)
            goal = (n["gspell"] + " in " if n["gspell"] else "") + n["goal"]
        s = "%s%s %s %s" % (neg, state, n["op"], goal)
        if n["tol"] != 0 or n.get("tolzero"):
            s += " +- %s" % lit(n["tol"])
        return s
    if k == "truthy":
        return "%s%s" % (neg, ref(prog, n["share"]))
    if k in ("updated", "changed"):
        s = "%s%s is %s" % (neg, n["share"], k)
        if n["frame"]:
            form = n.get("form", "name")
            s += " in frame" + ("" if form == "bare" else " me" if form == "me" else " " + prog["frames"][n["frame"]]["name"])
        if n["by"]:
            s += " by %s" % n["by"]
        return s
    if k == "always":
        return neg + "elapsed >= 0.0"
    if k == "cmp":
        return "%s%s %s %s" % (neg, ref(prog, n["share"]), n["op"], numtext(n["goal"], scale))
    if k == "cmpshare":
        return "%s%s %s %s" % (neg, ref(prog, n["share"]), n["op"], ref(prog, n["goal"]))
    if k == "bool":
        return "%s%s" % (neg, ref(prog, n["share"]))
    if k == "elapsed":
        return "%selapsed %s %s" % (neg, n["op"], num(n["goal"], quantum))
    if k == "recurred":
        return "%srecurred %s %d" % (neg, n["op"], n["goal"])
    if k == "done":
        return "%s%s is done" % (neg, n["who"])
    if k == "status":
        return "%s%s is %s" % (neg, n["who"], n["is"])
    if k == "auxdone":
        fr = prog["frames"][n["frame"]]
        who = n["mode"] if n["mode"] in ("any", "all") else "aux " + n["mode"]
        return "%s%s in frame %s in framer %s is done" % (neg, who, fr["name"], fr["framer"])
    raise ValueError(k)


def needs_text(prog, ns, quantum=None):
    return " and ".join(need_text(prog, n, quantum) for n in ns)


def act_lines(prog, a, ctx, quantum=None):
    k = a["k"]
    scale = prog.get("scale", 1)
    if k == "rec":
        return ["do vfrec at %s with tag \"%s\"" % (ctx, a["tag"])]
    if k == "put":
        return ["put %s into %s" % (valtext(a["val"], scale), ref(prog, a["share"]))]
    if k == "putf":
        return ["put %s into %s in %s" % (valtext(a["val"], scale), a["field"], a["share"])]
    if k == "inc":
        return ["inc %s with %s" % (ref(prog, a["share"]), numtext(a["by"], scale))]
    if k == "copy":
        return ["copy %s into %s" % (ref(prog, a["src"]), ref(prog, a["dst"]))]
    if k == "bid":
        s = "bid %s %s" % (a["ctl"], " ".join(a["who"]))
        if a.get("period", -1) >= 0:
            s += " at %s" % num(a["period"], quantum)
        return [s]
    if k == "done":
        return ["done %s" % a["who"]]
    if k == "fiat":
        return ["%s %s" % (a["ctl"], a["who"])]
    if k == "raise":
        return ["do vfraise at %s with what \"%s\"" % (ctx, a["what"])]
    raise ValueError(k)


CONTEXTS = ("enter", "renter", "recur", "exit", "rexit")


def emit(prog, quantum=None, house="h1"):
    out = ["house %s" % house, ""]
    for s, v in prog["shares"].items():
        if s in prog.get("uninit", ()):     # not initialised by the script: created empty when first referenced
            continue
        out.append("  init %s with %s%s" % (s, MAIN + " " if s in prog.get("fielded", ()) else "", valtext(v, prog.get("scale", 1))))
    out.append("")
    # declaration order: taskables in house order first, then aux / slave framers
    names = list(prog["order"]) + [f for f in prog["framers"] if f not in prog["order"]]
    if any(fr["sched"] == "slave" for fr in prog["framers"].values()) and len(names) % 2:
        # declaration order is free: sometimes slaves / auxiliaries are declared before the framers that use them
        names = [f for f in prog["framers"] if f not in prog["order"]] + list(prog["order"])
    for f in names:
        fr = prog["framers"][f]
        first = prog["frames"][fr["first"]]["name"]
        # fr["order"] (front|mid|back) is only ever set on framers the scheduler does not run (slave / aux): the
        # clause is legal there and must not put them on the schedule
        out.append("  framer %s be %s at %s first %s%s" % (f, fr["sched"], num(fr["period"], quantum), first,
                                                           " in %s" % fr["order"] if fr.get("order") else ""))
        declared = []
        for key in fr["frames"]:
            k = prog["frames"][key]
            line = "    frame %s" % k["name"]
            if k["over"]:
                line += " in %s" % prog["frames"][k["over"]]["name"]
            out.append(line)
            declared.append(key)
            body = []
            kids = [c for c in fr["frames"] if prog["frames"][c]["over"] == key]
            if k["under"] and kids and kids[0] != k["under"]:
                body.append("under %s" % prog["frames"][k["under"]]["name"])   # primary child override
            if k["benter"]:
                body.append("let me if " + needs_text(prog, k["benter"], quantum))
            for a in k["auxes"]:
                body.append("aux %s" % a)
            for ctx in CONTEXTS:
                if k[ctx]:
                    body.append(ctx)
                    for a in k[ctx]:
                        body.extend(act_lines(prog, a, ctx, quantum))
                    body.append("native")
            for a in k["precur"]:
                if a["k"] == "go" and a.get("sugar") == "timeout":
                    body.append("timeout %s" % num(a["needs"][0]["goal"], quantum))   # go next if elapsed >= T
                elif a["k"] == "go" and a.get("sugar") == "repeat":
                    body.append("repeat %d" % a["needs"][0]["goal"])                  # go next if recurred >= N
                elif a["k"] == "go":
                    far = prog["frames"][a["far"]]["name"]
                    body.append("go %s%s" % (far, (" if " + needs_text(prog, a["needs"], quantum)) if a["needs"] else ""))
                elif a["k"] == "auxif":
                    body.append("aux %s if %s" % (a["aux"], needs_text(prog, a["needs"], quantum)))
                else:
                    body.append("precur")
                    body.extend(act_lines(prog, a, "precur", quantum))
                    body.append("native")
            out.extend("      " + b for b in body)
        out.append("")
    return "\n".join(out) + "\n"
