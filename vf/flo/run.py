"""Build a Flo `prog` with the real Builder and run it with the real Skedder, recording the observable events.

Instrumentation is installed from outside (nothing in /repo is edited):
  * recorder / crash Doers `Vfrec`, `Vfraise` registered with doing.doify and placed by the emitted script;
  * a proxy around each tasker's runner generator logging every control sent and status yielded;
  * a wrapper around Store.changeStamp marking tick boundaries, applying the scripted environment writes,
    and delivering the scripted keyboard interrupt between ticks.
The run itself is the unmodified Skedder.run().
"""
import os
from fractions import Fraction

from .. import env
from . import emit as emitter

STATUS = {}
CONTROL = {}


class CrashError(Exception):
    pass


class _Recorder:
    def __init__(self):
        self.events = []
        self.depth = 0
        self.prog = None
        self.quantum = None
        self.house = None

    def q(self, x):
        """seconds -> quanta (exact when the quantum is binary exact; else nearest with exactness flag)"""
        f = Fraction(x) / self.quantum
        if f.denominator == 1:
            return int(f)
        r = round(f)
        if abs(f - r) < Fraction(1, 1000):
            return int(r)
        return -999999   # not on the quantum grid: the trace will be rejected with this sentinel


REC = _Recorder()
_installed = False


def _install():
    global _installed
    if _installed:
        return
    _installed = True
    env.use_repo()
    from ioflo.base import doing
    from ioflo.aid import consoling
    consoling.getConsole().reinit(verbosity=0)
    from ioflo.base import globaling as G
    # public names of the controls / statuses (the numeric codes are an implementation detail)
    CONTROL.update({G.STOP: "stop", G.START: "start", G.RUN: "run", G.ABORT: "abort", G.READY: "ready"})
    STATUS.update({G.STOPPED: "stopped", G.STARTED: "started", G.RUNNING: "running", G.ABORTED: "aborted",
                   G.READIED: "readied"})

    @doing.doify('Vfrec')
    def vfrec(self, tag="", **kw):
        a = self._act
        REC.events.append({"ev": "Rec", "framer": a.frame.framer.name, "frame": a.frame.name,
                           "ctx": _ctxname(a.context), "tag": tag})

    # fiats report whether the requested state was reached: observe the value the act returns
    from ioflo.base import fiating
    for cname in ("FiatReady", "FiatStart", "FiatRun", "FiatStop", "FiatAbort"):
        cls = getattr(fiating, cname, None)
        if cls is not None and "action" in cls.__dict__:
            def wrap(orig, ctl):
                def action(self, tasker, **kw):
                    ok = orig(self, tasker=tasker, **kw)
                    REC.events.append({"ev": "Fiat", "t": tasker.name, "ctl": ctl, "ok": bool(ok)})
                    return ok
                return action
            cls.action = wrap(cls.__dict__["action"], cname[4:].lower())

    @doing.doify('Vfraise')
    def vfraise(self, what="error", **kw):
        REC.events.append({"ev": "Raise", "what": what})
        if what == "interrupt":
            raise KeyboardInterrupt()
        raise CrashError("scripted")


def _ctxname(c):
    from ioflo.base import globaling
    n = globaling.ActionContextNames.get(c, str(c)) if hasattr(globaling, "ActionContextNames") else str(c)
    return n


class RunnerProxy:
    """stands in for tasker.runner: logs control in / status out around the real generator's send"""

    def __init__(self, tasker, gen):
        self.tasker = tasker
        self.gen = gen

    def send(self, control):
        top = REC.depth == 0
        REC.depth += 1
        try:
            status = self.gen.send(control)
        finally:
            REC.depth -= 1
        REC.events.append(_yield_event(self.tasker, control, status, top))
        return status

    def __next__(self):
        return next(self.gen)

    def close(self):
        return self.gen.close()


def _yield_event(t, control, status, top):
    ev = {"ev": "Yield", "t": t.name, "ctl": CONTROL.get(control, "abort"), "top": top,
          "status": STATUS.get(status, str(status)), "desire": CONTROL.get(t.desire, str(t.desire)),
          "done": bool(t.done), "period": REC.q(t.period)}
    store = t.store
    # public state of a framer: the framer.<name>.state.* shares
    act = store.fetch("framer.%s.state.active" % t.name)
    hum = store.fetch("framer.%s.state.human" % t.name)
    ela = store.fetch("framer.%s.state.elapsed" % t.name)
    rec = store.fetch("framer.%s.state.recurred" % t.name)
    active = getattr(t, "active", None)
    ev["active"] = active.name if active is not None else ""
    ev["actives"] = [f.name for f in getattr(t, "actives", [])]
    ev["elapsed"] = REC.q(ela.value) if ela is not None and ela.value is not None else 0
    ev["recurred"] = int(rec.value) if rec is not None and rec.value is not None else 0
    ev["share_active"] = act.value if act is not None and act.value is not None else ""
    ev["share_human"] = hum.value if hum is not None and hum.value is not None else ""
    return ev


def _unreal(x, scale):
    """share value -> program units (exact or a sentinel that no specification value equals)"""
    if isinstance(x, (bool, str)):
        return x
    try:
        f = Fraction(x) * scale
    except (TypeError, ValueError):
        return "<%s>" % type(x).__name__
    return int(f) if f.denominator == 1 else "<off-grid %r>" % (x,)


def _snapshot(store, prog, scale, fielded):
    snap = {}
    for s in prog.get("shares", {}):
        sh = store.fetch(s)
        if sh is None:
            continue
        try:
            v = sh[emitter.MAIN] if s in fielded else sh.value
        except Exception:
            continue
        if v is None:
            continue       # never written yet: the specification's initial value is not observable
        snap[s] = _unreal(v, scale)
    return snap


def _real(v, scale):
    """program units -> the Python value written into the share (exact: ints, dyadic floats)"""
    if isinstance(v, (bool, str)):
        return v
    x = Fraction(v, scale)
    return int(x) if x.denominator == 1 else float(x)


def run(prog, script=None, envs=None, max_ticks=8, quantum=None, workdir=None, keep_script=False):
    """Build and run `prog`. envs: {tick number: [(share, value), ...]} applied at the boundary BEFORE that tick
    (numbers in the units of the program, 1/prog["scale"]; strings and booleans as they are); (share, value, field)
    writes another field of the share (event EnvF).
    The run is interrupted (keyboard interrupt between ticks) before tick `max_ticks` unless it ended earlier.
    Returns dict(events=[...], error=None|str, built=bool, script=text)."""
    _install()
    from ioflo.base import skedding, storing
    quantum = quantum or emitter.QUANTUM
    text = script if script is not None else emitter.emit(prog, quantum)
    workdir = workdir or env.subdir("flo")
    path = os.path.join(workdir, "p%d.flo" % os.getpid())
    with open(path, "w") as f:
        f.write(text)
    REC.events = []
    REC.depth = 0
    REC.prog = prog
    REC.quantum = Fraction(quantum)
    envs = envs or {}
    # prog["t0"]: start stamp of the run in ticks (default 0); only the harness knows it
    t0 = Fraction(prog.get("t0", 0)) * Fraction(prog["tick"]) * Fraction(quantum)
    sk = skedding.Skedder(name="vf", period=float(Fraction(prog["tick"]) * quantum), stamp=float(t0), real=False, filepath=path)
    res = {"events": REC.events, "error": None, "built": False, "script": text}
    try:
        res["built"] = bool(sk.build())
    except Exception as ex:
        res["error"] = "build:%s: %s" % (type(ex).__name__, ex)
        return res
    if not res["built"]:
        res["error"] = "build returned False"
        return res
    house = sk.houses[0]
    REC.house = house
    for t in list(house.taskers) + list(house.framers):
        if hasattr(t, "runner") and not isinstance(t.runner, RunnerProxy):
            t.runner = RunnerProxy(t, t.runner)
    orig = storing.Store.changeStamp
    state = {"n": 0}
    scale = prog.get("scale", 1)
    fielded = prog.get("fielded", ())

    def change_stamp(self, stamp):
        n = state["n"]
        if n > 0:
            for (s, v, *field) in envs.get(n, ()):
                sh = self.fetch(s)
                if field:      # a write of another field of the share (added if the share does not have it)
                    sh.update(**{field[0]: _real(v, scale)})
                    REC.events.append({"ev": "EnvF", "share": s, "val": v})
                elif s in fielded:
                    sh.update(**{emitter.MAIN: _real(v, scale)})
                    REC.events.append({"ev": "Env", "share": s, "val": v})
                else:
                    sh.value = _real(v, scale)
                    REC.events.append({"ev": "Env", "share": s, "val": v})
            if n >= max_ticks:
                REC.events.append({"ev": "Interrupt"})
                raise KeyboardInterrupt()
        orig(self, stamp)
        # the spec's clock is relative to the start of the run: a run that starts at stamp t0 must behave
        # like the same run started at 0, shifted (C02: "starts at t0", runs at t0 + k*p)
        ev = {"ev": "Tick", "n": n, "now": REC.q(Fraction(stamp) - t0) if t0 else REC.q(stamp)}
        snap = _snapshot(self, prog, scale, fielded)
        if snap:
            ev["store"] = snap      # values of the program's shares at the tick boundary (program units)
        REC.events.append(ev)
        state["n"] = n + 1

    storing.Store.changeStamp = change_stamp
    reraised = False
    try:
        try:
            sk.run()
        except CrashError:
            reraised = True
    except Exception as ex:
        res["error"] = "run:%s: %s" % (type(ex).__name__, ex)
        import traceback
        res["traceback"] = traceback.format_exc()
    finally:
        storing.Store.changeStamp = orig
    REC.events.append({"ev": "End", "reraised": reraised})
    res["events"] = list(REC.events)
    res["store"] = {s: (house.store.fetch(s).get(emitter.MAIN) if s in prog.get("fielded", ()) else house.store.fetch(s).value)
                    for s in prog["shares"]}
    res["statuses"] = {t.name: STATUS.get(t.status) for t in house.framers}
    if not keep_script:
        try:
            os.unlink(path)
        except OSError:
            pass
    return res
