"""C24 - stream transports deliver queued bytes exactly once and in order (specs/net/TxStream.tla, TxStreamTrace.tla).

Subjects: tcp.Client, tcp.ClientTls, tcp.Incomer, tcp.IncomerTls (TLS objects over a FakeTlsContext: ssl is not
modelled, the double raises the ssl exceptions below them), serial.Driver over SerialNb (pyserial double) and over
DeviceNb (os.read/os.write double); WireLog in buffer mode.

  A. complete state graph of TxStream.tla per flavour: the socket's answers to every send/recv of a service call are a
     script chosen by TLC (all full / partial of every length / zero / would-block / loss prefixes); every edge is
     replayed on the real class over a ScriptedSocket and queue, wire, wire log, receive buffer, flags compared;
  B. long seeded random scripts run on the real classes, logged as events, validated by TLC against TxStreamTrace.tla.
"""
import errno
import random
from concurrent.futures import ThreadPoolExecutor

from .. import doubles_net as dn
from .. import env, graph, replay, tlc, trace
from ..replay import Divergence
from ._net import graph_traces, jvm_env, validate_jobs

SPEC_DIR = env.SPECS + "/net"
FLAVORS = ("client", "clienttls", "incomer", "incomertls", "serial", "device")
OFF = 0x30           # model byte b <-> byte value b + OFF (never a newline: the wire log format is line based)
MAXB = 0x7e - OFF
LOSS = (errno.ECONNRESET, errno.ENETRESET, errno.ENETUNREACH, errno.EHOSTUNREACH, errno.ENETDOWN, errno.EHOSTDOWN,
        errno.ETIMEDOUT, errno.ECONNREFUSED)
PEER = ("10.0.0.9", 5009)
LOCAL = ("127.0.0.1", 6101)


def enc(seq):
    return bytes(b + OFF for b in seq)


def dec(bs):
    return tuple(b - OFF for b in bytes(bs))


def cfg_text(flavors, modes, k, props=True):
    s = ('SPECIFICATION Spec\nCONSTANTS\n  Flavors = {%s}\n  Modes = {%s}\n  MaxMsgs = %d\n  MaxLen = %d\n  MaxRx = %d\n  MaxChunks = %d\n'
         % (", ".join('"%s"' % f for f in flavors), ", ".join('"%s"' % m for m in modes),
            k["MaxMsgs"], k["MaxLen"], k["MaxRx"], k["MaxChunks"]))
    if props:
        s += ("INVARIANT Conservation\nINVARIANT WlogEqualsWire\nINVARIANT RxInOrder\n"
              "INVARIANT NoTxBeforeConnect\nPROPERTY CutoffStops\nPROPERTY NoEmptyResidue\n")
    return s


class StreamAdapter:
    """one real transport object of the given flavour over scripted doubles"""

    def __init__(self, flavor, mutable=True):
        """mutable: hand the transport bytearrays (and the *same* bytearray object again when the same content is queued
        again, as a caller that keeps a pre-built frame does); otherwise immutable bytes.  Both are documented message
        types ("data is string in python2 and bytes in python3"; the stacks queue Part.packed, a bytearray)."""
        env.use_repo()
        from ioflo.aio import wiring
        from ioflo.aio.tcp import clienting, serving
        from ioflo.aio.serial import serialing
        self.flavor = flavor
        self.undo = []
        self.nloss = 0
        self.mutable = mutable
        self.handed = []       # [(object handed to tx(), bytes it held then)] in queue order: the caller's buffers
        self.pool = {}         # content -> the bytearray object the caller keeps for it
        self.serial = flavor in ("serial", "device")
        self.client = flavor in ("client", "clienttls")
        self.wl = None
        if not self.serial:
            self.wl = wiring.WireLog(buffify=True)
            self.wl.reopen()
        if flavor == "client":
            fake = dn.FakeSocketModule()
            self.undo.append(dn.install(clienting, "socket", fake))
            self.x = clienting.Client(ha=PEER, wlog=self.wl)
            self.x.open()
            self.sock = fake.last
        elif flavor == "clienttls":
            fake = dn.FakeSocketModule()
            self.undo.append(dn.install(clienting, "socket", fake))
            self.x = clienting.ClientTls(context=dn.FakeTlsContext(), ha=PEER, wlog=self.wl)
            self.x.open()
            self.sock = fake.last
        elif flavor == "incomer":
            self.sock = dn.ScriptedSocket(name="ix", peer=PEER, sockname=LOCAL, connected=True)
            self.x = serving.Incomer(ha=LOCAL, bs=8096, ca=PEER, cs=self.sock, wlog=self.wl)
        elif flavor == "incomertls":
            self.sock = dn.ScriptedSocket(name="ix", peer=PEER, sockname=LOCAL, connected=True)
            self.x = serving.IncomerTls(context=dn.FakeTlsContext(), ha=LOCAL, bs=8096, ca=PEER, cs=self.sock, wlog=self.wl)
            self.sock.push("do_handshake", dn.OK)
            if not self.x.serviceHandshake():
                raise AssertionError("handshake answered OK but IncomerTls is not connected")
        elif flavor == "serial":
            self.sock = dn.ScriptedSerial()
            nb = serialing.SerialNb(port=self.sock.port)
            nb.serial = self.sock
            nb.opened = True
            self.x = serialing.Driver(server=nb)
        elif flavor == "device":
            self.sock = dn.ScriptedSerial()
            self.undo.append(dn.install(serialing, "os", dn.FakeOsModule(self.sock)))
            nb = serialing.DeviceNb(port=self.sock.port)
            nb.fd = self.sock.fileno()
            nb.opened = True
            self.x = serialing.Driver(server=nb)
        else:
            raise ValueError(flavor)
        self.txop = "write" if self.serial else "send"
        self.rxop = "read" if self.serial else "recv"

    def close(self):
        for u in reversed(self.undo):
            u()
        self.undo = []
        if self.wl:
            self.wl.close()

    # ---- environment answers
    def _loss(self):
        self.nloss += 1
        return dn.err(LOSS[self.nloss % len(LOSS)])

    def _tx_answer(self, r):
        k = r["k"]
        if k == "full":
            return dn.FULL
        if k == "part":
            return dn.partial(r["n"])
        if k == "zero":
            return dn.ZERO
        if k == "block":
            return dn.BLOCK
        if k == "loss":
            return self._loss()
        raise ValueError(k)

    def _rx_answer(self, r):
        k = r["k"]
        if k == "data":
            return dn.data(enc(r["d"]))
        if k == "block":
            return dn.BLOCK
        if k in ("closed", "empty"):
            return dn.CLOSED
        if k == "loss":
            return self._loss()
        raise ValueError(k)

    def consumed(self, op, since):
        """answers the double actually gave to `op` since call-log position `since`, as spec records"""
        out = []
        for (o, oc) in self.sock.calls[since:]:
            if o != op:
                continue
            if oc[0] == "full":
                out.append({"k": "full", "n": 0, "d": ()})
            elif oc[0] == "part":
                out.append({"k": "part", "n": oc[1], "d": ()})
            elif oc[0] in ("zero", "block"):
                out.append({"k": oc[0], "n": 0, "d": ()})
            elif oc[0] == "data":
                out.append({"k": "data", "n": 0, "d": dec(self.sock.delivered_chunks[self._nchunks])})
                self._nchunks += 1
            elif oc[0] == "closed":
                out.append({"k": "empty" if self.serial else "closed", "n": 0, "d": ()})
            elif oc[0] == "raise":
                out.append({"k": "loss", "n": 0, "d": ()})
            else:
                raise AssertionError(oc)
        return out

    # ---- operations
    def call(self, name, act):
        """perform one operation with the environment answers of `act`; returns (res, consumed script)"""
        x, sock = self.x, self.sock
        since = len(sock.calls)
        self._nchunks = len(sock.delivered_chunks)
        res = {"t": "none"}
        used = ()
        if name == "Queue":
            self.queue(enc(act["m"] if "m" in act else act["s"]))
        elif name in ("ServiceTx", "ServiceTxOnce"):
            sock.push(self.txop, *[self._tx_answer(r) for r in act["s"]])
            if name == "ServiceTx":
                x.serviceTxes()
            else:
                x.serviceTxOnce()
            used = tuple(self.consumed(self.txop, since))
            sock.clear(self.txop)
        elif name in ("ServiceRx", "ServiceRxOnce"):
            sock.push(self.rxop, *[self._rx_answer(r) for r in act["s"]])
            if name == "ServiceRx":
                x.serviceReceives()
            else:
                x.serviceReceiveOnce()
            used = tuple(self.consumed(self.rxop, since))
            sock.clear(self.rxop)
        elif name == "Cat":
            res = {"t": "bytes", "v": dec(x.catRxbs())}
        elif name == "Clear":
            x.clearRxbs()
        elif name == "Connect":
            if act["c"] != "na":
                sock.push("connect_ex", dn.rc(0 if act["c"] == "ok" else errno.EINPROGRESS))
            if act["h"] != "na":
                sock.push("do_handshake", dn.OK if act["h"] == "ok" else (dn.WANT_READ if self.nloss % 2 else dn.WANT_WRITE))
                self.nloss += 1
            res = {"t": "bool", "v": x.serviceConnect()}
            left = sock.pending("connect_ex") + sock.pending("do_handshake")
            sock.clear("connect_ex")
            sock.clear("do_handshake")
            if left:
                raise AssertionError("serviceConnect did not use the socket's answers %r" % (left,))
        else:
            raise NotImplementedError(name)
        return res, used

    def queue(self, content, same=True):
        """hand one message to tx(): bytes, or a bytearray; same: reuse the caller's bytearray object of equal content"""
        if not self.mutable:
            buf = bytes(content)
        elif same and content in self.pool:
            buf = self.pool[content]
        else:
            buf = bytearray(content)
            self.pool[content] = buf
        self.handed.append((buf, bytes(content)))
        if len(self.handed) > 64:          # long random runs: watch the recent buffers only
            dropped = self.handed.pop(0)
            if self.pool.get(dropped[1]) is dropped[0] and not any(h[0] is dropped[0] for h in self.handed):
                del self.pool[dropped[1]]
        self.x.tx(buf)

    def intact(self):
        """the buffers handed to tx() still hold what the caller put into them.  A transport must not modify a message
        it was handed: the caller may queue the very same object again, and exactly-once / in-order delivery of that
        second occurrence needs its bytes to be still there."""
        return all(bytes(buf) == was for (buf, was) in self.handed)

    def project(self, res=None):
        x, sock = self.x, self.sock
        out = {"txes": tuple(dec(m) for m in x.txes), "rxbs": dec(x.rxbs)}
        if len(self.handed) <= 64:
            # `queued` = every byte ever queued = what the caller's buffers hold, in order (unchanged by the transport)
            out["queued"] = dec(b"".join(bytes(buf) for (buf, was) in self.handed))
        if self.serial:
            out["wire"] = dec(sock.written)
        else:
            out["wire"] = dec(sock.sent)
            out["cutoff"] = bool(x.cutoff)
            recs = dn.parse_wirelog(self.wl.getTx())
            out["wlog"] = dec(b"".join(p for (k, a, p) in recs if k == b"TX"))
            recs = dn.parse_wirelog(self.wl.getRx())
            out["rlog"] = dec(b"".join(p for (k, a, p) in recs if k == b"RX"))
        if self.client:
            out["connected"] = bool(x.connected)
            out["accepted"] = bool(x.accepted)
        if res is not None:
            out["res"] = res
        return out

    def step(self, name, args, expected):
        act = args[0]
        res, used = self.call(name, act)
        out = self.project(res)
        if name.startswith("Service"):
            # every answer the model scripted must have been asked for, in order (extra calls would have met would-block)
            n = len(act["s"])
            a = dict(act)
            a["s"] = tuple(used[:n]) if tuple(used[:n]) != tuple(_plain(r) for r in act["s"]) else act["s"]
            out["act"] = a
        return out


def _plain(r):
    return {"k": r["k"], "n": r["n"], "d": tuple(r["d"])}


def _label(act):
    a = act["a"]
    if a == "Connect":
        return "Connect(%s,%s)" % (act["c"], act["h"])
    if a == "Queue":
        return "Queue(%s)" % (list(act["s"]),)
    if a in ("Cat", "Clear", "Init"):
        return a
    return "%s(%s)" % (a, ",".join(r["k"] + (str(r["n"]) if r["k"] == "part" else str(list(r["d"])) if r["k"] == "data" else "")
                                   for r in act["s"]))


# ------------------------------------------------------------------ binding B
def _jr(r):
    return {"k": r["k"], "n": r["n"], "d": list(r["d"])}


def random_trace(rng, flavor, nsteps, allow_cut=True):
    """one seeded random execution; allow_cut=False: the peer never closes / the connection is never lost (long runs).
    Messages are bytes in a third of the traces, bytearrays otherwise; a quarter of the queue steps then queue a
    bytearray object again that was queued before."""
    ad = StreamAdapter(flavor, mutable=(rng.random() < 0.67))
    try:
        return _random_trace(rng, ad, flavor, nsteps, allow_cut)
    finally:
        ad.close()


def _random_trace(rng, ad, flavor, nsteps, allow_cut):
    serial, client = ad.serial, ad.client
    nocut = serial or not allow_cut
    evs = [{"ev": "Init", "flavor": flavor}]
    after_cut = 0
    nwire = ndl = ntxlog = nrxlog = 0
    wl_all, rl_all = [], []
    for _ in range(nsteps):
        p = rng.random()
        connected = (not client) or ad.x.connected
        act = {"s": (), "c": "", "h": ""}
        if client and not connected and p < 0.5:
            name = "Connect"
            if ad.x.accepted:
                act["c"] = "na"
            else:
                act["c"] = rng.choice(["ok", "ok", "pending"])
            if flavor == "clienttls" and (ad.x.accepted or act["c"] == "ok"):
                act["h"] = rng.choice(["ok", "want"])
            else:
                act["h"] = "na"
        elif p < 0.30:
            name = "Queue"
            n = rng.randint(1, 6) if rng.random() < 0.92 else 0        # now and then a zero length message
            act["m"] = tuple(rng.randint(1, MAXB) for _ in range(n))
            if ad.pool and rng.random() < 0.25:
                act["m"] = dec(rng.choice(sorted(ad.pool)))      # the caller sends a frame it kept once more
        elif p < 0.55:
            name = "ServiceTxOnce" if (serial and rng.random() < 0.3) else "ServiceTx"
            kinds = []
            for _ in range(rng.randint(0, 5)):
                q = rng.random()
                if q < 0.55:
                    kinds.append({"k": "full", "n": 0, "d": ()})
                elif q < 0.8:
                    kinds.append({"k": "part", "n": rng.randint(1, 5), "d": ()})
                elif q < 0.88:
                    kinds.append({"k": "zero", "n": 0, "d": ()})
                elif q < 0.985 or nocut:
                    kinds.append({"k": "block", "n": 0, "d": ()})
                else:
                    kinds.append({"k": "loss", "n": 0, "d": ()})
            act["s"] = tuple(kinds)
        elif p < 0.85:
            name = "ServiceRxOnce" if rng.random() < 0.25 else "ServiceRx"
            kinds = []
            for _ in range(rng.randint(0, 4)):
                kinds.append({"k": "data", "n": 0, "d": tuple(rng.randint(1, MAXB) for _ in range(rng.randint(1, 7)))})
            q = rng.random()
            if q < 0.6 or (serial and q < 0.8):
                kinds.append({"k": "block", "n": 0, "d": ()})
            elif serial:
                kinds.append({"k": "empty", "n": 0, "d": ()})
            elif q < 0.985 or nocut:
                pass                      # the script simply ends: the double then answers would-block
            elif q < 0.993:
                kinds.append({"k": "closed", "n": 0, "d": ()})
            else:
                kinds.append({"k": "loss", "n": 0, "d": ()})
            act["s"] = tuple(kinds)
        elif not serial and rng.random() < 0.7:
            name = "Cat"
        else:
            name = "Clear"
        res, used = ad.call(name, act)
        x, sock = ad.x, ad.sock
        wire_all = sock.written if serial else sock.sent
        ev = {"ev": name, "res": _jres(res), "txes": [list(dec(m)) for m in x.txes], "rxbs": list(dec(x.rxbs)),
              "intact": ad.intact(),
              "sent": list(dec(wire_all[nwire:])), "dl": list(dec(sock.delivered[ndl:]))}
        if len(wire_all) < nwire or len(sock.delivered) < ndl:
            raise AssertionError("the double's record of accepted bytes is not append-only")
        nwire, ndl = len(wire_all), len(sock.delivered)
        if name == "Queue":
            ev["m"] = list(act["m"])
        elif name == "Connect":
            ev["c"], ev["h"] = act["c"], act["h"]
        elif name not in ("Cat", "Clear"):
            ev["s"] = [_jr(r) for r in used]
        if not serial:
            # only what this call added to the two sides of the wire log (the whole log is checked once at the end)
            tx_new, ntxlog = _log_tail(ad.wl.txLog, ntxlog)
            rx_new, nrxlog = _log_tail(ad.wl.rxLog, nrxlog)
            ev["wl"] = list(dec(b"".join(p for (k, a, p) in dn.parse_wirelog(tx_new) if k == b"TX")))
            ev["rl"] = list(dec(b"".join(p for (k, a, p) in dn.parse_wirelog(rx_new) if k == b"RX")))
            wl_all.extend(ev["wl"])
            rl_all.extend(ev["rl"])
            ev["cutoff"] = bool(x.cutoff)
        if client:
            ev["connected"], ev["accepted"] = bool(x.connected), bool(x.accepted)
        evs.append(ev)
        if not serial and x.cutoff:
            after_cut += 1
            if after_cut > 6:
                break
    if not serial:
        full = ad.project()
        if list(full["wlog"]) != wl_all or list(full["rlog"]) != rl_all:
            # a wire log that rewrote its past: a final event the specification cannot accept
            evs.append({"ev": "ServiceTx", "s": [], "res": {"t": "none"}, "txes": [list(dec(m)) for m in ad.x.txes],
                        "rxbs": list(dec(ad.x.rxbs)), "sent": [], "dl": [], "wl": [-1], "rl": [-1], "cutoff": bool(ad.x.cutoff),
                        "intact": True,
                        "connected": bool(getattr(ad.x, "connected", True)), "accepted": bool(getattr(ad.x, "accepted", True))})
    return evs


def _log_tail(log, off):
    """bytes written to a BytesIO log since offset off (leaves the position at the end, where WireLog appends)"""
    log.seek(off)
    new = log.read()
    return new, off + len(new)


def _jres(res):
    if res.get("t") == "bytes":
        return {"t": "bytes", "v": list(res["v"])}
    return res


def trace_cfg():
    return cfg_text(FLAVORS, ["both"], {"MaxMsgs": 0, "MaxLen": 0, "MaxRx": 0, "MaxChunks": 0}, props=False).replace(
        "SPECIFICATION Spec", "SPECIFICATION TraceSpec") + (
        "CONSTRAINT TraceOK\nINVARIANT Conservation\nINVARIANT WlogEqualsWire\nINVARIANT RxInOrder\n"
        "INVARIANT NoTxBeforeConnect\nCHECK_DEADLOCK FALSE\n")


ACTIONS = {
    "client": ["Queue", "ServiceTx", "ServiceRx", "ServiceRxOnce", "Cat", "Clear", "Connect"],
    "clienttls": ["Queue", "ServiceTx", "ServiceRx", "ServiceRxOnce", "Cat", "Clear", "Connect"],
    "incomer": ["Queue", "ServiceTx", "ServiceRx", "ServiceRxOnce", "Cat", "Clear"],
    "incomertls": ["Queue", "ServiceTx", "ServiceRx", "ServiceRxOnce", "Cat", "Clear"],
    "serial": ["Queue", "ServiceTx", "ServiceTxOnce", "ServiceRx", "ServiceRxOnce", "Clear"],
    "device": ["Queue", "ServiceTx", "ServiceTxOnce", "ServiceRx", "ServiceRxOnce", "Clear"],
}


def run_c24(ctx):
    ctx.rule = ("A: complete state graph of TxStream.tla per transport class (client, clienttls, incomer, incomertls, serial, "
                "device); the socket's answers during each service call (all-full prefixes then partial of every length / zero / "
                "would-block / loss; chunks then would-block / closed / loss) are chosen by TLC; every edge replayed on the real "
                "class over a scripted socket, queue / wire / wire log / receive buffer / flags compared. B: seeded random long "
                "scripts run on the real classes and validated by TLC against TxStreamTrace.tla. distinct = graph edges + accepted traces")
    ctx.assume("TLC, vf/doubles_net.py (ScriptedSocket, FakeTlsContext, ScriptedSerial, FakeOsModule) and the projection functions are trusted")
    ctx.assume("ssl is not modelled: the TLS classes run over a FakeTlsContext and the double raises ssl.SSLWant*Error below them")
    consts = ctx.pick({"MaxMsgs": 2, "MaxLen": 3, "MaxRx": 3, "MaxChunks": 2}, {"MaxMsgs": 3, "MaxLen": 3, "MaxRx": 4, "MaxChunks": 2})
    modes = ["tx", "rx", "both"]
    total = cov = 0
    dot = env.subdir("c24") + "/txstream.dot"
    res = tlc.run("TxStream", cfg_text(FLAVORS, modes, consts), spec_dir=SPEC_DIR, dump_dot=dot, deadlock=False, tag="c24", coverage=False,
                  extra_env=jvm_env(ctx.quick))
    ctx.add_model(res, "TxStream", dict(consts, Flavors=list(FLAVORS), Modes=modes))
    if not res.ok:
        ctx.diverge(Divergence("C24", "model", res.error_name or res.error, "TxStream", "specification property violated in the model",
                               steps=[{"action": a, "state": s} for a, s in res.trace]))
    else:
        g = graph.load_dot(dot)
        # vacuity guard: TLC labels these steps "Next" (their parameters range over state dependent sets), so count them here
        taken = {}
        nonfull = {}
        for st in g.states.values():
            k = (st["flavor"], st["act"]["a"])
            taken[k] = taken.get(k, 0) + 1
            if st["act"]["a"].startswith("ServiceTx") and any(r["k"] in ("part", "zero", "block") for r in st["act"]["s"]):
                nonfull[st["flavor"]] = nonfull.get(st["flavor"], 0) + 1
        missing = ["%s/%s" % (fl, a) for fl in FLAVORS for a in ACTIONS[fl] if not taken.get((fl, a))]
        missing += ["%s/partial-zero-or-would-block send" % fl for fl in FLAVORS if not nonfull.get(fl)]
        if missing:
            raise tlc.TlcError("vacuous model run (TxStream): never taken: %s" % ", ".join(missing))
        for (fl, a), n in taken.items():
            ctx.actions.setdefault(a, [0, 0])[1] += n
        paths, traces = graph_traces(g, 40, _label)
        n, divs = replay.replay("C24", traces, lambda init: StreamAdapter(str(init["flavor"]), mutable=(str(init["mode"]) != "both")))
        for d in divs:
            fl = d.steps[0]["state"]["flavor"] if d.steps else "?"
            d.where = "%s:%s" % (fl, d.where)
        ctx.diverge(divs)
        total += g.nedges
        cov += graph.covered_edges(paths)
        for fl in ("clienttls", "serial"):
            ex = [t for t in traces if t[0][2]["flavor"] == fl]
            ctx.add_validated(0, {"flavor": fl, "path": [s[0] for s in ex[len(ex) // 2]][:30]})
        ctx.add_validated(len(traces))
    # binding B
    rng = random.Random(ctx.seed)
    acc = ntr = 0
    plan = ctx.pick([(40, 150)], [(300, 300), (1, 10000)])
    jobs = []
    for (count, steps) in plan:
        trs = [random_trace(rng, fl, steps, allow_cut=(steps < 1000)) for fl in FLAVORS for _ in range(count)]
        rng.shuffle(trs)
        jobs.append(("TxStreamTrace", trace_cfg(), trs, ctx.pick(120, 150) if steps < 1000 else 1))
    outs = validate_jobs(jobs, SPEC_DIR, quick=ctx.quick, timeout=7200)
    for (_, _, trs, _), out in zip(jobs, outs):
        ntr += len(trs)
        ctx.states += out.states
        ctx.transitions += out.generated
        acc += len(out.accepted)
        ctx.add_validated(len(out.accepted), {"trace": trs[0][:6]})
        for i, pref in sorted(out.rejected.items())[:10]:
            ev = trs[i][pref] if 0 <= pref < len(trs[i]) else {}
            ctx.diverge(Divergence("C24", "rejected", ev.get("ev", "?"), "%s:trace" % trs[i][0]["flavor"],
                                   "recorded execution is not a behaviour of TxStream.tla at event %d: %s" % (pref + 1, _short(ev)),
                                   steps=trs[i][:1] + trs[i][max(1, pref - 8):pref + 1]))
        for (i, err, name, tr) in out.model_errors[:5]:
            ctx.diverge(Divergence("C24", "rejected", name or err, "%s:trace-invariant" % trs[i][0]["flavor"],
                                   "invariant %s violated on a recorded execution" % name, steps=trs[i][:40]))
    ctx.exhaustive = (cov == total)
    ctx.extra.update({"graph_edges": total, "edges_replayed": cov, "random_traces": ntr, "random_traces_accepted": acc,
                      "distinct_nontrivial": cov + acc, "evaluations": cov + ntr, "constants": consts})


def _short(ev):
    return {k: ev[k] for k in ("ev", "s", "m", "c", "h", "txes", "sent", "cutoff", "intact") if k in ev}


PROPERTIES = {"C24": run_c24}
