"""C12 - clones of moot framers behave like their originals and never share relative state.

Uses the Flo specification (specs/flo/Flo.tla, FloTrace.tla) unchanged: vf/flo/clones.py generates a case in two views;
the script view (moot templates + `aux T as tag|mine`, nested clones, relative shares) is built and run by the real
Builder/Skedder; the spec view instantiates every clone as an ordinary auxiliary with privately resolved shares; TLC
decides whether the recorded execution of the clones is a behaviour of the originals.
"""
import json
import random

from .. import env, trace
from ..replay import Divergence
from ..flo import clones, emit, run
from . import flo as flofam

SPEC_DIR = env.SPECS + "/flo"


def built_aux_names(house):
    names = {}
    for f in house.framers:
        for fname, fr in f.frameNames.items():
            auxes = [a.name for a in fr.auxes if hasattr(a, "name")]
            if auxes:
                names[(f.name, fname)] = auxes
    return names


def check_names(case, auxnames, divs, label):
    """documented naming: a named clone is <surname>_<tag>; every clone name is unique; insular clones carry the
    surname as prefix (the generated part is left open)"""
    seen = set()

    def walk(fdef, name):
        for fr in fdef["frames"]:
            decl = fdef["clones"].get(fr["name"], [])
            real = auxnames.get((name, fr["name"]), [])
            for (orig, tag), cname in zip(decl, real):
                if cname in seen:
                    divs.append(Divergence("C12", "state-mismatch", "Build", "clone-name", "clone name %s used twice%s" % (cname, label)))
                seen.add(cname)
                if tag != "mine" and cname != clones.expected_name(name, tag):
                    divs.append(Divergence("C12", "state-mismatch", "Build", "clone-name",
                                           "named clone of %s as %s under framer %s is called %s, expected %s" % (orig, tag, name, cname, clones.expected_name(name, tag))))
                if tag == "mine" and not cname.startswith(name + "_"):
                    divs.append(Divergence("C12", "state-mismatch", "Build", "clone-name",
                                           "insular clone of %s under framer %s is called %s (no surname prefix)" % (orig, name, cname)))
                walk(case["templates"][orig], cname)
    for h in case["hosts"]:
        walk(h, h["name"])


def run_c12(ctx):
    n = ctx.pick(100, 1200)
    cases = clones.generate(ctx.seed + 12, n)
    traces, metas, divs, idx = [], [], [], []
    nclones = 0
    for i, case in enumerate(cases):
        sprog = clones.script_prog(case)
        text = emit.emit(sprog)
        r = run.run(sprog, script=text, envs=case["envs"], max_ticks=case["ticks"])
        if r["error"]:
            divs.append(Divergence("C12", "exception", "Build/Run", r["error"].split(":")[0], r["error"][:200],
                                   extra={"script": text, "envs": {str(k): v for k, v in case["envs"].items()}}))
            continue
        auxnames = built_aux_names(run.REC.house)
        check_names(case, auxnames, divs, "")
        try:
            prog = clones.spec_prog(case, auxnames)
        except ValueError as ex:
            divs.append(Divergence("C12", "state-mismatch", "Build", "clone-count", str(ex), extra={"script": text}))
            continue
        nclones += sum(len(v) for v in auxnames.values())
        # distinct clones never share a relative share: in the spec view their names are distinct by construction; the
        # real store must hold each of them (the run would otherwise already diverge); cheap explicit check:
        store = run.REC.house.store
        for s in prog["shares"]:
            if s.startswith("framer.") and store.fetch(s) is None:
                divs.append(Divergence("C12", "state-mismatch", "Build", "relative-share",
                                       "share %s expected by the documented resolution does not exist in the store" % s, extra={"script": text}))
        traces.append([{"ev": "Header", "prog": prog}] + r["events"])
        metas.append({"script": text, "case_index": i})
        idx.append(i)
    out = trace.validate("FloTrace", flofam._trace_cfg(), SPEC_DIR, traces, batch=ctx.pick(40, 100))
    ctx.states += out.states
    ctx.transitions += out.generated
    ctx.add_validated(len(out.accepted))
    for j, pref in sorted(out.rejected.items()):
        tr = traces[j]
        ev = tr[pref] if 0 <= pref < len(tr) else {}
        inv = [m for m in out.model_errors if m[0] == j]
        case = cases[idx[j]]
        extra = {"script": metas[j]["script"], "envs": {str(k): v for k, v in case["envs"].items()}, "ticks": case["ticks"], "prefix": pref}
        if inv:
            divs.append(Divergence("C12", "rejected", inv[0][2] or inv[0][1], "invariant on recorded execution",
                                   "invariant %s does not hold on a recorded execution with clones" % inv[0][2], steps=tr[max(1, pref - 6):pref + 2], extra=extra))
        else:
            divs.append(Divergence("C12", "rejected", ev.get("ev", "?"), "%s:%s" % (ev.get("framer", ev.get("t", "")), ev.get("ctx", ev.get("ctl", ""))),
                                   "execution of the clones is not a behaviour of the originals at event %d: %s" % (pref, json.dumps(ev)[:160]),
                                   steps=tr[max(1, pref - 6):pref + 2], extra=extra))
    ctx.diverge(divs)
    if traces:
        ctx.sample({"script": metas[0]["script"][:1800], "events": traces[0][1:10]})
    ctx.rule = ("seeded programs with two moot templates (one nesting a clone of the other) cloned under named and insular tags in "
                "several host frames, with framer-/frame-/main-relative shares driving the templates' transitions; a case counts when "
                "TLC accepted the whole recorded execution against the spec view in which every clone is an independent original")
    ctx.extra.update({"evaluations": n, "distinct_nontrivial": len(out.accepted), "programs": n, "clone_instances": nclones})
    # second half of the property: run-time cloning (rear / raze) at the level of the clone population
    from . import rearraze
    rearraze.run_part(ctx, "C12")


PROPERTIES = {"C12": run_c12}
