"""C30 - HTTP requests and WSGI responses survive the round trip (specs/http/HttpRound.tla).

TLC checks RoundTrip in the model (abstract request -> documented quoting -> wire (HttpMsg.tla) -> parser (HttpParse.tla)
-> what the WSGI application is shown; response likewise) over the families of HttpRound.tla, and dumps the graph of the
"cover" family.  Binding A: every path of that graph is replayed on a real `Patron` and a real `Valet` joined by
in-memory connections (vf/families/_httppair.py).  Every symbolic request / response is concretised several times
(each symbolic character class stands for several concrete characters, see CLASSES below); each concretisation runs on
its own connection.  The WSGI application records `environ` and the bytes of `wsgi.input` and answers with the
response shape TLC chose (fixed length / pieces without length / empty / raised HTTPError).  Compared field-wise, both
concretely (the very strings and bytes) and after mapping back to the symbolic classes (what the evidence shows):

  request   REQUEST_METHOD, PATH_INFO, QUERY_STRING decoded by the standard form decoder *and* by the library's own
            httping.updateQargsQuery, HTTP_* headers (case-insensitively), Host, CONTENT_TYPE, CONTENT_LENGTH against the
            bytes actually readable from wsgi.input, the body, JSON data decoded from the body, form items decoded from it
  response  status, reason, headers (case-insensitively), body
"""
import json
import random
from urllib.parse import parse_qsl

from .. import env, graph, replay, tlc
from ..replay import Divergence
from . import _httppair as P

SPEC_DIR = env.SPECS + "/http"
ACTIONS = ["ClientRequest", "ServerService", "ClientService", "FollowUp"]
METHODS = ["GET", "HEAD", "PUT", "PATCH", "POST", "DELETE", "OPTIONS", "TRACE", "CONNECT"]
PORT = 8130

# ---------------------------------------------------------------- symbolic character classes -> concrete characters
PLAIN = "aZq09-_~"
CLASSES = {
    "value": {"a": PLAIN + ".", "SP": " ", "&": "&", "=": "=", "+": "+", "%": "%",
              "R": "#?/;:@,$!'()*[]\"<>\\^`{|}\t\n", "HI": "\u00e9\u00df\u20ac\u4e2d\U0001f600\u00a0"},
    "path": {"a": PLAIN, "SP": " ", "%": "%", "+": "+", "&": "&", "=": "=",
             "R": ";:@,$!'()*[]\"<>^`{|}", "HI": "\u00e9\u20ac\u4e2d\U0001f600"},
    "header": {"a": PLAIN + ".", "SP": " \t", "R": ":,;=\"()/?@[]{}\\<>&%+", "HI": "\u00e9\u00ff\u00a0\u00b5"},
    "json": {"a": PLAIN + ".", "SP": " ", "DQ": "\"", "BS": "\\", "LF": "\n\t\r\x00\x1f\x7f", "R": "/&<>'",
             "HI": "\u00e9\u20ac\U0001f600\u2028\ufeff"},
}
ATOMS = {"Jnum": [1, -7, 2.5, 0, 10 ** 20], "Jtrue": [True, False], "Jnull": [None],
         "Jlist": [[1, "x", None], {"n": {"m": []}}, [], {}]}
KEYS = {("k",): ["k", "name", "x-1", "K_2"], ("j", "2"): ["j2", "other", "y.z", "Q"]}
HNAMES = {("X", "-", "a", "B"): ["X-aB", "x-custom", "X-REQUEST-ID", "If-None-Match"]}
RAW = {"CR": [13], "LF": [10], "SP": [32], "NUL": [0], "HI": [0x80, 0xff, 0xe9, 0xc3]}
REASONS = {200: "OK", 204: "No Content", 304: "Not Modified", 404: "Not Found", 500: "Oops", 418: "Teapot"}
NEXT_BODY = b"nxt"
HOSTV = ("h", ":", "8")
JSONT = tuple("json")
FORMT = tuple("form")
ERRBODY = ("e", "r", "r", "LF", "t", "LF", "d", "LF")


def conc(seq, ctx, rng):
    return "".join(rng.choice(CLASSES[ctx][c]) for c in seq)


def abstract(text, ctx):
    out = []
    for ch in text:
        for sym, chars in CLASSES[ctx].items():
            if ch in chars:
                out.append(sym)
                break
        else:
            out.append("?U+%04X" % ord(ch))
    return tuple(out)


def conc_raw(seq, rng):
    return bytes(rng.choice(RAW[c]) if c in RAW else ord(c) for c in seq)


def abstract_raw(data):
    out = []
    for b in bytes(data):
        for sym, vals in RAW.items():
            if b in vals:
                out.append(sym)
                break
        else:
            out.append(chr(b) if 33 <= b < 127 else "?x%02x" % b)
    return tuple(out)


def back(table, concrete, lower=False):
    for sym, names in table.items():
        for n in names:
            if (n.lower() if lower else n) == concrete:
                return tuple(c.lower() for c in sym) if lower else sym
    return tuple("?" + concrete)


def abs_items(pairs, ctx):
    return tuple({"k": back(KEYS, k), "v": abstract(v, ctx)} for k, v in pairs)


def abs_json(obj):
    if not isinstance(obj, dict):
        return ("BAD",)
    out = []
    for k, v in obj.items():
        if isinstance(v, str):
            val = {"t": "str", "s": abstract(v, "json")}
        else:
            val = {"t": "atom", "a": "?"}
            for sym, vals in ATOMS.items():
                if any(type(v) is type(x) and v == x for x in vals):
                    val = {"t": "atom", "a": sym}
        out.append({"k": back(KEYS, k), "v": val})
    return tuple(out)


class Concrete:
    """one concretisation of a symbolic request (and later of the response TLC chose)"""

    def __init__(self, req, rng):
        from ioflo.aid.odicting import odict
        self.rng = rng
        self.method = req["method"]
        self.path = "/" + "/".join(conc(seg, "path", rng) for seg in req["path"])
        self.keys = {sym: rng.choice(names) for sym, names in KEYS.items()}
        self.hname = {sym: rng.choice(names) for sym, names in HNAMES.items()}
        self.qitems = [(self.keys[tuple(it["k"])], conc(it["v"], "value", rng)) for it in req["query"]]
        self.headers = [(self.hname[tuple(h["name"])], conc(h["value"], "header", rng)) for h in req["heads"]]
        b = req["body"]
        self.kind = b["k"]
        self.body = self.data = self.fitems = None
        if self.kind == "raw":
            self.body = conc_raw(b["data"], rng)
        elif self.kind == "json":
            self.data = odict()
            for it in b["obj"]:
                v = it["v"]
                self.data[self.keys[tuple(it["k"])]] = conc(v["s"], "json", rng) if v["t"] == "str" else rng.choice(ATOMS[v["a"]])
        elif self.kind == "form":
            self.fitems = [(self.keys[tuple(it["k"])], conc(it["v"], "value", rng)) for it in b["items"]]
        self.effective = "none" if self.method == "GET" else self.kind      # documented: no body on GET
        self.env = None
        self.resp = None

    def kwargs(self):
        from ioflo.aid.odicting import odict
        kw = {"method": self.method, "path": self.path, "qargs": odict(self.qitems), "headers": odict(self.headers)}
        if self.kind == "raw":
            kw["body"] = self.body
        elif self.kind == "json":
            kw["data"] = self.data
        elif self.kind == "form":
            kw["fargs"] = odict(self.fitems)
        return kw

    # ---- what the application must be shown, concretely
    def env_problems(self, rec):
        e, body = rec["environ"], rec["body"]
        bad = []
        if e.get("REQUEST_METHOD") != self.method:
            bad.append("REQUEST_METHOD")
        if e.get("PATH_INFO") != self.path:
            bad.append("PATH_INFO")
        try:
            if parse_qsl(e.get("QUERY_STRING", ""), keep_blank_values=True, errors="strict") != self.qitems:
                bad.append("QUERY_STRING")
        except ValueError:
            bad.append("QUERY_STRING")
        for n, v in self.headers:
            if e.get("HTTP_" + n.upper().replace("-", "_")) != v:
                bad.append("HTTP_" + n.upper().replace("-", "_"))
        if self.effective == "raw" and body != self.body:
            bad.append("wsgi.input")
        if self.effective == "none" and body != b"":
            bad.append("wsgi.input")
        if self.effective == "json":
            try:
                if json.loads(body.decode("utf-8")) != json.loads(json.dumps(self.data)):
                    bad.append("wsgi.input(json)")
            except ValueError:
                bad.append("wsgi.input(json)")
        if self.effective == "form":
            try:
                if parse_qsl(body.decode("ascii"), keep_blank_values=True, errors="strict") != self.fitems:
                    bad.append("wsgi.input(form)")
            except ValueError:
                bad.append("wsgi.input(form)")
        return bad


class RecordingApp:
    """records what it is shown; answers as the plan of the connection says"""

    def __init__(self):
        self.seen = {}       # REMOTE_ADDR -> record
        self.plans = {}      # REMOTE_ADDR -> concrete response plan
        self.next_plans = {}  # REMOTE_ADDR -> concrete plan of the response to the further request /next

    def __call__(self, environ, start_response):
        from ioflo.aio.http import httping
        ca = environ.get("REMOTE_ADDR")
        if environ.get("PATH_INFO") == "/next":        # the further request on the same connection
            plan = self.next_plans[ca]
        else:
            body = environ["wsgi.input"].read()
            self.seen.setdefault(ca, []).append({"environ": {k: v for k, v in environ.items() if not k.startswith("wsgi.")},
                                                 "scheme": environ.get("wsgi.url_scheme"), "body": body})
            plan = self.plans[ca]
        if plan["shape"] == "error":
            err = httping.HTTPError(plan["status"], reason=plan["reason"], title="t", detail="d", headers=dict(plan["headers"]))
            plan["render"] = err.render()
            if plan["how"] % 2 == 0:
                raise err

            def failing():
                raise err
                yield b""      # noqa
            return failing()
        headers = list(plan["headers"])
        if plan["shape"] == "fixed":
            headers.append(("Content-Length", str(sum(len(p) for p in plan["pieces"]))))
        start_response("%d %s" % (plan["status"], plan["reason"]), headers)
        if plan["how"] % 2 == 0:
            return list(plan["pieces"])
        return (p for p in list(plan["pieces"]))


class RoundAdapter:
    def __init__(self, init, nvariants, seed):
        env.use_repo()
        from ioflo.aio.http import clienting, serving
        from ioflo.base import storing
        P.silence_console()
        self.req = init["req"]
        rng = random.Random("%d/%r" % (seed, self.req))
        self.variants = [Concrete(self.req, random.Random(rng.random())) for _ in range(nvariants)]
        self.net = P.PairNet(auto=True)
        self.app = RecordingApp()
        with P.patched(self.net):
            self.valet = serving.Valet(port=PORT, store=storing.Store(stamp=0.0), app=self.app)
            if not self.valet.open():
                raise RuntimeError("Valet did not open on the in-memory network")
            self.patrons = []
            for i, v in enumerate(self.variants):
                # two documented ways to state a request: Patron.request(...) later, or the constructor + transmit()
                v.by_constructor = (i % 3 == 1)
                kw = v.kwargs() if v.by_constructor else {}
                p = clienting.Patron(hostname="127.0.0.1", port=PORT, store=storing.Store(stamp=0.0), **kw)
                p.open()
                p.serviceAll()
                self.patrons.append(p)
            self.valet.serviceAll()
        self.detail = None

    def project(self):
        return {"stage": "new"}

    def step(self, name, args, expected):
        with P.patched(self.net), P.quiet():
            if name == "ClientRequest":
                for v, p in zip(self.variants, self.patrons):
                    if v.by_constructor:
                        p.transmit()
                    else:
                        p.request(**v.kwargs())
                    p.serviceAll()
                return {"stage": "sent"}
            if name == "ServerService":
                r = args[0]
                for i, (v, p) in enumerate(zip(self.variants, self.patrons)):
                    v.resp = self.plan(v, r, i)
                    self.app.plans[p.connector.ca] = v.resp
                for _ in range(12):
                    self.valet.serviceAll()
                    if self.valet.reps and all(rep.ended for rep in self.valet.reps.values()) and len(self.valet.reps) == len(self.patrons):
                        break
                self.valet.serviceAll()
                return {"stage": "served", "environ": self.project_env(expected["environ"])}
            if name == "ClientService":
                for p in self.patrons:
                    for _ in range(6):
                        p.serviceAll()
                        if p.responses:
                            break
                return {"stage": "done", "got": self.project_got(expected["got"], 0, "resp")}
            if name == "FollowUp":
                from ioflo.aid.odicting import odict
                f = args[0]
                for i, (v, p) in enumerate(zip(self.variants, self.patrons)):
                    v.follow = self.plan(v, f, i + 1)
                    self.app.next_plans[p.connector.ca] = v.follow
                    p.request(method="GET", path="/next", qargs=odict(), headers={})
                    for _ in range(14):
                        p.serviceAll()
                        self.valet.serviceAll()
                        if len(p.responses) >= 2:
                            break
                return {"stage": "again", "follow": f, "next": self.project_got(expected["next"], 1, "follow")}
        raise NotImplementedError(name)

    # ---- projections: the first concretisation that disagrees (concretely or symbolically) is shown
    def project_env(self, exp):
        first = None
        for v, p in zip(self.variants, self.patrons):
            recs = self.app.seen.get(p.connector.ca, [])
            if len(recs) != 1:
                self.detail = {"request": v.kwargs(), "problem": "application called %d times" % len(recs)}
                return {"method": ("application-called-%d-times" % len(recs),)}
            a = self.abs_env(v, recs[0], exp)
            bad = v.env_problems(recs[0])
            if bad and replay.diff(replay.norm(exp), replay.norm(a), "") is None:
                a["method"] = ("concrete-mismatch",) + tuple(bad)
            if first is None:
                first = a
            if bad or replay.diff(replay.norm(exp), replay.norm(a), ""):
                self.detail = {"request": repr(v.kwargs()), "fields": bad,
                               "environ": repr({k: x for k, x in recs[0]["environ"].items() if k.isupper()}), "body": repr(recs[0]["body"])}
                return a
        return first

    def abs_env(self, v, rec, exp):
        from ioflo.aid.odicting import odict
        from ioflo.aio.http import httping
        e, body = rec["environ"], rec["body"]
        out = {"method": tuple(e.get("REQUEST_METHOD", ""))}
        pi = e.get("PATH_INFO", "")
        out["path"] = tuple(abstract(s, "path") for s in pi[1:].split("/")) if pi.startswith("/") else (tuple("?" + pi),)
        qs = e.get("QUERY_STRING", "")
        try:
            pairs = parse_qsl(qs, keep_blank_values=True, errors="strict")
        except ValueError:
            pairs = [("?undecodable", qs)]
        out["qargs"] = abs_items(pairs, "value")
        own = list(httping.updateQargsQuery(odict(), qs)[0].items())
        if own != pairs:
            out["qargs"] += ({"k": tuple("?library-parser-disagrees"), "v": abstract(repr(own), "value")},)
        heads = set()
        for k, val in e.items():
            if k.startswith("HTTP_") and k not in ("HTTP_HOST", "HTTP_CONTENT_LENGTH", "HTTP_CONTENT_TYPE", "HTTP_ACCEPT_ENCODING"):
                name = None
                for sym, names in HNAMES.items():
                    if k[5:] in [n.upper().replace("-", "_") for n in names]:
                        name = tuple(c.lower() for c in sym)
                heads.add((name or tuple("?" + k), abstract(val, "header")))
        out["heads"] = frozenset(heads)
        out["host"] = HOSTV if e.get("HTTP_HOST") == "127.0.0.1:%d" % PORT else tuple(str(e.get("HTTP_HOST")))
        ct = e.get("CONTENT_TYPE", "")
        out["ctype"] = JSONT if ct.startswith("application/json") else FORMT if ct.startswith("application/x-www-form-urlencoded") \
            else () if ct == "" else tuple("?" + ct)
        consistent = e.get("CONTENT_LENGTH") == str(len(body)) and rec["scheme"] == "http" and e.get("SERVER_PROTOCOL") == "HTTP/1.1" \
            and e.get("SERVER_PORT") == str(PORT) and e.get("SCRIPT_NAME") == ""
        out["clen"] = exp["clen"] if consistent else -1
        out["data"] = ()
        out["fargs"] = ()
        decoded = None
        if out["ctype"] == JSONT:
            try:
                out["data"] = abs_json(json.loads(body.decode("utf-8"), object_pairs_hook=dict))
            except ValueError:
                out["data"] = ("BAD",)
            decoded = replay.norm(out["data"]) == replay.norm(exp["data"])
        elif out["ctype"] == FORMT:
            try:
                out["fargs"] = abs_items(parse_qsl(body.decode("ascii"), keep_blank_values=True, errors="strict"), "value")
            except ValueError:
                out["fargs"] = ({"k": tuple("?undecodable"), "v": abstract_raw(body)},)
            decoded = replay.norm(out["fargs"]) == replay.norm(exp["fargs"])
        # the encoded body of JSON / form data is judged by what it decodes to
        out["body"] = exp["body"] if decoded else abstract_raw(body)
        return out

    @staticmethod
    def plan(v, r, i):
        """one concretisation of the abstract response r"""
        return {"status": r["status"], "reason": REASONS[r["status"]], "shape": r["shape"], "how": i + len(r["pieces"]),
                "headers": [(v.hname[tuple(h["name"])], conc(h["value"], "header", v.rng)) for h in r["heads"]],
                "pieces": [conc_raw(pc, v.rng) for pc in r["pieces"]]}

    def project_got(self, exp, idx, which):
        """the idx-th response every client was handed against the plan it was produced from"""
        first = None
        for v, p in zip(self.variants, self.patrons):
            if len(p.responses) != idx + 1:
                self.detail = {"request": repr(v.kwargs()), "first plan": repr(v.resp), "plan": repr(getattr(v, which)),
                               "problem": "%d responses instead of %d" % (len(p.responses), idx + 1),
                               "unread": repr(bytes(p.connector.rxbs)[:200]),
                               "wire": repr(bytes(p.connector.cs.conn.s2c)[-500:]) if p.connector.cs else None}
                return {"status": -len(p.responses) - 1}
            r = p.responses[idx]
            plan = getattr(v, which)
            body = bytes(r["body"])
            want = plan.get("render") if plan["shape"] == "error" else b"".join(plan["pieces"])
            a = {"status": r["status"] if not r["errored"] else -1,
                 "reason": tuple("SP" if c == " " else c for c in (r["reason"] or "")),
                 "body": ERRBODY if (plan["shape"] == "error" and body == want) else abstract_raw(body)}
            heads = set()
            for k, val in r["headers"].items():
                if k in ("content-length", "transfer-encoding", "server", "content-type", "date"):
                    continue
                heads.add((back(HNAMES, k, lower=True), abstract(val, "header")))
            a["heads"] = frozenset(heads)
            bad = []
            if body != want:
                bad.append("body")
            if r["reason"] != plan["reason"]:
                bad.append("reason")
            for n, val in plan["headers"]:
                if r["headers"].get(n.lower()) != val:
                    bad.append("header " + n)
            if which == "follow" and str((r.get("request") or {}).get("path")) != "/next":
                bad.append("matched to the wrong request")
            if bad and replay.diff(replay.norm(exp), replay.norm(a), "") is None:
                a["reason"] = ("concrete-mismatch",) + tuple(bad)
            if first is None:
                first = a
            if bad or replay.diff(replay.norm(exp), replay.norm(a), ""):
                self.detail = {"request": repr(v.kwargs()), "plan": repr(plan), "fields": bad,
                               "response": repr({k: r[k] for k in ("status", "reason", "headers", "body", "errored", "error")})}
                return a
        return first

    def close(self):
        with P.patched(self.net), P.quiet():
            try:
                for p in self.patrons:
                    p.close()
                self.valet.close()
            except Exception:
                pass


def cfg_text(family, qc, maxlen=2, maxitems=2, bodyitems=2, props=True, cross="some", allitems=2):
    q = lambda xs: "{%s}" % ", ".join('"%s"' % x for x in xs)
    s = ("SPECIFICATION Spec\nCONSTANTS\n  Methods = %s\n  QC = %s\n"
         '  FC = {"a", "SP", "&", "=", "+", "%%", "R", "HI"}\n  JC = {"a", "SP", "DQ", "BS", "LF", "HI"}\n'
         '  HC = {"a", "SP", "R", "HI"}\n  PC = {"a", "SP", "R", "%%", "+", "HI"}\n'
         "  MaxLen = %d\n  MaxItems = %d\n  BodyItems = %d\n  AllItems = %d\n  Family = \"%s\"\n  Cross = \"%s\"\nCHECK_DEADLOCK FALSE\n" % (q(METHODS), q(qc), maxlen, maxitems, bodyitems, allitems, family, cross))
    if props:
        s += "INVARIANT RoundTrip\nINVARIANT NothingLeft\n"
    return s


CLASSES4 = ["a", "SP", "&", "HI"]
CLASSES8 = ["a", "SP", "&", "=", "+", "%", "R", "HI"]


def run_c30(ctx):
    ctx.rule = ("HttpRound.tla: RoundTrip model checked over the families query / body / path / head / resp and the product "
                "(every method x every body kind x all queries of <= 1 (quick) / 2 (thorough) items with values of <= 2 characters over the "
                "classes); every ordered pair of response classes (fixed length, streamed, empty, bodiless, raised error) on one "
                "persistent connection; "
                "every path of the graph of the cover family (every value of <= 2 characters alone and every pair of values of "
                "<= 1 character over 8 classes in query and form, JSON objects, raw bodies, paths, headers, every method, every "
                "response shape) replayed on a real Patron and Valet in several concretisations per symbolic case; "
                "distinct = (symbolic request, response) paths replayed")
    # the model check and the dump of the cover graph are independent TLC runs: side by side
    from concurrent.futures import ThreadPoolExecutor
    dot = env.subdir("c30") + "/cover.dot"
    pool = ThreadPoolExecutor(max_workers=2)
    cross = ctx.pick("some", "all")
    fut_cover = pool.submit(tlc.run, "HttpRound", cfg_text("cover", CLASSES8, props=False, cross=cross), spec_dir=SPEC_DIR, dump_dot=dot,
                            tag="c30g", coverage=False, workers=max(2, env.NCPU // 4), timeout=6 * 3600)
    res = tlc.run("HttpRound", cfg_text("mc", ctx.pick(CLASSES4, CLASSES8), bodyitems=ctx.pick(1, 2), cross=cross, allitems=ctx.pick(1, 2)), spec_dir=SPEC_DIR, tag="c30mc",
                  timeout=6 * 3600, workers=max(2, env.NCPU - env.NCPU // 4))
    ctx.add_model(res, "HttpRound/mc", {"QC": ctx.pick(CLASSES4, CLASSES8), "MaxLen": 2, "MaxItems": 2, "BodyItems": ctx.pick(1, 2), "AllItems": ctx.pick(1, 2), "Cross": cross})
    if not res.ok:
        ctx.diverge(Divergence("C30", "model", res.error_name or res.error, "HttpRound", "specification property violated in the model",
                               steps=[{"action": a, "state": s} for a, s in res.trace]))
        return
    tlc.require_coverage(res, ACTIONS, "HttpRound/mc")
    res = fut_cover.result()
    ctx.add_model(res, "HttpRound/cover-graph", {"QC": CLASSES8})
    g = graph.load_dot(dot)
    paths = graph.edge_cover(g, max_len=8)
    traces = replay.graph_paths_to_traces(g, paths)
    nvar = ctx.pick(3, 10)
    holder = {}

    def make(init):
        holder["ad"] = RoundAdapter(init, nvar, ctx.seed)
        return holder["ad"]

    divs = []
    nsteps = 0
    for tr in traces:
        n, ds = replay.replay("C30", [tr], make, stop_after=1)
        nsteps += n
        for d in ds:
            d.extra["concrete"] = holder["ad"].detail if holder.get("ad") else None
        divs.extend(ds)
        if len(divs) >= 40:
            break
    ctx.diverge(divs)
    ctx.add_validated(len(traces), {"path": [s[0][:160] for s in traces[len(traces) // 2]]})
    ctx.exhaustive = (graph.covered_edges(paths) == g.nedges) and not divs
    ctx.extra.update({"graph_edges": g.nedges, "edges_replayed": graph.covered_edges(paths), "symbolic_requests": len(g.inits),
                      "concretisations_per_case": nvar, "exchanges_on_real_programs": len(traces) * nvar,
                      "distinct_nontrivial": len(traces), "evaluations": nsteps * nvar})
    ctx.assume("character classes are concretised to the sets in vf/families/httpround.py: a defect needing a character outside "
               "them can be missed; header names occur once; TLC, the in-memory connections and the standard form / JSON decoders "
               "used as oracle are trusted")


PROPERTIES = {"C30": run_c30}
