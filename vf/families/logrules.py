"""C22 - log rules (specs/log/LogRules.tla, LogRulesTrace.tla).

The real Logger (one Log per rule, files in a scratch directory) is driven through its runner generator the way
Skedder.run drives a tasker (`runner.send(tasker.desire)` when `retime <= stamp`, then `retime += period`).
  A. TLC dumps the complete state graph of LogRules.tla for every single-rule logger (x field selection x period):
     every edge is replayed, comparing after each step what each log appended to its file (header entries, records),
     the logger's status / desire, the share values and the queues.  -simulate behaviours of a logger with all
     seven logs are replayed the same way.
  B. seeded random histories of the real logger are recorded and TLC decides whether each is a behaviour of the
     specification (LogRulesTrace.tla).
  TLC also checks the statement of the property on the model itself, against the recorded history of writes and runs.
LogWorld / parse_log are shared with logrotate.py (C23).
"""
import itertools
import json
import os
import random
import shutil
import time

from .. import env, graph, replay, tlc, trace
from ..replay import Divergence

SPEC_DIR = env.SPECS + "/log"
TICK = 0.5            # seconds per tick (dyadic: every time stamp is exact and prints with one decimal)
RULE_ORDER = ("once", "always", "update", "change", "never", "streak", "deck")
VALUE_RULES = ("once", "always", "update", "change", "never")
HDR = {"h": True, "t": 0, "v": ()}
BLANK = -1                        # LogRules!Blank: an empty column of a record / the empty mapping as deck entry
TLC_TIMEOUT = 8 * 3600            # slowness of a loaded machine must never become a verdict
_count = itertools.count()
_mods = {}


def ioflo():
    """the modules under test (imported once, console muted)"""
    if not _mods:
        env.use_repo()
        from ioflo.aid.consoling import getConsole
        from ioflo.aid.odicting import odict
        from ioflo.base import globaling, housing, logging, storing
        getConsole().reinit(verbosity=0)
        _mods.update(G=globaling, housing=housing, logging=logging, storing=storing, odict=odict)
    return _mods


class _OsNoSync:
    """stands in for the `os` module inside ioflo.base.logging where durability is not the subject (C22): fsync costs
    milliseconds per closed file and changes nothing that can be observed without killing the process"""

    def __getattr__(self, name):
        return getattr(os, name)

    @staticmethod
    def fsync(fd):
        return None


def no_fsync():
    ioflo()["logging"].os = _OsNoSync()


def header_text(rule, sel, name=None):
    """what the documentation of Log.buildHeader / the builder says the two header lines are"""
    if rule in VALUE_RULES:
        cols = ["a.x", "a.y", "b"] if sel == "all" else ["a"]
    elif rule == "streak":
        cols = ["q"]
    else:
        cols = ["d.x", "d.y"] if sel == "all" else ["d"]
    return "text\t%s\t%s\n_time\t%s\n" % (rule.capitalize(), name or rule, "\t".join(cols))


def parse_log(text, header):
    """log file text -> (entries, torn): header blocks become HDR, records {"h": False, "t": ticks, "v": (values)};
    a line that is neither is kept raw (and will never equal what the specification expects)."""
    h1, h2 = header.split("\n")[:2]
    lines = text.split("\n")
    torn = lines.pop()
    out = []
    i = 0
    while i < len(lines):
        ln = lines[i]
        if ln == h1:
            if i + 1 < len(lines) and lines[i + 1] == h2:
                out.append(dict(HDR))
                i += 2
                continue
            if i + 1 == len(lines) and h2.startswith(torn):
                torn = ln + "\n" + torn
                break
        parts = ln.split("\t")
        try:
            q = float(parts[0]) / TICK
            t = int(q) if q == int(q) else parts[0]
        except ValueError:
            t = parts[0]
        vs = tuple(int(p) if p.lstrip("-").isdigit() else (BLANK if p == "" else p) for p in parts[1:])   # empty column
        out.append({"h": False, "t": t, "v": vs})
        i += 1
    return out, torn


def wellformed(entries):
    return all(isinstance(e["t"], int) and all(isinstance(x, int) for x in e["v"]) for e in entries)


class LogWorld:
    """a house with a store, the shares, a real Logger with one real Log per rule, and the skedder's bookkeeping"""

    def __init__(self, logs, sel, period, root, keep=0, cycle=0, size=0, flush=120, reuse=False, fresh=True):
        m = ioflo()
        G = m["G"]
        self.m, self.G = m, G
        m["housing"].House.Clear()
        m["housing"].ClearRegistries()
        self.sel = sel
        self.rules = [r for r in RULE_ORDER if r in logs]
        self.root = root
        self.reuse = reuse
        if reuse and fresh:   # the directory <root>/hs/lg is used again: nothing of an earlier world may be left in it
            clear_dir(os.path.join(root, "hs", "lg"))     # (fresh = False: a later session of the same scenario)
        self.house = m["housing"].House(name="hs")
        self.store = st = self.house.store
        self.logger = lg = m["logging"].Logger(name="lg", store=st, schedule=G.ACTIVE, prefix=root, period=period * TICK,
                                               flushPeriod=flush * TICK, keep=keep, cyclePeriod=cycle * TICK,
                                               fileSize=size, reuse=reuse)
        self.a = st.create("s.a").create([("x", 0), ("y", 0)])
        self.b = st.create("s.b").create(x=0)
        self.q = st.create("s.q").create([("seq", []), ("alt", [])])
        self.d = st.create("s.d")
        self.qfield = "seq" if sel == "all" else "alt"
        self.logs = {}
        self.headers = {}
        for rule in self.rules:
            log = m["logging"].Log(name=rule, store=st, kind="text", rule=G.LogRuleValues[rule.capitalize()])
            if rule in VALUE_RULES:
                if sel == "all":
                    log.addLoggee(tag="a", loggee="s.a")
                    log.addLoggee(tag="b", loggee="s.b")
                else:
                    log.addLoggee(tag="a", loggee="s.a", fields=["x"])
            elif rule == "streak":
                if sel == "all":
                    log.addLoggee(tag="q", loggee="s.q")
                else:
                    log.addLoggee(tag="q", loggee="s.q", fields=["alt", "seq"])   # only the first of the clause is used
            else:
                log.addLoggee(tag="d", loggee="s.d", fields=["x", "y"] if sel == "all" else ["x"])
            lg.addLog(log)
            self.logs[rule] = log
            self.headers[rule] = header_text(rule, sel)
        lg.resolve()
        st.changeStamp(0.0)
        # Skedder.addReadyTask
        lg.desire = G.START if lg.schedule == G.ACTIVE else G.STOP
        lg.status = G.STOPPED
        self.retime = st.stamp
        self.prev = {r: [] for r in self.rules}

    # ---- environment and skedder ----
    def write(self, s, f, v):
        {"a": self.a, "b": self.b}[s].update(**{f: v})

    def push_s(self, e):
        self.q[self.qfield].append(e)

    def push_d(self, e):
        self.d.push(self.m["odict"]() if e == BLANK else self.m["odict"]([("x", e), ("y", 1 - e)]))

    def bid(self, c):
        self.logger.desire = {"stop": self.G.STOP, "start": self.G.START}[c]

    def slot(self):
        """one pass of Skedder.run over this tasker"""
        lg = self.logger
        if self.retime > self.store.stamp:
            return lg.status
        status = lg.runner.send(lg.desire)
        self.retime = self.retime + lg.period
        return status

    def tick(self):
        self.store.changeStamp(self.store.stamp + TICK)

    def perform(self, name, args):
        if name == "Write":
            self.write(*args)
        elif name == "PushS":
            self.push_s(args[0])
        elif name == "PushD":
            self.push_d(args[0])
        elif name == "Bid":
            self.bid(args[0])
        elif name == "Slot":
            self.slot()
        elif name == "Tick":
            self.tick()
        else:
            raise NotImplementedError(name)

    # ---- observation ----
    def file_entries(self, rule, path=None, flush=True):
        log = self.logs[rule]
        if flush and log.file is not None and not log.file.closed:
            log.file.flush()      # push Python's buffer to the kernel so that the file can be read; no effect on the rules
        path = path or log.path
        if not path or not os.path.exists(path):
            return None, ""
        with open(path) as f:
            txt = f.read()
        return parse_log(txt, self.headers[rule])

    def deltas(self):
        """entries appended to each log's file since the last call"""
        out = {}
        for r in self.rules:
            ents, torn = self.file_entries(r)
            ents = ents or []
            prev = self.prev[r]
            if torn or ents[:len(prev)] != prev:
                out[r] = ({"h": False, "t": -2, "v": ("earlier file content changed or torn line", torn)},)
                continue
            out[r] = tuple(ents[len(prev):])
            self.prev[r] = ents
        return out

    def names(self):
        G = self.G
        st = {G.STOPPED: "stopped", G.STARTED: "started", G.RUNNING: "running", G.READIED: "readied", G.ABORTED: "aborted"}
        de = {G.START: "start", G.RUN: "run", G.STOP: "stop", G.ABORT: "abort", G.READY: "ready"}
        return st.get(self.logger.status, str(self.logger.status)), de.get(self.logger.desire, str(self.logger.desire))

    def project(self):
        q = self.store.stamp / TICK
        status, desire = self.names()
        return {"now": int(q) if q == int(q) else repr(self.store.stamp),
                "val": {"a": {"x": self.a["x"], "y": self.a["y"]}, "b": {"x": self.b["x"]}},
                "sq": tuple(self.q[self.qfield]),
                "dq": tuple((e["x"] if len(e) else BLANK) for e in self.d.deck),
                "status": status, "desire": desire,
                "out": self.deltas()}

    def close(self):
        """close the files and remove them (removing directories is what costs on this file system: only the unique one)"""
        try:
            self.logger.close()
        finally:
            d = self.logger.path
            if d and d.startswith(self.root):
                clear_dir(d)
                if not self.reuse:
                    try:
                        os.rmdir(d)
                    except OSError:
                        pass


def clear_dir(d):
    if os.path.isdir(d):
        for fn in os.listdir(d):
            try:
                os.unlink(os.path.join(d, fn))
            except OSError:
                pass


def new_root(tag):
    """scratch directory of this process for log files (one per process; a world cleans up after itself)"""
    d = os.path.join(env.subdir(tag), "p%d" % os.getpid())
    os.makedirs(d, exist_ok=True)
    return d


class RulesAdapter:
    """binding A: one LogWorld per behaviour; projection = what every log appended + public logger / share state"""

    def __init__(self, init):
        c = init["cfg"]
        # the directory name is not part of the model: mostly the reusable one (cheap), every 8th world a unique one
        self.w = LogWorld(set(c["logs"]), c["sel"], c["period"], new_root("c22"), reuse=(next(_count) % 8 != 0))

    def project(self):
        return self.w.project()

    def step(self, name, args, expected):
        if name == "PushS":
            args = (expected["sq"][-1],)
        elif name == "PushD":
            args = (expected["dq"][-1],)
        self.w.perform(name, args)
        return self.w.project()

    def close(self):
        self.w.close()


# ------------------------------------------------------------------ known deviation (see findings.d/logging.json)
KF_DETAIL = ("update log silent although a loggee was updated after its previous record: the update was made after the "
             "logger's turn in the tick of that record and carries the same time stamp")


def log_run(st):
    due = st["retime"] <= st["now"]
    return due and ((st["desire"] == "start" and st["status"] == "stopped")
                    or (st["desire"] in ("run", "stop") and st["status"] != "stopped"))


def only_late(st):
    """Slot from this state makes the update log record only because of updates that carry its previous record's stamp"""
    if "update" not in st["cfg"]["logs"] or not st["logged"]["update"]:
        return False
    return bool(st["dirty"]) and set(st["dirty"]) <= set(st["late"]) and log_run(st)


def reclassify(d):
    """a divergence at a Slot whose only difference is the silent update log in the same-stamp situation gets the
    signature of the open finding; anything else keeps its own signature"""
    if d.kind != "state-mismatch" or d.action != "Slot" or len(d.steps) < 2 or not isinstance(d.actual, dict):
        return d
    pre = d.steps[-2]["state"]
    if not only_late(pre):
        return d
    exp = dict(d.expected)
    eo = dict(exp["out"])
    if not eo.get("update"):
        return d
    eo["update"] = ()
    exp["out"] = eo
    for k, v in d.actual.items():
        if k in exp and replay.diff(replay.norm(exp[k]), replay.norm(v), k):
            return d
    d.where = "out.update"
    d.detail = KF_DETAIL + " (expected %r)" % (replay.norm(d.expected["out"]["update"]),)
    return d


def split_affected(g):
    """(graph without the Slot edges that exercise the known deviation, those edges)"""
    g2 = graph.Graph()
    g2.states, g2.inits = g.states, g.inits
    aff = []
    for s, es in g.out.items():
        keep = []
        hit = only_late(g.states[s])
        for e in es:
            if hit and e[1][0] == "Slot":
                aff.append((s, e))
            else:
                keep.append(e)
        g2.out[s] = keep
        g2.nedges += len(keep)
    return g2, aff


def paths_to(g, targets):
    """shortest paths (lists of (src, label, action, dst)) from an initial state to each target state"""
    from collections import deque
    pred = {i: None for i in g.inits}
    dq = deque(g.inits)
    while dq:
        u = dq.popleft()
        for (lab, act, v) in g.out[u]:
            if v not in pred:
                pred[v] = (u, lab, act)
                dq.append(v)
    out = {}
    for t in targets:
        if t not in pred:
            continue
        p = []
        x = t
        while pred[x] is not None:
            u, lab, act = pred[x]
            p.append((u, lab, act, x))
            x = u
        p.reverse()
        out[t] = p
    return out


# ------------------------------------------------------------------ parallel replay
_JOB = {}


def _replay_chunk(idxs):
    prop, traces, mk, post = _JOB["prop"], _JOB["traces"], _JOB["mk"], _JOB["post"]
    n, divs = replay.replay(prop, [traces[i] for i in idxs], mk, stop_after=10 ** 9)
    return n, [plain(post(d)) for d in divs]


def plain(d):
    j = d.to_json()
    return {"prop": d.prop, "kind": d.kind, "action": d.action, "where": d.where, "detail": d.detail,
            "steps": j["steps"], "expected": j["expected"], "actual": j["actual"], "extra": j["extra"]}


def unplain(p):
    return Divergence(p["prop"], p["kind"], p["action"], p["where"], p["detail"], steps=p["steps"],
                      expected=p["expected"], actual=p["actual"], extra=p["extra"])


def preplay(prop, traces, mk, procs=None, post=None):
    """replay.replay over forked worker processes (the traces and the adapter factory are inherited, not pickled);
    post(divergence) may rewrite the signature of a divergence (classification of the recorded deviation)"""
    import multiprocessing as mp
    if not traces:
        return 0, []
    procs = min(procs or env.NCPU, max(1, len(traces) // 8))
    _JOB.update(prop=prop, traces=traces, mk=mk, post=post or reclassify)
    try:
        if procs <= 1:
            res = [_replay_chunk(list(range(len(traces))))]
        else:
            chunks = [list(range(i, len(traces), procs * 4)) for i in range(procs * 4)]
            with mp.get_context("fork").Pool(procs) as pool:
                res = pool.map(_replay_chunk, [c for c in chunks if c])
    finally:
        _JOB.clear()
    return sum(r[0] for r in res), [unplain(p) for r in res for p in r[1]]


def _mk_rules(init):
    no_fsync()
    return RulesAdapter(init)


# ------------------------------------------------------------------ configurations
def cfg_text(rulesets, sels, periods, maxtime, maxenv, maxq=2, restart=True, serial=False, history=False, props=()):
    def s(x):
        return "{" + ", ".join(x) + "}"
    rs = s(s('"%s"' % r for r in sorted(x)) for x in rulesets)
    t = ("SPECIFICATION Spec\nCONSTANTS\n  RuleSets = %s\n  Sels = %s\n  Periods = %s\n  MaxTime = %d\n  MaxEnv = %d\n"
         "  MaxQ = %d\n  MaxPush = 9\n  Restart = %s\n  Serial = %s\n  History = %s\n" % (
             rs, s('"%s"' % x for x in sels), s(str(p) for p in periods), maxtime, maxenv, maxq,
             str(restart).upper(), str(serial).upper(), str(history).upper()))
    for p in props:
        t += ("PROPERTY " if p in ("QueuesEmptied", "OnlyLoggerWrites") else "INVARIANT ") + p + "\n"
    return t


PROPS = ("TypeOK", "OnceOne", "AlwaysPerRun", "NeverNothing", "UpdateFirstThenEveryUpdate", "ChangeFirstThenOnDiff",
         "StreakFifoOnce", "DeckFifoOnce", "TimesAreRunTimes", "OneHeaderPerFile", "QueuesEmptied", "OnlyLoggerWrites")
ACTIONS = ["Write", "PushS", "PushD", "Bid", "Slot", "Tick"]


def model_error(ctx, prop, res, what):
    ctx.diverge(Divergence(prop, "model", res.error_name or res.error, what, "specification property violated in the model",
                           steps=[{"action": a, "state": s} for a, s in res.trace]))


# ------------------------------------------------------------------ binding B: random histories of the real logger
def random_history(rng, root):
    logs = set(rng.sample(RULE_ORDER, rng.choice([1, 2, 3, 7, 7, 7])))
    sel = rng.choice(["all", "one"])
    period = rng.choice([0, 1, 1, 2, 3])
    w = LogWorld(logs, sel, period, root, reuse=(next(_count) % 8 != 0))
    G = w.G
    evs = [{"ev": "Init", "logs": sorted(logs), "sel": sel, "period": period}]
    env_choices = []
    if logs & set(VALUE_RULES):
        env_choices += ["W"] * 6
    if "streak" in logs:
        env_choices += ["S"] * 2
    if "deck" in logs:
        env_choices += ["D"] * 2
    env_choices += ["B"]
    nq = {"S": 0, "D": 0}
    try:
        last = rng.randint(2, 9)
        for t in range(last + 1):
            for phase in ("pre", "post"):
                for _ in range(rng.choice([0, 0, 1, 1, 2, 3])):
                    c = rng.choice(env_choices)
                    if c == "W":
                        s = rng.choice(["a", "a", "b"])
                        f = rng.choice(["x", "y"]) if s == "a" else "x"
                        v = rng.randint(0, 1)
                        w.write(s, f, v)
                        evs.append({"ev": "Write", "s": s, "f": f, "v": v})
                    elif c in ("S", "D"):
                        v = rng.randint(0, 1) if c == "S" else rng.choice([0, 1, BLANK])
                        (w.push_s if c == "S" else w.push_d)(v)
                        evs.append({"ev": "PushS" if c == "S" else "PushD", "v": v})
                    else:
                        lg = w.logger
                        if lg.desire != G.STOP and rng.random() < 0.5:
                            w.bid("stop")
                            evs.append({"ev": "Bid", "c": "stop"})
                        elif lg.desire == G.STOP and lg.status == G.STOPPED:
                            w.bid("start")
                            evs.append({"ev": "Bid", "c": "start"})
                if phase == "pre":
                    w.slot()
                    p = w.project()
                    bad = [r for r, es in p["out"].items() if not wellformed(es)]
                    if bad:
                        return evs, "log %s wrote a malformed line: %r" % (bad[0], p["out"][bad[0]])
                    evs.append({"ev": "Slot", "status": p["status"], "desire": p["desire"], "sq": list(p["sq"]), "dq": list(p["dq"]),
                                "out": {r: [{"h": e["h"], "t": e["t"], "v": list(e["v"])} for e in es] for r, es in p["out"].items()}})
            if t < last:
                w.tick()
                evs.append({"ev": "Tick"})
    finally:
        w.close()
    return evs, None


def validate_tolerant(module, cfg, spec_dir, traces, batch=400, procs=None):
    """like trace.validate, but also returns the <<"KF", tid, ix>> marks printed by a tolerant trace specification:
    (accepted set, {idx: event index of the first mark}, {idx: rejected prefix length}, states, generated, model_errors)"""
    from concurrent.futures import ThreadPoolExecutor
    procs = procs or env.NCPU
    batches = [list(range(i, min(i + batch, len(traces)))) for i in range(0, len(traces), batch)]

    def work(b):
        return b, trace._run_batch(module, cfg, spec_dir, traces, b, False, module, 1, False, TLC_TIMEOUT)

    with ThreadPoolExecutor(max_workers=procs) as ex:
        results = list(ex.map(work, batches))
    accepted, marks, rejected, errors = set(), {}, {}, []
    states = generated = 0
    suspects = []
    for b, res in results:
        states += res.distinct
        generated += res.generated
        if res.error:
            suspects.extend(b)
            continue
        vals = tlc.printed_values(res.out)
        acc = {v[1] for v in vals if len(v) == 2 and v[0] == "ACCEPT"}
        for v in vals:
            if len(v) == 3 and v[0] == "KF":
                i = b[v[1] - 1]
                marks[i] = min(marks.get(i, v[2]), v[2])
        for k, i in enumerate(b):
            if (k + 1) in acc:
                accepted.add(i)
            else:
                suspects.append(i)

    def single(i):
        return i, trace._run_batch(module, cfg, spec_dir, traces, [i], True, module + "-diag", 1, False, TLC_TIMEOUT)

    with ThreadPoolExecutor(max_workers=procs) as ex:
        for i, res in ex.map(single, suspects[:24]):
            vals = tlc.printed_values(res.out)
            if res.error:
                errors.append((i, res.error, res.error_name, res.trace))
                continue
            if any(len(v) == 2 and v[0] == "ACCEPT" for v in vals):
                accepted.add(i)
                for v in vals:
                    if len(v) == 3 and v[0] == "KF":
                        marks[i] = min(marks.get(i, v[2]), v[2])
                continue
            at = [v[2] for v in vals if len(v) == 3 and v[0] == "AT"]
            rejected[i] = (max(at) - 1) if at else 0
    for i in suspects[24:]:
        rejected[i] = -1
    return accepted, marks, rejected, states, generated, errors


TRACE_CFG = ('SPECIFICATION TraceSpec\nCONSTANTS\n  RuleSets = {}\n  Sels = {}\n  Periods = {}\n  MaxTime = 1000\n  MaxEnv = 1000\n'
             '  MaxQ = 1000\n  MaxPush = 9\n  Restart = TRUE\n  Serial = FALSE\n  History = FALSE\n  Tolerate = TRUE\n'
             'CONSTRAINT TraceOK\nINVARIANT TypeOK\nCHECK_DEADLOCK FALSE\n')


def _hist_chunk(a):
    seed, n, tag = a
    no_fsync()
    rng = random.Random(seed)
    out = []
    for _ in range(n):
        out.append(random_history(rng, new_root(tag)))
    return out


def random_histories(seed, n, tag, procs=None):
    import multiprocessing as mp
    ioflo()
    procs = min(procs or env.NCPU, max(1, n // 50))
    per = [n // procs + (1 if i < n % procs else 0) for i in range(procs)]
    jobs = [(seed * 1000 + i, per[i], tag) for i in range(procs) if per[i]]
    if procs <= 1:
        return _hist_chunk(jobs[0])
    with mp.get_context("fork").Pool(procs) as pool:
        res = pool.map(_hist_chunk, jobs)
    return [h for r in res for h in r]


class Laps:
    """wall time per phase of a check (evidence only)"""

    def __init__(self):
        self.t = time.time()
        self.d = {}

    def lap(self, name):
        now = time.time()
        self.d[name] = round(self.d.get(name, 0) + now - self.t, 1)
        self.t = now


# ------------------------------------------------------------------ the check
def run_c22(ctx):
    from concurrent.futures import ThreadPoolExecutor
    import warnings
    warnings.filterwarnings("ignore", message=".*multi-threaded.*fork.*")
    ctx.rule = ("A: complete state graph of LogRules.tla for every single-rule logger x field selection x period (environment "
                "writes / pushes / bids before and after the logger's turn, restarts), every edge replayed on a real Logger "
                "driven through its runner, comparing what each log appended to its file after every step; -simulate "
                "behaviours of a logger with all seven logs replayed likewise; B: seeded random histories of the real logger "
                "validated by TLC against LogRulesTrace.tla; distinct = graph edges replayed + simulated behaviours + accepted traces")
    ctx.assume("TLC, the TLA+ value parser, the log file parser and the skedder emulation (send(desire) when retime <= stamp) "
               "of vf/families/logrules.py are trusted; os.fsync is a no-op inside ioflo.base.logging during this check")
    ioflo()
    laps = Laps()
    singles = [{r} for r in RULE_ORDER]
    allrules = [set(RULE_ORDER)]
    ncpu = env.NCPU
    periods = [0, 2]
    gtime, genv = ctx.pick(2, 3), ctx.pick(1, 2)
    mtime = ctx.pick(2, 3)
    # (periods 0 and 1 tick give the same behaviours in the model; the real logger gets period 0.0 resp. 0.5 s in the replays)
    mc = cfg_text([set(VALUE_RULES), {"streak", "deck"}], ["all", "one"], [0, 2], mtime, 1, restart=not ctx.quick, history=True,
                  props=PROPS)
    gcfg = cfg_text(singles, ["all", "one"], periods, gtime, genv)
    dot = env.subdir("c22") + "/rules.dot"
    nsim = ctx.pick(150, 2000)
    pref = env.subdir("c22sim") + "/sim"
    scfg = cfg_text(allrules, ["all", "one"], [0, 1, 2], ctx.pick(5, 8), 2)
    ntr = ctx.pick(600, 6000)
    # the TLC runs do not depend on each other: they run side by side while the real logger records its random histories
    with ThreadPoolExecutor(max_workers=4) as tp:
        f_mc = tp.submit(tlc.run, "LogRules", mc, spec_dir=SPEC_DIR, deadlock=False, tag="c22mc", workers=max(1, ncpu // 2), timeout=TLC_TIMEOUT)
        f_g = tp.submit(tlc.run, "LogRules", gcfg, spec_dir=SPEC_DIR, deadlock=False, dump_dot=dot, tag="c22g", coverage=False,
                        workers=max(1, ncpu // 4), timeout=TLC_TIMEOUT)
        f_sim = tp.submit(tlc.run, "LogRules", scfg, spec_dir=SPEC_DIR, deadlock=False, workers=1,
                          simulate={"num": nsim, "depth": ctx.pick(50, 90), "file": pref}, seed=ctx.seed + 1, tag="c22sim", timeout=TLC_TIMEOUT)
        # 4a. binding B: record
        hs = random_histories(ctx.seed, ntr, "c22b", procs=max(1, ncpu // 2))
        trs = []
        for evs, bad in hs:
            if bad:
                ctx.diverge(Divergence("C22", "rejected", "Slot", "trace:malformed", bad, steps=evs))
            else:
                trs.append(evs)
        laps.lap("record-histories")
        f_val = tp.submit(validate_tolerant, "LogRulesTrace", TRACE_CFG, SPEC_DIR, trs, batch=ctx.pick(150, 500),
                          procs=max(1, ncpu // 2))
        # 2. binding A on the complete graph of the single-rule loggers
        res = f_g.result()
        laps.lap("graph-tlc")
        ctx.add_model(res, "LogRules/graph", {"MaxTime": gtime, "MaxEnv": genv, "Periods": periods})
        g = graph.load_dot(dot)
        os.unlink(dot)
        g2, aff = split_affected(g)
        paths = graph.edge_cover(g2, max_len=60)
        traces = replay.graph_paths_to_traces(g2, paths)
        laps.lap("graph-cover")
        n, divs = preplay("C22", traces, _mk_rules)
        ctx.diverge(divs)
        covered = graph.covered_edges(paths)
        ctx.add_validated(len(traces), {"path": [s[0] for s in traces[len(traces) // 2]][:40]})
        # the edges that exercise the recorded deviation, each at the end of a shortest path that avoids the others
        pre = paths_to(g2, {s for s, _ in aff})
        atr = [pre[s] + [(s, lab, act, dst)] for s, (lab, act, dst) in aff if s in pre]
        n2, divs2 = preplay("C22", replay.graph_paths_to_traces(g, atr), _mk_rules)
        ctx.diverge(divs2)
        ctx.add_validated(len(atr))
        laps.lap("graph-replay")
        # 3. a logger with all seven logs: simulated behaviours
        res = f_sim.result()
        ctx.add_model(res, "LogRules/simulate", {"num": nsim})
        sims = replay.load_sim_traces(pref)
        if len(sims) < nsim // 2:      # fewer behaviour files than asked: simulate once more and go on with what there is
            res = tlc.run("LogRules", scfg, spec_dir=SPEC_DIR, deadlock=False, workers=1, seed=ctx.seed + 1001, tag="c22simb",
                          simulate={"num": nsim, "depth": ctx.pick(50, 90), "file": pref + "b"}, timeout=TLC_TIMEOUT)
            ctx.add_model(res, "LogRules/simulate-again", {"num": nsim})
            sims = replay.load_sim_traces(pref)
            if not sims:
                raise tlc.TlcError("simulation produced no behaviour at all")
            if len(sims) < nsim // 2:
                ctx.note("simulation yielded %d behaviours instead of %d (went on with them)" % (len(sims), nsim))
        shutil.rmtree(os.path.dirname(pref), ignore_errors=True)
        n3, divs3 = preplay("C22", sims, _mk_rules)
        ctx.diverge(divs3)
        ctx.add_validated(len(sims), {"simulated": [s[0] for s in sims[0]][:40]})
        laps.lap("simulate-replay")
        # 1. the statement of the property on the model (history kept)
        res = f_mc.result()
        laps.lap("model-wait")
        ctx.add_model(res, "LogRules/history", {"MaxTime": mtime, "MaxEnv": 1, "Periods": periods})
        if not res.ok:
            model_error(ctx, "C22", res, "LogRules")
        else:
            tlc.require_coverage(res, ACTIONS, "LogRules/history")
        # 4b. binding B: verdicts
        acc, marks, rej, states, gen, errs = f_val.result()
        laps.lap("validate-wait")
    ctx.states += states
    ctx.transitions += gen
    clean = len(acc) - len([i for i in marks if i in acc])
    ctx.add_validated(clean, {"trace": trs[0][:10]})
    for i, at in sorted(marks.items())[:5]:
        ctx.diverge(Divergence("C22", "rejected", "Slot", "out.update", KF_DETAIL + " (recorded execution, event %d)" % at,
                               steps=trs[i][:at]))
    for i, pref_len in sorted(rej.items())[:10]:
        ev = trs[i][pref_len] if 0 <= pref_len < len(trs[i]) else {}
        ctx.diverge(Divergence("C22", "rejected", ev.get("ev", "?"), "trace", "recorded execution of the real logger is not a behaviour "
                               "of LogRules.tla at event %d: %s" % (pref_len + 1, json.dumps(ev, sort_keys=True)[:300]), steps=trs[i][:pref_len + 1]))
    for (i, err, name, tr) in errs[:5]:
        ctx.diverge(Divergence("C22", "rejected", name or err, "trace-invariant", "invariant %s violated on a recorded execution" % name, steps=trs[i]))
    ctx.exhaustive = (covered == g2.nedges)
    ctx.extra.update({"graph_edges": g.nedges, "edges_replayed": covered, "edges_exercising_known_finding": len(aff),
                      "steps_replayed": n + n2 + n3, "simulated_behaviours": len(sims), "random_traces": len(trs),
                      "random_traces_accepted_clean": clean, "random_traces_showing_known_finding": len(marks),
                      "phase_wall_s": laps.d, "distinct_nontrivial": covered + len(sims) + clean,
                      "evaluations": n + n2 + n3 + sum(len(t) for t in trs)})


PROPERTIES = {"C22": run_c22}
