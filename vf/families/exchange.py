"""C38 - exchanges time out and retransmit on schedule (specs/proto/Exchange.tla, ExchangeTrace.tla).

A. TLC explores Exchange.tla over the whole settings grid (timeout, redo each "not given" or 0..n quanta; the class
   defaults stock and overridden in a subclass) with the clock advanced by an environment action, checks the schedule
   properties and dumps the complete graph; every edge is replayed on a real ioflo Exchanger bound to a stub stack that
   records transmit calls and whose Stamper is the clock.
B. Seeded random settings and advance schedules are run on real exchangers, logged, and validated by TLC against
   ExchangeTrace.tla.
Time quantum: 0.5 s (all stamps and durations are exact binary floats).
"""
import random
from concurrent.futures import ThreadPoolExecutor

from .. import env, graph, replay, tlc, trace
from ..replay import Divergence

SPEC_DIR = env.SPECS + "/proto"
Q = 0.5            # seconds per quantum
INVS = ["SettingsResolved", "LatestIsLast", "RedoWhenDue", "FailsAtTimeout", "ZeroNeverExpires", "FailedIsDone"]
APROPS = ["NoEarlyRedo", "OncePerPoll", "FailsOnlyAtTimeout"]


def _set(xs):
    return "{" + ", ".join(str(x) for x in xs) + "}"


def cfg_text(settings, deft, defr, maxtime, maxstarts, steps, spec="Spec", props=True):
    s = ("SPECIFICATION %s\nCONSTANTS\n  Settings = %s\n  DefTimeout = %d\n  DefRedo = %d\n  MaxTime = %d\n  MaxStarts = %d\n"
         "  Steps = %s\n  SerialMsgs = %s\n" % (spec, _set(settings), deft, defr, maxtime, maxstarts, _set(steps),
                                                "TRUE" if spec == "Spec" else "FALSE"))
    if props:
        s += "".join("INVARIANT %s\n" % p for p in INVS) + "".join("PROPERTY %s\n" % p for p in APROPS)
    return s


class StubDevice:
    name = "peer"
    ha = "peerha"
    uid = 2


class StubStack:
    """stands in for the interface stack of an exchange: a name, a stamper (the clock) and the transmit queue"""

    def __init__(self, stamper):
        self.name = "stub"
        self.stamper = stamper
        self.log = []           # everything the exchange asked the stack to transmit, in order

    def transmit(self, pkt, ha=None):
        self.log.append(pkt)

    def message(self, msg, remote=None):
        self.log.append(msg)


def _q(x):
    """seconds -> quanta when exact"""
    v = x / Q
    return int(v) if v == int(v) else x


def setting(s):
    """spec setting record -> constructor argument"""
    return None if s["k"] == "none" else s["v"] * Q


class ExchangeAdapter:
    def __init__(self, tset, rset, deft, defr):
        env.use_repo()
        from ioflo.aid.timing import Stamper
        from ioflo.aio.proto import exchanging
        base = exchanging.Exchanger
        if (deft * Q, defr * Q) == (base.Timeout, base.RedoTimeout):
            cls = base
        else:
            # the documented way to change the defaults: class attributes of a subclass
            cls = type("Exchanger%d_%d" % (deft, defr), (base,), {"Timeout": deft * Q, "RedoTimeout": defr * Q})
        self.stamper = Stamper(stamp=0.0)
        self.stack = StubStack(self.stamper)
        kw = {}
        if setting(tset) is not None:
            kw["timeout"] = setting(tset)
        if setting(rset) is not None:
            kw["redoTimeout"] = setting(rset)
        self.x = cls(stack=self.stack, device=StubDevice(), **kw)
        self.base = 0           # transmissions before the latest start
        self.ignored = 0        # retransmissions under redo = 0 since the latest start (not specified either way)
        self.started = False

    def project(self, res=None):
        x = self.x
        log = self.stack.log
        out = {"timeout": _q(x.timeout), "redo": _q(x.redoTimeout), "now": _q(self.stamper.stamp),
               "done": bool(x.done), "failed": bool(x.failed), "started": self.started,
               "sent": len(log) - self.base - self.ignored,
               "last": (log[-1] if log else 0), "tx": (x.tx if x.tx is not None else 0)}
        assert isinstance(x.done, bool) and isinstance(x.failed, bool)
        if res is not None:
            out["res"] = res
        return out

    def call(self, name, args):
        x = self.x
        if name == "Advance":
            self.stamper.advance(args[0] * Q)
            return "advance"
        if name == "Start":
            self.base = len(self.stack.log)
            self.ignored = 0
            self.started = True
            x.start(args[0])
            return "start"
        if name == "Send":
            x.send(args[0])
            return "send"
        if name == "Transmit":
            x.transmit(args[0])
            return "transmit"
        if name == "Process":
            n, failed = len(self.stack.log), x.failed
            x.process()
            more = len(self.stack.log) - n
            if x.failed and not failed:
                return "fail" if more == 0 else "fail+%d" % more
            if more and x.redoTimeout == 0:
                self.ignored += more
                return "idle"
            return "idle" if more == 0 else ("redo" if more == 1 else "redo*%d" % more)
        if name == "Finish":
            x.finish()
            return "finish"
        raise NotImplementedError(name)

    def step(self, name, args, expected):
        return self.project(self.call(name, args))


def _rec(s):
    return {"k": "none"} if s is None else {"k": "q", "v": s}


def check_constructors(ctx, grid):
    """SettingsResolved for the three exchange classes: every (timeout, redo) combination of the model's initial
    states constructs, and the attributes are the given values or the class's own defaults"""
    env.use_repo()
    from ioflo.aid.timing import Stamper
    from ioflo.aio.proto import exchanging
    n = 0
    for cname in ("Exchange", "Exchanger", "Exchangent"):
        cls = getattr(exchanging, cname)
        for (tset, rset) in grid:
            kw = {}
            if setting(tset) is not None:
                kw["timeout"] = setting(tset)
            if setting(rset) is not None:
                kw["redoTimeout"] = setting(rset)
            n += 1
            try:
                x = cls(stack=StubStack(Stamper(stamp=0.0)), device=StubDevice(), **kw)
            except Exception as ex:
                ctx.diverge(Divergence("C38", "exception", "Create", replay.innermost_ioflo_frame(ex.__traceback__),
                                       "%s: %s" % (type(ex).__name__, str(ex)[:200]),
                                       steps=[{"action": "Create", "class": cname, "kwargs": kw}]))
                continue
            want = (kw.get("timeout", cls.Timeout), kw.get("redoTimeout", cls.RedoTimeout))
            got = (x.timeout, x.redoTimeout)
            if want != got or x.done or x.failed:
                ctx.diverge(Divergence("C38", "table-mismatch", "Create", cname,
                                       "constructed with %r: expected (timeout, redoTimeout) %r got %r" % (kw, want, got),
                                       steps=[{"action": "Create", "class": cname, "kwargs": kw}], expected=want, actual=got))
    return n


def _random_trace(rng, deft, defr, nsteps):
    ts = rng.choice([None, 0, 1, 2, 3, 5, 8, 13])
    rs = rng.choice([None, 0, 1, 2, 3, 4, 6])
    try:
        ad = ExchangeAdapter(_rec(ts), _rec(rs), deft, defr)
    except Exception as ex:
        return [{"ev": "EXCEPTION", "op": "Init", "where": replay.innermost_ioflo_frame(ex.__traceback__),
                 "detail": "%s: %s" % (type(ex).__name__, str(ex)[:200]), "tset": _rec(ts), "rset": _rec(rs)}]
    p = ad.project()
    evs = [{"ev": "Init", "tset": _rec(ts), "rset": _rec(rs), "timeout": p["timeout"], "redo": p["redo"]}]
    m = 0

    def log(name, extra, res):
        p = ad.project()
        e = {"ev": name, "tx": p["tx"], "done": p["done"], "failed": p["failed"], "sent": p["sent"], "last": p["last"], "res": res}
        e.update(extra)
        evs.append(e)

    running = False
    fresh = False       # no time passed since the current redo interval began (start or retransmission)
    op = "?"
    try:
        for _ in range(nsteps):
            c = rng.random()
            if not running:
                if c < 0.3:
                    op = "Advance"
                    dt = rng.choice([1, 1, 2, 3])
                    ad.call(op, (dt,))
                    evs.append({"ev": op, "dt": dt})
                else:
                    op = "Start"
                    m += 1
                    log(op, {"m": m}, ad.call(op, (m,)))
                    running = True
                    fresh = True
                continue
            if fresh and rng.random() < 0.35:
                # a further message of the running exchange, through send() or directly through transmit()
                op = rng.choice(["Send", "Transmit"])
                m += 1
                log(op, {"m": m}, ad.call(op, (m,)))
                continue
            if c < 0.45:
                op = "Advance"
                dt = rng.choice([1, 1, 1, 2, 2, 3, 5, 7])
                ad.call(op, (dt,))
                evs.append({"ev": op, "dt": dt})
                fresh = False
            elif c < 0.95:
                op = "Process"
                r = ad.call(op, ())
                log(op, {}, r)
                if r == "redo":
                    fresh = True
            else:
                op = "Finish"
                log(op, {}, ad.call(op, ()))
            running = not ad.x.done
    except Exception as ex:
        evs.append({"ev": "EXCEPTION", "op": op, "where": replay.innermost_ioflo_frame(ex.__traceback__),
                    "detail": "%s: %s" % (type(ex).__name__, str(ex)[:200])})
    return evs


def run_c38(ctx):
    ctx.rule = ("A: complete state graph of Exchange.tla over the settings grid {not given, 0..n quanta}^2 x class defaults "
                "{stock, overridden}, clock advanced by an environment action, every edge replayed on a real Exchanger with "
                "a recording stub stack; B: seeded random settings and advance schedules validated by TLC against "
                "ExchangeTrace.tla; distinct = graph edges + accepted traces")
    ctx.assume("time quantum 0.5 s, so every stamp and duration is an exact float; retransmissions made while redo = 0 are "
               "not counted (documentation silent); TLC, the value parser, the stub stack and the projection are trusted")
    settings = ctx.pick([0, 1, 2, 3], [0, 1, 2, 3, 4])
    maxtime = ctx.pick(6, 12)
    steps = ctx.pick([1, 2], [1, 2, 3])
    maxstarts = ctx.pick(2, 3)
    defaults = [(4, 1), (3, 2)]         # stock Exchanger (2.0 s, 0.5 s) and a subclass overriding both
    # (clock bound, starts) per defaults: restarts are explored more deeply under the stock defaults
    bounds = {defaults[0]: ctx.pick((6, 2), (9, 3)), defaults[1]: ctx.pick((6, 1), (10, 2))}
    total = cov = 0
    def model(d):
        dot = env.subdir("c38") + "/def%d_%d.dot" % d
        return dot, tlc.run("Exchange", cfg_text(settings, d[0], d[1], bounds[d][0], bounds[d][1], steps), spec_dir=SPEC_DIR, dump_dot=dot,
                            deadlock=False, tag="c38def%d_%d" % d, workers=max(1, env.NCPU // 2))

    with ThreadPoolExecutor(max_workers=2) as ex:
        ran = list(ex.map(model, defaults))
    for (deft, defr), (dot, res) in zip(defaults, ran):
        label = "def%d_%d" % (deft, defr)
        ctx.add_model(res, "Exchange/" + label, {"Settings": settings, "DefTimeout": deft, "DefRedo": defr, "MaxTime": bounds[(deft, defr)][0],
                                                 "MaxStarts": bounds[(deft, defr)][1], "Steps": steps})
        if not res.ok:
            ctx.diverge(Divergence("C38", "model", res.error_name or res.error, "Exchange/" + label,
                                   "specification property violated in the model",
                                   steps=[{"action": a, "state": s} for a, s in res.trace]))
            continue
        tlc.require_coverage(res, ["Advance", "Start", "Send", "Transmit", "Process", "Finish"], "Exchange/" + label)
        g = graph.load_dot(dot)
        outcomes = {s["res"] for s in g.states.values()}
        if not {"idle", "redo", "fail", "finish", "start", "send", "transmit"} <= outcomes:
            raise tlc.TlcError("vacuous graph %s: outcomes %s" % (label, sorted(outcomes)))
        if not any(s["res"] == "redo" and s["last"] % 10 == 2 for s in g.states.values()):
            raise tlc.TlcError("vacuous graph %s: no retransmission of a directly transmitted message" % label)
        if not any(s["res"] == "fail" and s["sent"] > 1 for s in g.states.values()):
            raise tlc.TlcError("vacuous graph %s: no failure after a retransmission" % label)
        if (deft, defr) == defaults[0]:
            grid = sorted({(replay.norm(g.states[i]["tset"]), replay.norm(g.states[i]["rset"])) for i in g.inits}, key=repr)
            ctx.extra["constructor_cases"] = check_constructors(ctx, grid)
        paths = graph.edge_cover(g, max_len=60)
        traces = replay.graph_paths_to_traces(g, paths)
        n, divs = replay.replay("C38", traces, lambda init, d=(deft, defr): ExchangeAdapter(init["tset"], init["rset"], d[0], d[1]))
        for d in divs:
            d.extra["defaults"] = label
        ctx.diverge(divs)
        total += g.nedges
        cov += graph.covered_edges(paths)
        ctx.add_validated(len(traces), {"defaults": label, "init": {k: traces[0][0][2][k] for k in ("tset", "rset")},
                                        "path": [s[0] for s in traces[len(traces) // 2]][:25]})
    # binding B
    rng = random.Random(ctx.seed)
    ntr = ctx.pick(400, 6000)
    acc = nev = 0
    seen = {}
    for (deft, defr) in defaults:
        trs = [_random_trace(rng, deft, defr, rng.randint(20, 70)) for _ in range(ntr // 2)]
        for t in [t for t in trs if t[-1]["ev"] == "EXCEPTION"][:10]:
            e = t[-1]
            ctx.diverge(Divergence("C38", "exception", e["op"], e["where"], e["detail"], steps=t))
        trs = [t for t in trs if t[-1]["ev"] != "EXCEPTION"]
        if not trs:
            continue
        cfg = cfg_text([0], deft, defr, 100000, 100000, [1], spec="TraceSpec") + "CONSTRAINT TraceOK\nCHECK_DEADLOCK FALSE\n"
        out = trace.validate("ExchangeTrace", cfg, SPEC_DIR, trs, batch=250)
        ctx.states += out.states
        ctx.transitions += out.generated
        acc += len(out.accepted)
        nev += sum(len(t) - 1 for t in trs)
        for t in trs:
            for e in t[1:]:
                if "res" in e:
                    seen[e["res"]] = seen.get(e["res"], 0) + 1
        ctx.add_validated(len(out.accepted), {"defaults": [deft, defr], "trace": trs[0][:10]})
        for i, pref in sorted(out.rejected.items())[:10]:
            ev = trs[i][pref] if 0 <= pref < len(trs[i]) else {}
            ctx.diverge(Divergence("C38", "rejected", ev.get("ev", "?"), "trace",
                                   "recorded history is not a behaviour of Exchange.tla at event %d: %r (settings %r %r)" % (
                                       pref + 1, ev, trs[i][0].get("tset"), trs[i][0].get("rset")),
                                   steps=trs[i][:pref + 1]))
        for (i, err, name, tr) in out.model_errors[:5]:
            ctx.diverge(Divergence("C38", "rejected", name or err, "trace-invariant",
                                   "invariant %s violated on a recorded history" % name, steps=trs[i]))
    if acc and not ctx.divs and not {"idle", "redo", "fail", "finish", "start", "send", "transmit"} <= set(seen):
        raise tlc.TlcError("vacuous random histories: outcomes %s" % sorted(seen))
    ctx.exhaustive = (cov == total and total > 0)
    ctx.extra.update({"graph_edges": total, "edges_replayed": cov, "random_traces": ntr, "random_traces_accepted": acc,
                      "random_events": nev, "random_outcomes": seen, "distinct_nontrivial": cov + acc, "evaluations": cov + nev})


PROPERTIES = {"C38": run_c38}
