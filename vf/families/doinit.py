"""X-doinit - how the io data inits of a `do` behaviour are resolved, and the life cycle of DoerLapse / DoerSince
(specs/doinit/DoInit.tla, specs/doinit/DoLapse.tla; documentation: extras.d/doinit.md).

Part 1, binding C: TLC enumerates the cases of DoInit.tla (form of the registry Ioinits entry x class inode x via x per x
for x framer inode x pre-existing content of the share x Doer / DoerParam), checks the algebra of the documented rules
(owner overwrites, anybody else only fills in, per over for over registry, via over class inode, ...) and writes the table
(case -> outcome, inode node, binding, resolved share / node, fields of the share).  Every row is replayed: a Doer class
with exactly that Ioinits entry is registered (class attribute, doify(ioinits=..) or doify(parametric=..)), a one-act
FloScript is printed and built with the real Builder, and the built Act / Actor / Store are compared with the row.

Part 2, binding A: the complete state graph of DoLapse.tla (store stamp and command share are environment actions) is
replayed edge by edge on subclasses of the real DoerLapse / DoerSince (and the deeding aliases) inside a running framer
driven through its runner generator the way the Skedder does.
"""
import json
import multiprocessing
import os
import random
import time

from .. import env, graph, replay, tlc
from ..replay import Divergence
from ..tlc import TlcError

PROP = "X-doinit"
SPEC_DIR = env.SPECS + "/doinit"

# ------------------------------------------------------------------------------------------------------------------
# constants of the two tiers
# ------------------------------------------------------------------------------------------------------------------

IVALS = ["absent", "five", "zero", "false", "str", "estr", "none", "emap", "list", "elist", "tuple", "mapxy", "mapvalue", "mapxvalue"]
QUICK = {"Pars": [False, True], "PPars": [False], "VIvals": IVALS, "VPaths": ["nopath", "rel"], "VOvers": ["none", "per"],
         "PCis": ["none", "dot"], "PVias": ["none", "rel", "me"], "PFis": ["none", "abs"],
         "PPers": ["none", "rel"], "PFors": ["none", "has", "lacks", "relsrc"],
         "PPaths": ["key", "rel", "abs", "node"]}
THOROUGH = {"Pars": [False, True], "PPars": [False, True], "VIvals": IVALS, "VPaths": ["nopath", "key", "rel", "abs", "me"],
            "VOvers": ["none", "per", "for"],
            "PCis": ["none", "rel", "dot", "abs", "me"], "PVias": ["none", "rel", "dot", "abs", "me"], "PFis": ["none", "abs"],
            "PPers": ["none", "rel", "abs", "me"], "PFors": ["none", "has", "hasabs", "lacks", "all", "relsrc"],
            "PPaths": ["key", "rel", "rel2", "abs", "me", "framer", "node", "absnode"]}
INVARIANTS = ["OwnerOverwrites", "NonOwnerPreserves", "NoIvalNoChange", "OnlyThose", "NodeIgnoresValue", "AbsoluteIgnoresInode",
              "RelativeUnderInode", "ViaWins", "PerWins", "ForWins", "OverrideKeepsValue", "WellFormed", "SidePrecedence"]


def cfg_init(sets):
    def s(xs):
        return "{" + ", ".join('"%s"' % x if isinstance(x, str) else ("TRUE" if x else "FALSE") for x in xs) + "}"
    lines = ["SPECIFICATION Spec", "CONSTANTS"]
    for k in ("Pars", "PPars", "VIvals", "VPaths", "VOvers", "PCis", "PVias", "PFis", "PPers", "PFors", "PPaths"):
        lines.append("  %s = %s" % (k, s(sets[k])))
    lines += ["INVARIANT " + i for i in INVARIANTS]
    lines.append("CHECK_DEADLOCK FALSE")
    return "\n".join(lines) + "\n"


LAPSE_KINDS = ["lapse", "lapsereset", "lapseenter", "lapseover", "since"]


def cfg_lapse(maxt):
    return ("SPECIFICATION Spec\nCONSTANTS\n  MaxT = %d\n  Kinds = {%s}\n" % (maxt, ", ".join('"%s"' % k for k in LAPSE_KINDS))
            + "".join("INVARIANT %s\n" % i for i in ("TypeOK", "NonNegative", "StampOfEvaluation", "RestartFirst", "ResetHidesGap", "SinceIsPlain"))
            + "".join("PROPERTY %s\n" % p for p in ("RestartOnEntry", "LapseIsGap", "Quiet")) + "CHECK_DEADLOCK FALSE\n")


# ------------------------------------------------------------------------------------------------------------------
# part 1: values, classes, scripts
# ------------------------------------------------------------------------------------------------------------------

SCALARS = {"five": 5, "zero": 0, "false": False, "str": "s", "estr": "", "none": None, "one": 1, "two": 2, "seven": 7, "nine": 9}


def ival_object(iv):
    """a fresh Python object for the ival item of a registry entry"""
    from ioflo.aid.odicting import odict
    if iv in SCALARS:
        return SCALARS[iv]
    return {"emap": lambda: {}, "list": lambda: [1, 2], "elist": lambda: [], "tuple": lambda: (1, 2),
            "mapxy": lambda: odict([("x", 1), ("y", 2)]), "mapvalue": lambda: odict([("value", 7)]),
            "mapxvalue": lambda: odict([("x", 1), ("value", 7)])}[iv]()


def token_value(tok):
    if tok in SCALARS:
        return SCALARS[tok]
    return {"emap": {}, "list": [1, 2], "elist": [], "tuple": (1, 2)}[tok]


def same(a, b):
    """equal and of the same type (False is not 0, a tuple is not a list)"""
    return type(a) is type(b) and a == b


def text(segs):
    return ".".join(segs)


def entry_object(R, texts):
    """the registry entry for the key as a Python object; (present, object)"""
    from ioflo.aid.odicting import odict
    t = R["t"]
    if t == "absent":
        return False, None
    if t == "none":
        return True, None
    if t == "num":
        return True, 5
    if t == "str":
        return True, text(texts["ipath"])
    m = odict()
    if R["hp"]:
        m["ipath"] = text(texts["ipath"])
    if R["iv"] != "absent":
        m["ival"] = ival_object(R["iv"])
    if R["io"] != "absent":
        m["iown"] = (R["io"] == "true")
    return True, m


_classes = {}     # (par, key, R, ci) -> (kind, class, pristine copy of the ioinits)
_ready = False


def _setup():
    global _ready
    if _ready:
        return
    _ready = True
    from . import _bscript as B
    B.install()


def doer_class(case, texts):
    """register (once per process) the Doer class of a case: its Ioinits hold the entry R under the key and the class inode"""
    import copy
    from ioflo.base import doing
    from ioflo.aid.odicting import odict
    ident = json.dumps([case["par"], case["key"], case["R"], case["ci"]], sort_keys=True)
    got = _classes.get(ident)
    if got:
        return got
    ioinits = odict()
    if case["ci"] == "num":
        ioinits["inode"] = 5
    elif case["ci"] != "none":
        ioinits["inode"] = text(texts["ci"])
    present, obj = entry_object(case["R"], texts)
    if present:
        ioinits[case["key"]] = obj
    n = len(_classes)
    kind = "Vfdi%d" % n
    how = n % 3
    if how == 0 or not ioinits:
        # the class statement with the Ioinits class attribute
        base = doing.DoerParam if case["par"] else doing.Doer
        attrs = {"action": lambda self, **kw: None}
        if ioinits:
            attrs["Ioinits"] = ioinits
        cls = type(kind, (base,), attrs)
    else:
        # the decorator: how == 1 picks the base class, how == 2 the parametric flag
        if how == 1:
            deco = doing.doify(kind, base=doing.DoerParam if case["par"] else doing.Doer, ioinits=ioinits)
        else:
            deco = doing.doify(kind, parametric=case["par"], ioinits=ioinits)

        @deco
        def action(self, **kw):
            return None
        cls = doing.Doer.Registry[kind][0]
    got = (kind, cls, copy.deepcopy(ioinits))
    _classes[ident] = got
    return got


def script(case, exp, kind):
    texts = exp["texts"]
    out = ["house vfh", ""]
    actor = kind.lower()

    def store_path(segs):
        return "." + ".".join(actor if s == "@actor" else s for s in segs)

    if exp["pre"] and exp["bound"] and not exp["node"]:
        out.append("init %s with %s" % (store_path(exp["path"]), " ".join("%s %d" % (f, SCALARS[v]) for f, v in exp["pre"])))
    F = case["F"]
    if F != "none":
        field = "other" if F == "lacks" else case["key"]
        val = '"%s"' % (text(exp["fortext"]) if F != "lacks" else "yy") if F != "num" else "5"
        out.append('init %s with %s %s' % (store_path(exp["forsrc"]), field, val))
    out.append("")
    out.append("framer fa be active first f0%s" % ((" via " + text(texts["fi"])) if texts["fi"] else ""))
    out.append("  frame f0")
    line = "    do %s at enter" % kind.lower()
    if case["via"] != "none":
        line += " via " + text(texts["via"])
    if case["P"] == "num":
        line += " per %s 5" % case["key"]
    elif case["P"] != "none":
        line += " per %s %s" % (case["key"], text(texts["per"]))
    if F == "all":
        line += " for " + text(texts["forsrc"])
    elif F != "none":
        line += " for %s in %s" % (case["key"], text(texts["forsrc"]))
    if case["with"]:
        line += " with %s 1" % case["key"]
    out.append(line)
    return "\n".join(out) + "\n"


def describe(case):
    R = case["R"]
    if R["t"] == "map":
        r = "map[%sival=%s,iown=%s]" % (("ipath=%s," % R["p"]) if R["hp"] else "", R["iv"], R["io"])
    elif R["t"] == "str":
        r = "str[%s]" % R["p"]
    else:
        r = R["t"]
    return "%s key=%s R=%s ci=%s via=%s per=%s for=%s fi=%s pre=%s%s" % (
        "DoerParam" if case["par"] else "Doer", case["key"], r, case["ci"], case["via"], case["P"], case["F"], case["fi"], case["pre"],
        " with" if case["with"] else "")


def check_case(row, workdir):
    """build the one-act program of a table row; -> [divergence dict]"""
    from collections.abc import Mapping
    from . import _bscript as B
    from ioflo.base import storing, doing
    case, exp = row["case"], row["expect"]
    kind, cls, pristine = doer_class(case, exp["texts"])
    src = script(case, exp, kind)
    r = B.build(src, workdir=workdir, want_pre=False, want_post=False, keep_skedder=True)
    what = describe(case)
    divs = []

    def bad(action, detail, expected=None, actual=None, kindd="table-mismatch", where=None):
        divs.append({"kind": kindd, "action": action, "where": where or what, "detail": detail, "script": src, "case": case,
                     "expected": expected, "actual": actual})

    got = r["outcome"] if r["outcome"] != "error" else r["etype"]
    if got != exp["outcome"]:
        if r["outcome"] == "error" and r["etype"] != "ValueError":
            bad("Build", "%s: %s escaped Builder.build (%s); the specification says %s" % (r["etype"], r["msg"][:160], what, exp["outcome"]),
                exp["outcome"], got, kindd="exception", where=r["where"])
        else:
            bad("Outcome", "the build of `%s` ended %s (%s), the specification says %s" % (src.splitlines()[-1].strip(), got, r["msg"][:120], exp["outcome"]),
                exp["outcome"], got)
    # the registry entry is never changed by a build (Registry __fetch__: "Makes copies ... so safe for downstream use")
    reg = doing.Doer.Registry[kind][2]
    if (reg or {}) != pristine or any(type((reg or {}).get(k)) is not type(v) for k, v in pristine.items()):
        bad("Registry", "building `%s` changed the registry Ioinits of %s from %r to %r" % (src.splitlines()[-1].strip(), kind, dict(pristine), dict(reg or {})),
            repr(dict(pristine)), repr(dict(reg or {})))
    if got != "built" or exp["outcome"] != "built":
        return divs
    house = r["skedder"].houses[0]
    frame = house.framers[0].frameNames["f0"]
    acts = [a for a in frame.enacts if type(a).__name__ == "Act"]
    if len(acts) != 1:
        bad("Structure", "expected one enter act in frame f0, found %d" % len(acts))
        return divs
    act = acts[0]
    actor = act.actor
    name = kind.lower()

    def path(segs):
        return ".".join(name if s == "@actor" else s for s in segs)

    def ref(key):
        """(where the reference is held, the reference)"""
        inparm = key in act.parms
        inattr = key in getattr(actor, "__dict__", {})
        return inparm, inattr, (act.parms.get(key) if inparm else getattr(actor, key, None) if inattr else None)

    place = "parm" if case["par"] else "attribute"
    # the inode
    if exp["anyio"]:
        inparm, inattr, node = ref("inode")
        want = path(exp["inode"])
        if not isinstance(node, storing.Node) or isinstance(node, storing.Share):
            bad("Inode", "the actor's inode reference is %s, the specification says the node %s" % (type(node).__name__, want), want, repr(node))
        elif node.name != want:
            bad("Inode", "the inode resolved to %s, the specification says %s" % (node.name, want), want, node.name)
        elif (inparm, inattr) != (case["par"], not case["par"]):
            bad("Bind", "the inode reference is held as %s, the specification says %s" % ("parm" if inparm else "attribute", place), place)
    # the key
    key = case["key"]
    inparm, inattr, target = ref(key)
    if not exp["bound"]:
        if isinstance(target, (storing.Share, storing.Node)):
            bad("Bind", "no ioinit for %s exists but the actor holds %s" % (key, target.name), None, target.name)
        return divs
    want = path(exp["path"])
    if not isinstance(target, (storing.Share, storing.Node)):
        bad("Bind", "%s is not bound to a share or node (%s %r)" % (key, place, target), want, repr(target))
        return divs
    if (inparm, inattr) != (case["par"], not case["par"]):
        bad("Bind", "%s is held as %s, the specification says %s" % (key, "parm" if inparm else "attribute", place), place)
    isnode = not isinstance(target, storing.Share)
    if isnode != exp["node"]:
        bad("Target", "%s resolved to a %s, the specification says a %s" % (key, "node" if isnode else "share", "node" if exp["node"] else "share"))
        return divs
    if target.name != want:
        bad("Target", "%s resolved to %s, the specification says %s" % (key, target.name, want), want, target.name)
        return divs
    if isnode:
        return divs
    fields = dict(target.items())
    wantf = {f: token_value(v) for f, v in exp["fields"]}
    if set(fields) != set(wantf) or any(not same(fields[f], wantf[f]) for f in wantf):
        bad("Fields", "share %s holds %r after the build, the specification says %r" % (want, fields, wantf), repr(wantf), repr(fields))
    elif exp["copied"] and dict(exp["fields"]).get("value") in ("emap", "list", "elist") and isinstance(pristine.get(key), Mapping):
        # "make copy so each instance unique": the share's value is not the object held by the registry
        regval = doing.Doer.Registry[kind][2][key].get("ival")
        if isinstance(regval, (list, dict)) and fields.get("value") is regval:
            bad("Copy", "share %s holds the very ival object of the registry entry, the specification says a copy" % want)
    return divs


def check_rows(job):
    rows, workdir = job
    _setup()
    out = []
    n = 0
    for row in rows:
        try:
            out.extend(check_side(row, workdir) if "value" in row else check_case(row, workdir))
        except Exception as ex:     # the harness itself must not hide behind a crash: report where it happened
            from ..replay import innermost_ioflo_frame
            out.append({"kind": "exception", "action": "Observe", "where": innermost_ioflo_frame(ex.__traceback__),
                        "detail": "%s: %s (%s)" % (type(ex).__name__, str(ex)[:200], row["case"]), "script": "", "case": row["case"],
                        "expected": None, "actual": None})
        n += 1
    return n, out


# ------------------------------------------------------------------------------------------------------------------
# part 1b: action parameters (Parms / from / with) and constructor arguments (Inits / qua / cum); doify
# ------------------------------------------------------------------------------------------------------------------

SIDE_VALUE = {"five": 5, "four": 4, "three": 3, "unset": "unset"}


def side_class(c):
    import copy
    from ioflo.base import doing
    from ioflo.aid.odicting import odict
    ident = json.dumps(["side", c["g"], c["par"], c["reg"]])
    got = _classes.get(ident)
    if got:
        return got
    base = doing.DoerParam if c["par"] else doing.Doer
    kind = "Vfds%d" % len(_classes)
    defaults = odict([("q", 3)]) if c["reg"] == "three" else odict()
    if c["g"] == "parm":
        if defaults and len(_classes) % 2:
            @doing.doify(kind, base=base, parms=defaults)
            def action(self, **kw):
                return None
        else:
            attrs = {"action": lambda self, **kw: None}
            if defaults:
                attrs["Parms"] = defaults
            type(kind, (base,), attrs)
    else:
        def __init__(self, q="unset", **kw):
            base.__init__(self, **kw)
            self.qseen = q
        attrs = {"__init__": __init__, "action": lambda self, **kw: None}
        if defaults:
            attrs["Inits"] = defaults
        type(kind, (base,), attrs)
    got = (kind, doing.Doer.Registry[kind][0], copy.deepcopy(defaults))
    _classes[ident] = got
    return got


def side_script(c, kind):
    out = ["house vfh", ""]
    if c["src"] in ("has", "all"):
        out.append("init .psrc with q 4")
    elif c["src"] == "lacks":
        out.append("init .psrc with other 4")
    out += ["", "framer fa be active first f0", "  frame f0"]
    fetch, direct = ("from", "with") if c["g"] == "parm" else ("qua", "cum")
    line = "    do %s at enter" % kind.lower()
    if c["src"] == "all":
        line += " %s .psrc" % fetch
    elif c["src"] != "none":
        line += " %s q in .psrc" % fetch
    if c["direct"] != "none":
        line += " %s q 5" % direct
    out.append(line)
    return "\n".join(out) + "\n"


def check_side(row, workdir):
    from . import _bscript as B
    from ioflo.base import doing
    c = row["case"]
    kind, cls, pristine = side_class(c)
    src = side_script(c, kind)
    what = "%s %s registry=%s source=%s direct=%s" % ("DoerParam" if c["par"] else "Doer", "Parms/from/with" if c["g"] == "parm" else "Inits/qua/cum",
                                                   c["reg"], c["src"], c["direct"])
    r = B.build(src, workdir=workdir, want_pre=False, want_post=False, keep_skedder=True)

    def bad(action, detail, expected=None, actual=None, kindd="table-mismatch", where=None):
        return [{"kind": kindd, "action": action, "where": where or what, "detail": detail, "script": src, "case": c, "expected": expected, "actual": actual}]

    if r["outcome"] != "built":
        if r["outcome"] == "error":
            return bad("Build", "%s: %s escaped Builder.build (%s)" % (r["etype"], r["msg"][:160], what), kindd="exception", where=r["where"])
        return bad("Outcome", "the build of `%s` was refused, the specification says built" % src.splitlines()[-1].strip(), "built", "refused")
    acts = [a for a in r["skedder"].houses[0].framers[0].frameNames["f0"].enacts if type(a).__name__ == "Act"]
    if len(acts) != 1:
        return bad("Structure", "expected one enter act in frame f0, found %d" % len(acts))
    got = acts[0].parms.get("q", "unset") if c["g"] == "parm" else getattr(acts[0].actor, "qseen", "<no attribute>")
    want = SIDE_VALUE[row["value"]]
    out = []
    if not same(got, want):
        out += bad("Parm" if c["g"] == "parm" else "Init", "`%s` gives the doer q = %r, the specification says %r (%s)" % (src.splitlines()[-1].strip(), got, want, what),
                   repr(want), repr(got))
    reg = doing.Doer.Registry[kind][3 if c["g"] == "parm" else 1]
    if dict(reg or {}) != dict(pristine):
        out += bad("Registry", "building `%s` changed the registry defaults of %s from %r to %r" % (src.splitlines()[-1].strip(), kind, dict(pristine), dict(reg or {})))
    return out


def check_doify(rows):
    """the doify rows are replayed in the calling process (they only register classes)"""
    _setup()
    from ioflo.base import doing, deeding, acting, excepting
    bases = {"default": None, "doer": doing.Doer, "param": doing.DoerParam, "lapse": doing.DoerLapse, "since": doing.DoerSince,
             "deed": deeding.Deed, "deedparam": deeding.DeedParam, "actor": acting.Actor, "object": object}
    divs = []
    for i, row in enumerate(sorted(rows, key=lambda r: json.dumps(r["case"], sort_keys=True))):
        c, exp = row["case"], row["expect"]
        name = "Vfdf%d" % i
        what = "doify(base=%s, parametric=%s)" % (c["base"], c["parametric"])
        kw = {}
        if c["base"] != "default":
            kw["base"] = bases[c["base"]]
        if c["parametric"] != "absent":
            kw["parametric"] = (c["parametric"] == "true")

        def fn(self, **kwa):
            return 42

        def bad(detail, expected=None, actual=None):
            divs.append({"kind": "table-mismatch", "action": "Doify", "where": what, "detail": detail, "script": "", "case": c,
                         "expected": expected, "actual": actual})
        try:
            back = (deeding.deedify if i % 2 else doing.doify)(name, **kw)(fn)     # the old name of the decorator on every other row
            got = "registered"
        except excepting.RegisterError:
            got = "RegisterError"
        if got != exp["outcome"]:
            bad("%s ended %s, the specification says %s" % (what, got, exp["outcome"]), exp["outcome"], got)
            continue
        entry = doing.Doer.Registry.get(name)
        if got == "RegisterError":
            if entry is not None:
                bad("%s raised RegisterError but left %s in the registry" % (what, name))
            continue
        if entry is None:
            bad("%s did not register %s in the registry of Doer" % (what, name))
            continue
        cls = entry[0]
        if cls.__name__ != name or not issubclass(cls, bases[c["base"]] or doing.Doer):
            bad("%s registered %r (bases %r)" % (what, cls, cls.__bases__))
        if cls._Parametric is not exp["parametric"]:
            bad("%s gives a class with _Parametric = %r, the specification says %r" % (what, cls._Parametric, exp["parametric"]), exp["parametric"], cls._Parametric)
        if name in acting.Actor.Registry:
            bad("%s registered %s in the registry of Actor too (Doer has its own registry)" % (what, name))
        try:
            res = cls(name="x")()
        except Exception as ex:
            res = "%s: %s" % (type(ex).__name__, ex)
        if res != 42 or back(None) != 42:
            bad("the action of the class made by %s is not the decorated function (calling the instance gave %r)" % (what, res))
        try:
            doing.doify(name, **kw)(fn)
            bad("%s a second time under the same name did not raise RegisterError" % what, "RegisterError", "registered")
        except excepting.RegisterError:
            pass
    return len(rows), divs


# ------------------------------------------------------------------------------------------------------------------
# part 2: the running house
# ------------------------------------------------------------------------------------------------------------------

Q = 0.0625        # one time quantum in seconds (binary exact)
CMD = {"stay": 0, "leave": 1, "self": 2, "back": 3}
_lapse_ready = {}
LOG = []


def _lapse_classes(alias):
    """subclasses of the real base classes that only add logging (and, for the reset flavour, what ioflo.trim's doers do)"""
    if alias in _lapse_ready:
        return _lapse_ready[alias]
    _setup()
    from ioflo.base import doing, deeding
    lapse_base = deeding.DeedLapse if alias else doing.DoerLapse
    since_base = deeding.DeedSince if alias else doing.DoerSince
    sfx = "d" if alias else ""

    def logged(base, reset):
        def restart(self):
            base.restart(self)
            if reset:
                self.stamp = self.store.stamp
                self.lapse = 0.0
            LOG.append("restart")

        def action(self, **kw):
            base.action(self, **kw)
            LOG.append("action")
        return {"restart": restart, "action": action} if hasattr(base, "restart") else {"action": action}

    # creating the class registers it under its name (metaclass RegisterType)
    names = {}
    for role, base, reset in (("Lapse", lapse_base, False), ("Reset", lapse_base, True), ("Since", since_base, False)):
        nm = "Vfx%s%s" % (role.lower(), sfx)
        type(nm, (base,), logged(base, reset))
        names[role] = nm.lower()
    _lapse_ready[alias] = names
    return names


def lapse_script(kind, names):
    word = {"lapse": names["Lapse"], "lapsereset": names["Reset"], "lapseenter": names["Lapse"], "lapseover": names["Lapse"],
            "since": names["Since"]}[kind]
    out = ["house vfl", "", "init .vfcmd with value 0", "", "framer fa be active first a", "  frame top"]
    if kind == "lapseover":
        out.append("    do %s" % word)
    out.append("    frame a in top")
    if kind == "lapseenter":
        out.append("      do %s at enter" % word)
    elif kind != "lapseover":
        out.append("      do %s" % word)
    out += ["      go b if .vfcmd == 1", "      go a if .vfcmd == 2", "    frame b in top", "      go a if .vfcmd == 3"]
    return "\n".join(out) + "\n"


def _q(x):
    """seconds -> quanta (exact for the binary quantum); anything else is returned as it is and will not match"""
    if x is None:
        return -1
    if isinstance(x, (int, float)) and (x / Q) == int(x / Q):
        return int(x / Q)
    return x


class LapseAdapter:
    def __init__(self, init, alias, workdir):
        from . import _bscript as B
        from ioflo.base import globaling as G
        self.G = G
        self.kind = init["kind"]
        names = _lapse_classes(alias)
        self.src = lapse_script(self.kind, names)
        r = B.build(self.src, workdir=workdir, want_pre=False, want_post=False, keep_skedder=True)
        if r["outcome"] != "built":
            raise RuntimeError("the house of the %s doer was not built: %s %s %s" % (self.kind, r["outcome"], r["etype"], r["msg"][:200]))
        self.house = r["skedder"].houses[0]
        self.store = self.house.store
        self.framer = self.house.framers[0]
        self.cmd = self.store.fetch(".vfcmd")
        frame = self.framer.frameNames["top" if self.kind == "lapseover" else "a"]
        acts = [a for a in (frame.enacts + frame.reacts) if type(a).__name__ == "Act"]
        self.doer = acts[0].actor
        self.store.changeStamp(0.0)
        del LOG[:]

    def project(self):
        fr = self.framer
        G = self.G
        on = fr.status in (G.STARTED, G.RUNNING)
        return {"kind": self.kind, "now": _q(self.store.stamp), "where": (fr.active.name if fr.active is not None else "?") if on else "off",
                "stamp": _q(self.doer.stamp), "lapse": _q(getattr(self.doer, "lapse", 0.0)), "log": tuple(LOG)}

    def step(self, name, args, expected):
        G = self.G
        del LOG[:]
        if name == "Clock":
            self.store.changeStamp(args[0] * Q)
        elif name == "Start":
            self.framer.runner.send(G.START)
        elif name == "Run":
            self.cmd.value = CMD[args[0]]
            self.framer.runner.send(G.RUN)
        elif name == "Stop":
            self.framer.runner.send(G.STOP)
        else:
            raise NotImplementedError(name)
        return self.project()


def replay_paths(job):
    traces, alias, workdir = job
    _setup()
    n, divs = replay.replay(PROP, traces, lambda init: LapseAdapter(init, alias, workdir))
    return n, [(d.kind, d.action, d.where, d.detail, d.steps, d.expected, d.actual, d.extra) for d in divs]


# ------------------------------------------------------------------------------------------------------------------
# the check
# ------------------------------------------------------------------------------------------------------------------

def _lap(t0, what):
    if os.environ.get("VF_TIMING"):
        print("  [doinit %6.1fs] %s" % (time.time() - t0, what))


def run(ctx):
    t0 = time.time()
    work = env.subdir("xdoinit")
    sets = ctx.pick(QUICK, THOROUGH)
    maxt = ctx.pick(2, 4)
    out = os.path.join(work, "table.json")
    dot = os.path.join(work, "lapse.dot")
    # the two models run side by side (the JVM start dominates on a loaded machine)
    from concurrent.futures import ThreadPoolExecutor
    half = max(1, env.NCPU // 2)
    with ThreadPoolExecutor(max_workers=2) as ex:
        f1 = ex.submit(tlc.run, "DoInit", cfg_init(sets), spec_dir=SPEC_DIR, extra_env={"TABLE_OUT": out}, workers=half, tag="xdoinit")
        f2 = ex.submit(tlc.run, "DoLapse", cfg_lapse(maxt), spec_dir=SPEC_DIR, dump_dot=dot, workers=half, tag="xdolapse")
        res1, res2 = f1.result(), f2.result()
    _lap(t0, "tlc")
    ctx.add_model(res1, "DoInit", sets)
    ctx.add_model(res2, "DoLapse", {"MaxT": maxt, "Kinds": LAPSE_KINDS})
    for res, mod in ((res1, "DoInit"), (res2, "DoLapse")):
        if not res.ok:
            ctx.diverge(Divergence(PROP, "model", res.error_name or res.error, mod, "the documented rules violate a property in the model",
                                   steps=[{"action": a, "state": s} for a, s in res.trace]))
    if ctx.divs:
        return
    tlc.require_coverage(res1, ["Pick"], "DoInit")
    tlc.require_coverage(res2, ["Clock", "Start", "Run", "Stop"], "DoLapse")

    # ---------------------------------------------------------------- part 1: the table
    with open(out) as f:
        tables = json.load(f)
    os.unlink(out)
    table, side, doify = tables["rows"], tables["side"], tables["doify"]
    if res1.distinct < len(table) + len(side) or not table or not side or not doify:
        raise TlcError("vacuous model run (DoInit): %d states for %d + %d rows" % (res1.distinct, len(table), len(side)))
    if {r["value"] for r in side} != {"five", "four", "three", "unset"} or {r["expect"]["outcome"] for r in doify} != {"registered", "RegisterError"}:
        raise TlcError("vacuous tables (DoInit): side values / doify outcomes not all produced")
    groups = {}
    for row in table:
        groups[row["case"]["g"]] = groups.get(row["case"]["g"], 0) + 1
    outcomes = {row["expect"]["outcome"] for row in table}
    forms = {(row["case"]["R"]["t"], row["expect"]["node"], row["expect"]["bound"]) for row in table}
    need_forms = {("absent", False, False), ("absent", False, True), ("none", False, True), ("str", False, True), ("str", True, True), ("map", False, True)}
    if set(groups) != {"value", "path", "error"} or outcomes != {"built", "refused", "ValueError"} or not need_forms <= forms:
        raise TlcError("vacuous table (DoInit): groups %s outcomes %s forms missing %s" % (groups, sorted(outcomes), sorted(need_forms - forms)))
    if not any(r["expect"]["copied"] for r in table) or not any(r["expect"]["pre"] and r["expect"]["written"] for r in table):
        raise TlcError("vacuous table (DoInit): no copied ival / no write onto pre-existing content")
    rng = random.Random(ctx.seed)
    rng.shuffle(table)         # classes are shared by the rows of one process: the order decides what a polluted registry would spoil
    g = graph.load_dot(dot)
    os.unlink(dot)
    paths = graph.edge_cover(g, max_len=120)
    traces = replay.graph_paths_to_traces(g, paths)
    _setup()
    mp = multiprocessing.get_context("fork")
    nproc = max(1, min(env.NCPU, 8))
    chunk = max(50, len(table) // (nproc * 6) + 1)
    jobs = [(table[i:i + chunk], work) for i in range(0, len(table), chunk)] + [(side, work)]
    ndoify, ddivs = check_doify(doify)
    # the deeding aliases (DeedLapse, DeedSince) are the same classes under their old names: every other path runs on them
    jobs2 = []
    per = max(2, len(traces) // (nproc * 2) + 1)
    for alias in (False, True):
        mine = [t for i, t in enumerate(traces) if (i % 2 == 1) == alias] if ctx.quick else traces
        for i in range(0, len(mine), per):
            jobs2.append((mine[i:i + per], alias, work))
    with mp.Pool(nproc) as pool:
        results = pool.map(check_rows, jobs, chunksize=1)
        _lap(t0, "table replayed")
        results2 = pool.map(replay_paths, jobs2, chunksize=1)
    _lap(t0, "graph replayed")
    nrows = 0
    seen = {}
    for n, divs in results + [(ndoify, ddivs)]:
        nrows += n
        for d in divs:
            sig = (d["kind"], d["action"])
            if seen.get(sig, 0) >= 3 or sum(seen.values()) >= 24:
                continue
            seen[sig] = seen.get(sig, 0) + 1
            ctx.diverge(Divergence(PROP, d["kind"], d["action"], d["where"], d["detail"],
                                   steps=[{"action": "Build", "state": {"script": d["script"]}}] if d.get("script") else [],
                                   expected=d.get("expected"), actual=d.get("actual"), extra={"case": d["case"]}))
    sample = next(r for r in table if r["case"]["g"] == "value" and r["expect"]["pre"] and r["expect"]["written"] and r["case"]["P"] != "none")
    ctx.add_validated(nrows, {"case": describe(sample["case"]), "script": script(sample["case"], sample["expect"], "Vfdi0").splitlines(),
                              "expect": {k: sample["expect"][k] for k in ("outcome", "inode", "path", "fields")}})

    # ---------------------------------------------------------------- part 2: the graph
    nsteps = 0
    shown = 0
    for (_, alias, _), (n, divs) in zip(jobs2, results2):
        nsteps += n
        for (kind, action, where, detail, steps, expected, actual, extra) in divs:
            if shown >= 6:
                break
            shown += 1
            k = (steps[0]["state"].get("kind") if steps else "") or ""
            ctx.diverge(Divergence(PROP, kind, action, "%s%s:%s" % (k, "/deeding" if alias else "", where), detail, steps=steps,
                                   expected=expected, actual=actual, extra=extra))
    covered = graph.covered_edges(paths)
    if covered < g.nedges:
        raise TlcError("the path cover misses %d of %d edges of DoLapse" % (g.nedges - covered, g.nedges))
    ctx.add_validated(len(traces), {"path": [lab for (lab, _, _) in traces[len(traces) // 2][:12]]})
    ctx.exhaustive = True
    ctx.rule = ("part 1: case = Doer / DoerParam x registry entry form (absent, None, path string, mapping with ipath / ival / iown) x class "
                "inode x via x per x for x framer inode x pre-existing fields; every case is a TLC state and a table row; every row is one "
                "FloScript program built with the real Builder and compared (outcome, inode node, binding place, resolved share / node, "
                "fields, copy, registry untouched); part 2: every edge of the complete graph of DoLapse (kinds x store stamps x frames) "
                "replayed on subclasses of DoerLapse / DoerSince / DeedLapse / DeedSince in a framer driven through its runner; "
                "distinct = table rows + graph edges")
    ctx.extra.update({"evaluations": nrows + nsteps, "distinct_nontrivial": len(table) + len(side) + len(doify) + g.nedges, "table_rows": len(table),
                      "side_rows": len(side), "doify_rows": len(doify),
                      "rows_by_group": groups, "doer_classes_per_process": "one per (parametric, key, entry, class inode)",
                      "graph_states": len(g.states), "graph_edges": g.nedges, "graph_edges_replayed": covered, "replay_steps": nsteps})
    ctx.assume("the script printer, the registration of the case's Doer class and the projection (act parms / actor attributes / store) "
               "in vf/families/doinit.py are trusted; logging subclasses of DoerLapse / DoerSince call the base methods first")
    ctx.assume("time in binary-exact quanta of 1/16 s; interplay of via with frame / clone inodes is left to C13 (Paths.tla)")


EXTRAS = {"doinit": run}
