"""C19 - share stamps, fields and decks (specs/store/Share.tla, ShareTrace.tla).

  model  TLC checks the stamp / create / field order / rejection / deck properties of Share.tla on a small configuration
         (all action properties; every action must be taken).
  A.     complete state graphs of two configurations of the same specification - "fields" (names, bad names, values incl.
         None, store time advancing, share with and without a store) and "deck" (push / pull / gulp / spew interleaved with
         field operations) - are dumped and every edge is replayed on a real Share (+ Store): result of the call, fields in
         order, stamp, store, deck compared after every step.
  B.     seeded random interleavings over larger alphabets are executed on real shares, logged, and validated by TLC against
         ShareTrace.tla.

None is -1 on the specification side.  Field arguments are passed in all documented forms in rotation (keywords, dict,
odict, sequence of duples, several positional arguments).
"""
import random
import warnings
from concurrent.futures import ThreadPoolExecutor

from .. import env, tlc, trace
from ..replay import Divergence, innermost_ioflo_frame
from . import _storelib

warnings.filterwarnings("ignore", category=SyntaxWarning)     # old-style escapes in ioflo docstrings, recompiled per process
SPEC_DIR = env.SPECS + "/store"
ACTIONS = ["SetValue", "GetValue", "Update1", "Update2", "Change1", "Change2", "Create1", "Create2", "StampNow", "SetItem",
           "GetItem", "Contains", "DelItem", "Clear", "Attach", "Detach", "Advance", "Push", "Pull", "Gulp", "Spew"]
INVARIANTS = "INVARIANT TypeOK\nINVARIANT PublicIdentifiersOnly\nINVARIANT StampNotAhead\nINVARIANT NoNoneInDeck\n"
PROPERTIES_ = "".join("PROPERTY %s\n" % p for p in (
    "StampRules", "ChangeKeepsStamp", "OnlyStampersStamp", "UpdateStamps", "CreateNeverOverwrites", "FieldOrder",
    "RejectedUnchanged", "DeckFifo", "GulpIgnoresNone", "SpewNoneIffEmpty"))
OK = {"t": "ok", "v": 0}


def cfg_text(names, bad, vals0, maxtime, maxdeck, props=False, spec="Spec"):
    q = lambda xs: ", ".join('"%s"' % x for x in xs)
    s = ('SPECIFICATION %s\nCONSTANTS\n  Names = {%s}\n  BadNames = {%s}\n  Vals0 = {%s}\n  MaxTime = %d\n  MaxDeck = %d\n'
         % (spec, q(names), q(bad), ", ".join(str(v) for v in vals0), maxtime, maxdeck))
    return s + INVARIANTS + (PROPERTIES_ if props else "") + "CHECK_DEADLOCK FALSE\n"


def enc(x):
    """python value -> specification value (None is -1; integral floats are the integers they equal)"""
    if x is None:
        return -1
    if isinstance(x, float) and x == int(x):
        return int(x)
    return x


def dec(v):
    return None if v == -1 else v


class ShareAdapter:
    def __init__(self, attached):
        env.use_repo()
        from ioflo.base import storing
        from ioflo.aid.odicting import odict
        self.st, self.odict = storing, odict
        storing.Store.Clear()
        self.store = storing.Store(stamp=0.0)
        self.share = self.store.create("vf.share") if attached else storing.Share()
        self.n = 0

    def project(self):
        sh = self.share
        items = list(sh.items())
        ks = [k for k, _ in items]
        # the documented mapping views agree with each other
        assert list(sh.keys()) == ks == list(sh) == list(sh.iterkeys()), "key views disagree"
        assert list(sh.values()) == [v for _, v in items] == list(sh.itervalues()), "value views disagree"
        assert len(sh) == len(ks) and list(sh.iteritems()) == items
        assert sh.store is None or sh.store is self.store
        return {"keys": tuple(ks), "val": {k: enc(v) for k, v in items}, "stamp": enc(sh.stamp),
                "attached": sh.store is self.store, "now": enc(self.store.stamp), "deck": tuple(enc(x) for x in sh.deck)}

    def _fields(self, fn, pairs):
        """call update/change/create with the (k, v) pairs in one of the documented argument forms"""
        self.n += 1
        pairs = [(k, dec(v)) for k, v in pairs]
        distinct = len({k for k, _ in pairs}) == len(pairs)
        forms = ["pairs", "odict", "args"] + (["kw", "dict", "mixed"] if distinct else [])
        form = forms[self.n % len(forms)]
        if form == "pairs":
            return fn(pairs)
        if form == "odict":
            return fn(self.odict(pairs)) if distinct else fn(pairs)
        if form == "args":
            return fn(*[[p] for p in pairs])
        if form == "kw":
            return fn(**dict(pairs))
        if form == "dict":
            return fn(dict(pairs))
        return fn(pairs[:1], **dict(pairs[1:]))

    def call(self, name, a):
        sh = self.share
        same = lambda r: OK if r is sh else {"t": "other-" + type(r).__name__, "v": 0}
        if name == "SetValue":
            sh.value = dec(a[0])
            return OK
        if name == "GetValue":
            return {"t": "val", "v": enc(sh.value)}
        if name in ("Update1", "Change1", "Create1"):
            fn = {"Update1": sh.update, "Change1": sh.change, "Create1": sh.create}[name]
            try:
                return same(self._fields(fn, [(a[0], a[1])]))
            except AttributeError:
                return {"t": "AttributeError", "v": 0}
        if name in ("Update2", "Change2", "Create2"):
            fn = {"Update2": sh.update, "Change2": sh.change, "Create2": sh.create}[name]
            return same(self._fields(fn, [(a[0], a[1]), (a[2], a[3])]))
        if name == "StampNow":
            return {"t": "val", "v": enc(sh.stampNow())}
        if name == "SetItem":
            try:
                sh[a[0]] = dec(a[1])
                return OK
            except KeyError:
                return {"t": "KeyError", "v": 0}
            except AttributeError:
                return {"t": "AttributeError", "v": 0}
        if name == "GetItem":
            try:
                r = sh[a[0]]
            except KeyError:
                assert sh.get(a[0], "dflt") == "dflt" and sh.fetch(a[0], "dflt") == "dflt"
                return {"t": "KeyError", "v": 0}
            assert sh.get(a[0], "dflt") is r and sh.fetch(a[0]) is r
            return {"t": "val", "v": enc(r)}
        if name == "Contains":
            r = a[0] in sh
            assert sh.has_key(a[0]) == r
            return {"t": "bool", "v": 1 if r else 0}
        if name == "DelItem":
            try:
                del sh[a[0]]
                return OK
            except KeyError:
                return {"t": "KeyError", "v": 0}
        if name == "Clear":
            sh.clear()
            return OK
        if name == "Attach":
            sh.changeStore(self.store)
            return OK
        if name == "Detach":
            sh.changeStore(None) if self.n % 2 else sh.changeStore()
            return OK
        if name == "Advance":
            self.store.advanceStamp(float(a[0]))
            assert self.store.fetchShare("time").value == self.store.stamp
            return OK
        if name == "Push":
            sh.push(dec(a[0])) if self.n % 2 else sh.deck.push(dec(a[0]))
            return OK
        if name == "Pull":
            try:
                return {"t": "val", "v": enc(sh.pull() if self.n % 2 else sh.deck.pull())}
            except IndexError:
                return {"t": "IndexError", "v": 0}
        if name == "Gulp":
            sh.deck.gulp(dec(a[0]))
            return OK
        if name == "Spew":
            return {"t": "val", "v": enc(sh.deck.spew())}
        raise NotImplementedError(name)

    def step(self, name, inputs):
        self.n += 1
        r = self.call(name, inputs)
        return r, self.project()


# ---------------------------------------------------------------- binding B
NAMES_B = ("value", "a", "b", "c")
BAD_B = ("_x", "1a", "", "a.b")
VALS0_B = (0, 1, 2, 3)


def _random_trace(rng, n):
    attached = rng.random() < 0.5
    ad = ShareAdapter(attached)
    evs = [{"ev": "Init", "attached": attached}]
    now = 0
    val = lambda: rng.choice(VALS0_B + (-1,))
    name_ = lambda: rng.choice(NAMES_B) if rng.random() < 0.85 else rng.choice(BAD_B)
    for _ in range(n):
        op = rng.choice(ACTIONS)
        e = {"ev": op}
        if op in ("SetValue", "Gulp"):
            e["v"] = val()
            a = (e["v"],)
        elif op == "Push":
            e["v"] = rng.choice(VALS0_B)
            a = (e["v"],)
        elif op in ("Update1", "Change1", "Create1", "SetItem"):
            e["k"], e["v"] = name_(), val()
            a = (e["k"], e["v"])
        elif op in ("Update2", "Change2", "Create2"):
            e["k1"], e["v1"], e["k2"], e["v2"] = rng.choice(NAMES_B), val(), rng.choice(NAMES_B), val()
            a = (e["k1"], e["v1"], e["k2"], e["v2"])
        elif op in ("GetItem", "Contains", "DelItem"):
            e["k"] = name_()
            a = (e["k"],)
        elif op == "Advance":
            if now > 900:
                continue
            e["dt"] = rng.choice([1, 2])
            now += e["dt"]
            a = (e["dt"],)
        else:
            a = ()
        try:
            ad.n += 1
            e["res"] = ad.call(op, a)
            p = ad.project()
        except Exception as ex:
            evs.append(dict(e, res={"t": "raised " + type(ex).__name__, "v": 0}))
            return evs, Divergence("C19", "exception", op, innermost_ioflo_frame(ex.__traceback__),
                                   "%s: %s" % (type(ex).__name__, str(ex)[:200]), steps=evs)
        e.update({"keys": list(p["keys"]), "vals": [p["val"][k] for k in p["keys"]], "stamp": p["stamp"],
                  "attached": p["attached"], "now": p["now"], "deck": list(p["deck"])})
        evs.append(e)
    return evs, None


def _graph(ctx, label, consts, res, dot):
    ctx.add_model(res, "Share-graph/" + label, dict(zip(("Names", "BadNames", "Vals0", "MaxTime", "MaxDeck"), consts)))
    if not res.ok:
        ctx.diverge(_storelib.model_divergence("C19", res, "Share/" + label))
        return 0, 0
    g = _storelib.load_dot(dot)
    paths, cov, steps, alts, divs = _storelib.replay_graph("C19", g, lambda init: ShareAdapter(bool(init["attached"])), max_len=80)
    for d in divs:
        d.extra["graph"] = label
    ctx.diverge(divs)
    ctx.add_validated(len(paths), {"graph": label, "path": [s[1] for s in paths[len(paths) // 2]][:14]})
    ctx.extra.setdefault("graphs", {})[label] = {"states": len(g.states), "edges": g.nedges, "edges_replayed": cov, "replay_steps": steps,
                                                 "alternative_answers_taken": alts}
    return g.nedges, cov


def run_c19(ctx):
    ctx.rule = ("model: all properties of Share.tla on a small configuration; A: complete state graphs of a 'fields' and a 'deck' "
                "configuration, every edge replayed on a real Share (+ Store) comparing result, ordered fields, stamp, store and "
                "deck; B: seeded random interleavings on real shares validated by TLC against ShareTrace.tla; distinct = graph "
                "edges + accepted traces")
    bad = ("_x", "1a", "")
    # model checking of the action properties (they quantify over all operations: kept small) and the two graph dumps: three
    # TLC runs side by side
    mc = (("value", "a"), ("_x", ""), (0,), 1, 1)
    fields = ctx.pick((("value", "a"), bad, (0, 1), 1, 0), (("value", "a", "b"), bad, (0, 1), 2, 0))
    deck = ctx.pick((("value",), ("_x",), (0, 1), 1, 2), (("value", "a"), ("_x",), (0, 1), 1, 3))
    dots = {lab: env.subdir("c19") + "/%s.dot" % lab for lab in ("fields", "deck")}
    w = max(1, env.NCPU // 2)
    with ThreadPoolExecutor(max_workers=3) as ex:
        fmc = ex.submit(tlc.run, "Share", cfg_text(*mc, props=True), spec_dir=SPEC_DIR, tag="c19mc", workers=w)
        fgr = {lab: ex.submit(tlc.run, "Share", cfg_text(*consts), spec_dir=SPEC_DIR, dump_dot=dots[lab], tag="c19" + lab,
                              coverage=False, workers=w)
               for lab, consts in (("fields", fields), ("deck", deck))}
        res = fmc.result()
        gres = {lab: f.result() for lab, f in fgr.items()}
    ctx.add_model(res, "Share", dict(zip(("Names", "BadNames", "Vals0", "MaxTime", "MaxDeck"), mc)))
    if not res.ok:
        ctx.diverge(_storelib.model_divergence("C19", res, "Share"))
    else:
        tlc.require_coverage(res, ACTIONS, "Share")
    # binding A
    total = cov = 0
    for label, consts in (("fields", fields), ("deck", deck)):
        t, c = _graph(ctx, label, consts, gres[label], dots[label])
        total += t
        cov += c
    # binding B
    rng = random.Random(ctx.seed)
    ntr = ctx.pick(200, 6000)
    if ctx.divs:
        ntr = min(ntr, 24)      # binding A already diverged: B is abbreviated (each rejected trace is diagnosed by its own TLC run)
    trs = []
    nexc = 0
    for _ in range(ntr):
        evs, d = _random_trace(rng, rng.randint(20, 60))
        if d is not None:
            ctx.diverge(d)
            nexc += 1
            if nexc > 20:
                break
            continue
        trs.append(evs)
    q = lambda xs: ", ".join('"%s"' % x for x in xs)
    cfg = ('SPECIFICATION TraceSpec\nCONSTANTS\n  Names = {%s}\n  BadNames = {%s}\n  Vals0 = {%s}\n  MaxTime = 100000\n  MaxDeck = 100000\n'
           'CONSTRAINT TraceOK\nINVARIANT PublicIdentifiersOnly\nINVARIANT StampNotAhead\nINVARIANT NoNoneInDeck\nCHECK_DEADLOCK FALSE\n'
           % (q(NAMES_B), q(BAD_B), ", ".join(str(v) for v in VALS0_B)))
    out = trace.validate("ShareTrace", cfg, SPEC_DIR, trs, batch=400)
    ctx.states += out.states
    ctx.transitions += out.generated
    ctx.add_validated(len(out.accepted), {"trace": trs[0][:8]} if trs else None)
    for i, pref in sorted(out.rejected.items())[:10]:
        ev = trs[i][pref] if 0 <= pref < len(trs[i]) else {}
        args = {k: ev[k] for k in ("k", "v", "k1", "v1", "k2", "v2", "dt") if k in ev}
        ctx.diverge(Divergence("C19", "rejected", ev.get("ev", "?"), "trace",
                               "recorded execution is not a behaviour of Share.tla at event %d: %s %r -> %r"
                               % (pref + 1, ev.get("ev"), args, ev.get("res")), steps=trs[i][:pref + 1]))
    for (i, err, name, tr) in out.model_errors[:5]:
        ctx.diverge(Divergence("C19", "rejected", name or err, "trace-invariant", "invariant %s violated on a recorded execution" % name,
                               steps=trs[i]))
    ctx.exhaustive = bool(total) and cov == total
    ctx.extra.update({"graph_edges": total, "edges_replayed": cov, "random_traces": len(trs), "random_traces_accepted": len(out.accepted),
                      "distinct_nontrivial": cov + len(out.accepted), "evaluations": cov + sum(len(t) - 1 for t in trs)})


PROPERTIES = {"C19": run_c19}
