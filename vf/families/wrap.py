"""C43 - angle wrapping (specs/aid/Wrap.tla).

Pattern of a *table* family (binding C): the specification defines the function by its contract; TLC checks the
contract's algebra over the whole grid and writes the (input -> admissible outputs) table as JSON; the harness replays
every row against the implementation with several numeric types, then checks seeded random floats against the same
contract evaluated in exact rational arithmetic.
"""
import json
import math
import random
from fractions import Fraction

from .. import env, tlc
from ..replay import Divergence

SPEC_DIR = env.SPECS + "/aid"


def _contract1(a, w, r):
    """exact contract of wrap1 on Fractions"""
    if w == 0:
        return r == a
    inrange = (0 <= r < w) if w > 0 else (w < r <= 0)
    return inrange and ((a - r) / w).denominator == 1


def _contract2(a, w, r):
    if w == 0:
        return r == a
    return abs(r) <= abs(w) and ((a - r) / (2 * w)).denominator == 1


def run_c43(ctx):
    env.use_repo()
    from ioflo.aid import navigating as nav
    amax, wmax = ctx.pick((30, 8), (80, 16))
    cfg = open(SPEC_DIR + "/Wrap.cfg").read().replace("AMax = 30", "AMax = %d" % amax).replace("WMax = 8", "WMax = %d" % wmax)
    out = env.subdir("c43") + "/table.json"
    res = tlc.run("Wrap", cfg, spec_dir=SPEC_DIR, extra_env={"TABLE_OUT": out}, tag="c43")
    ctx.add_model(res, "Wrap", {"AMax": amax, "WMax": wmax})
    if not res.ok:
        ctx.diverge(Divergence("C43", "model", res.error_name or res.error, "Wrap", "contract lemma violated in the model",
                               steps=[{"action": a, "state": s} for a, s in res.trace]))
        return
    table = json.load(open(out))
    n = 0
    kinds = [("int", lambda x, u: x, 1), ("float/2", lambda x, u: x / 2.0, 2), ("float/8", lambda x, u: x / 8.0, 8),
             ("Fraction/3", lambda x, u: Fraction(x, 3), 3)]

    def bad(fn, kind, a, w, got, exp):
        ctx.diverge(Divergence("C43", "table-mismatch", fn, kind, "a=%r w=%r got %r expected one of %r" % (a, w, got, exp),
                               expected=exp, actual=repr(got)))

    for row in table:
        a, w, w1, w2 = row["a"], row["w"], row["w1"], row["w2"]
        for kind, conv, u in kinds:
            xa, xw = conv(a, u), conv(w, u)
            try:
                r1 = nav.wrap1(xa, xw)
                r2 = nav.wrap2(xa, xw)
                rd = nav.delta(conv(a + 7, u), conv(7, u), xw)
            except Exception as ex:
                ctx.diverge(Divergence("C43", "exception", "wrap", kind, "a=%r w=%r %s: %s" % (xa, xw, type(ex).__name__, ex)))
                continue
            n += 3
            if r1 * u not in w1:
                bad("wrap1", kind, xa, xw, r1, [conv(x, u) for x in w1])
            if kind.startswith("Fraction"):
                continue    # wrap2 is documented on floats (it scales by 2.0): exact rationals only for wrap1
            if r2 * u not in w2:
                bad("wrap2", kind, xa, xw, r2, [conv(x, u) for x in w2])
            if rd * u not in w2:
                bad("delta", kind, xa, xw, rd, [conv(x, u) for x in w2])
    ctx.add_validated(len(table), table[len(table) // 3])
    # seeded random floats against the exact contract
    rng = random.Random(ctx.seed)
    nrand = ctx.pick(20000, 400000)
    wraps = [360.0, 180.0, -360.0, -180.0, 2 * math.pi, math.pi, 1.0, 0.0, 24.0, 1e-3]
    nfl = 0
    for i in range(nrand):
        w = rng.choice(wraps) if rng.random() < 0.8 else rng.uniform(-500, 500)
        c = rng.random()
        if c < 0.5:
            a = rng.uniform(-2000, 2000)
        elif c < 0.7:
            a = rng.choice([-1, 1]) * 10.0 ** rng.uniform(-25, -8)
        elif c < 0.9:
            a = w * rng.randint(-6, 6) + rng.choice([0.0, 1e-13, -1e-13, 1e-20, -1e-20])
        else:
            a = float(rng.randint(-1000, 1000))
        r1, r2 = nav.wrap1(a, w), nav.wrap2(a, w)
        nfl += 2
        fa, fw, f1, f2 = Fraction(a), Fraction(w), Fraction(r1), Fraction(r2)
        if w == 0:
            if r1 != a or r2 != a:
                bad("wrap", "float", a, w, (r1, r2), "a unchanged")
            continue
        tol = Fraction(max(abs(a), abs(w), 1.0)) / 10**9
        in1 = (0 <= f1 < fw) if fw > 0 else (fw < f1 <= 0)
        k1 = (fa - f1) / fw
        if not in1:
            bad("wrap1", "float-range", a, w, r1, "half-open range between 0 and wrap")
        elif abs(k1 - round(k1)) * abs(fw) > tol:
            bad("wrap1", "float-congruence", a, w, r1, "a - r a whole number of turns")
        k2 = (fa - f2) / (2 * fw)
        if not abs(f2) <= abs(fw):
            bad("wrap2", "float-range", a, w, r2, "closed range [-|w|, |w|]")
        elif abs(k2 - round(k2)) * abs(2 * fw) > tol:
            bad("wrap2", "float-congruence", a, w, r2, "a - r a whole number of turns")
        d, act = rng.uniform(-720, 720), rng.uniform(-720, 720)
        if nav.delta(d, act, w) != nav.wrap2(d - act, w):
            bad("delta", "float", (d, act), w, nav.delta(d, act, w), nav.wrap2(d - act, w))
    ctx.exhaustive = True
    ctx.rule = ("grid rows (a, w) enumerated by TLC with the admissible results of the contract; each replayed with int, dyadic "
                "float and Fraction arguments; plus seeded random floats checked against the exact contract (range strictly, "
                "congruence up to float rounding)")
    ctx.extra.update({"evaluations": n + nfl, "distinct_nontrivial": len(table), "grid_rows": len(table), "random_floats": nrand})
    ctx.assume("float results are compared with the exact contract: range strictly, congruence up to 1e-9 relative rounding")


PROPERTIES = {"C43": run_c43}
