"""In-memory network joining two programs under test (a Patron and one or more Valets), for C30 / C31 / C34.

`vf/doubles_http.py` gives the *harness* one end of every connection.  Here both ends belong to code under test:
a `PairSock` obtained by `Client.open()` and connected with `connect_ex()` is joined to a second `PairSock` that the
listening `Server` gets from `accept()`.  Bytes sent by one end sit on the wire of that direction until they are
delivered to the other end:

    net = PairNet(auto=True)        every send is delivered at once (C30, C34)
    net = PairNet(auto=False)       net.deliver(conn, "c2s" | "s2c", k) moves the next k bytes (C31: delivery is an
                                    action of the specification)

TLS legs are plain doubles: `FakeTlsContext.wrap_socket` returns a `TlsView` of the PairSock (a new object as with the
real library; would-block becomes ssl.SSLWant*Error; the handshake succeeds at once) and marks the socket as wrapped,
so the harness can tell whether a request travelled over a wrapped connection on both sides.  ssl itself is not
exercised.  No kernel socket is created, no port is bound.
"""
import contextlib
import errno
import os
import socket as _real
import ssl as _ssl


class Conn:
    """one accepted connection: the client's socket, the server's socket, the listener it came in on"""

    def __init__(self, idx, client, server, listener):
        self.idx = idx
        self.client = client
        self.server = server
        self.listener = listener     # the listening PairSock
        self.c2s = bytearray()       # every byte the client ever sent on it
        self.s2c = bytearray()       # every byte the server ever sent on it

    @property
    def ha(self):
        return self.listener.local

    def wire(self, direction):
        return (self.client if direction == "c2s" else self.server).out


class PairNet:
    def __init__(self, auto=True):
        self.auto = auto
        self.listeners = {}          # (host, port) -> listening PairSock
        self.conns = []              # every connection ever made, in order
        self.next_port = 50000
        self.refused = []            # addresses somebody tried to connect to without a listener

    def ephemeral(self, host="127.0.0.1"):
        self.next_port += 1
        return (host, self.next_port)

    def lookup(self, ha):
        host, port = ha[0], ha[1]
        for (h, p), s in self.listeners.items():
            if p == port and (h == host or h in ("", "0.0.0.0")):
                return s
        return None

    def deliver(self, conn, direction, k=None):
        """move the next k (default: all) bytes of one direction to the receiving end; returns the number moved"""
        src = conn.client if direction == "c2s" else conn.server
        k = len(src.out) if k is None else min(k, len(src.out))
        if k and src.peer is not None and not src.peer.closed:
            src.peer.inq.extend(src.out[:k])
        del src.out[:k]
        return k

    def deliver_all(self):
        n = 0
        for c in self.conns:
            n += self.deliver(c, "c2s") + self.deliver(c, "s2c")
        return n


class PairSock:
    def __init__(self, net):
        self.net = net
        self.local = None
        self.remote = None
        self.peer = None
        self.conn = None
        self.role = None             # "client" | "server" | "listener"
        self.pending = []            # listener: connections waiting to be accepted
        self.listening = False
        self.inq = bytearray()       # delivered, not yet read
        self.out = bytearray()       # sent, not yet delivered (the wire of this direction)
        self.closed = False
        self.wr_shut = False
        self.tls = False             # wrapped by a FakeTlsContext
        self.tls_listener = False    # listener of a TLS server (set by the harness)
        self.nsent = 0

    # ---- options: accepted and ignored
    def setsockopt(self, *a):
        pass

    def getsockopt(self, *a):
        return 1 << 20

    def setblocking(self, flag):
        pass

    def settimeout(self, t):
        pass

    def fileno(self):
        return -1

    # ---- listening side
    def bind(self, ha):
        host, port = ha[0], ha[1]
        self.local = (host or "0.0.0.0", port)
        if self.net.lookup(self.local) is not None:
            raise OSError(errno.EADDRINUSE, os.strerror(errno.EADDRINUSE))
        self.net.listeners[self.local] = self
        self.role = "listener"

    def listen(self, n):
        self.listening = True

    def getsockname(self):
        return self.local

    def getpeername(self):
        if self.remote is None:
            raise OSError(errno.ENOTCONN, os.strerror(errno.ENOTCONN))
        return self.remote

    def accept(self):
        if not self.pending:
            raise BlockingIOError(errno.EAGAIN, os.strerror(errno.EAGAIN))
        return self.pending.pop(0)

    # ---- connecting side
    def connect_ex(self, ha):
        if self.peer is not None:
            return errno.EISCONN
        ls = self.net.lookup(ha)
        if ls is None or not ls.listening or ls.closed:
            self.net.refused.append((ha[0], ha[1]))
            return errno.ECONNREFUSED
        self.local = self.net.ephemeral()
        self.remote = (ha[0], ha[1])
        self.role = "client"
        other = PairSock(self.net)
        other.role = "server"
        other.local = (ha[0], ha[1])
        other.remote = self.local
        other.peer = self
        self.peer = other
        conn = Conn(len(self.net.conns), self, other, ls)
        self.conn = other.conn = conn
        self.net.conns.append(conn)
        ls.pending.append((other, self.local))
        return 0

    # ---- data
    def _peer_eof(self):
        p = self.peer
        return p is None or ((p.closed or p.wr_shut) and not p.out)

    def recv(self, n):
        if self.closed:
            raise OSError(errno.EBADF, os.strerror(errno.EBADF))
        if self.inq:
            data = bytes(self.inq[:n])
            del self.inq[:n]
            return data
        if self._peer_eof():
            return b""
        raise BlockingIOError(errno.EAGAIN, os.strerror(errno.EAGAIN))

    def send(self, data):
        if self.closed:
            raise OSError(errno.EBADF, os.strerror(errno.EBADF))
        if self.wr_shut:
            raise BrokenPipeError(errno.EPIPE, os.strerror(errno.EPIPE))
        if self.peer is None:
            raise OSError(errno.ENOTCONN, os.strerror(errno.ENOTCONN))
        if self.peer.closed:
            raise ConnectionResetError(errno.ECONNRESET, os.strerror(errno.ECONNRESET))
        data = bytes(data)
        (self.conn.c2s if self.role == "client" else self.conn.s2c).extend(data)
        self.nsent += len(data)
        if self.net.auto:
            self.peer.inq.extend(data)
        else:
            self.out.extend(data)
        return len(data)

    def shutdown(self, how):
        if self.closed or self.peer is None:
            raise OSError(errno.ENOTCONN, os.strerror(errno.ENOTCONN))
        if how in (_real.SHUT_WR, _real.SHUT_RDWR):
            self.wr_shut = True

    def close(self):
        self.closed = True
        if self.listening:
            self.net.listeners.pop(self.local, None)
            self.listening = False


class TlsView:
    """what FakeTlsContext.wrap_socket returns: stands for ssl.SSLSocket over a PairSock"""

    def __init__(self, inner, server_side, server_hostname):
        object.__setattr__(self, "inner", inner)
        object.__setattr__(self, "server_side", server_side)
        object.__setattr__(self, "server_hostname", server_hostname)
        inner.tls = True

    def __getattr__(self, name):
        return getattr(self.inner, name)

    def __setattr__(self, name, value):
        setattr(self.inner, name, value)

    def do_handshake(self, block=False):
        if self.inner.closed:
            raise OSError(errno.EBADF, os.strerror(errno.EBADF))

    def recv(self, n):
        try:
            return self.inner.recv(n)
        except BlockingIOError:
            raise _ssl.SSLWantReadError(_ssl.SSL_ERROR_WANT_READ, "The operation did not complete (read) (double)")

    def send(self, data):
        try:
            return self.inner.send(data)
        except BlockingIOError:
            raise _ssl.SSLWantWriteError(_ssl.SSL_ERROR_WANT_WRITE, "The operation did not complete (write) (double)")


class FakeTlsContext:
    """stands in for ssl.SSLContext below ClientTls / ServerTls"""

    def __init__(self):
        self.verify_mode = _ssl.CERT_NONE
        self.check_hostname = False
        self.options = 0
        self.wrapped = []

    def wrap_socket(self, sock, server_side=False, do_handshake_on_connect=True, suppress_ragged_eofs=True,
                    server_hostname=None, session=None):
        inner = getattr(sock, "inner", sock)
        self.wrapped.append((inner, server_side, server_hostname))
        return TlsView(inner, server_side, server_hostname)

    def load_verify_locations(self, *a, **k):
        pass

    def load_default_certs(self, *a, **k):
        pass

    def load_cert_chain(self, *a, **k):
        pass

    def set_ciphers(self, *a, **k):
        pass


class FakeSocketModule:
    """the `socket` module as seen by ioflo.aio.tcp.{clienting,serving}"""

    def __init__(self, net):
        self._net = net

    def socket(self, *a, **k):
        return PairSock(self._net)

    def __getattr__(self, name):
        return getattr(_real, name)


class FakeSslModule:
    """the `ssl` module as seen by ioflo.aio.tcp.{clienting,serving}: default contexts are doubles"""

    def __init__(self):
        self.contexts = []

    def create_default_context(self, *a, **k):
        c = FakeTlsContext()
        self.contexts.append(c)
        return c

    def SSLContext(self, *a, **k):
        return self.create_default_context()

    def __getattr__(self, name):
        return getattr(_ssl, name)


@contextlib.contextmanager
def patched(net, tls=False):
    """route ioflo's tcp server and client classes to `net` while the block runs (and, with tls, their default
    TLS contexts to doubles)"""
    from ioflo.aio.tcp import clienting, serving
    fake = FakeSocketModule(net)
    saved = (serving.socket, clienting.socket, serving.ssl, clienting.ssl)
    serving.socket = fake
    clienting.socket = fake
    if tls:
        serving.ssl = clienting.ssl = FakeSslModule()
    try:
        yield fake
    finally:
        serving.socket, clienting.socket, serving.ssl, clienting.ssl = saved


@contextlib.contextmanager
def quiet():
    """the server reports some errors on sys.stderr: keep them out of the check's output"""
    import io
    import sys
    saved = sys.stderr
    sys.stderr = io.StringIO()
    try:
        yield
    finally:
        sys.stderr = saved


def silence_console():
    from ioflo.aid.consoling import getConsole
    getConsole().reinit(verbosity=0)
