"""C41 - CRC-16/GENIBUS and CRC-64/WE (specs/aid/Crc.tla).

Binding C.  The specification defines a CRC by polynomial long division over GF(2) from the catalogue parameters
(width, poly, init, xorout, not reflected), anchors both models to the catalogue check values and residues (ASSUME),
and gives the bytewise table driven recurrence whose table entries are remainders of that division.  TLC checks on every
case that both definitions agree, that message + checksum leaves the constant residue, that the checksum is affine over
GF(2) and that every single bit error changes it; it writes the (byte string -> crc16, crc64 limbs) table, which the
harness replays against ioflo.aid.checking.crc16 / crc64.

Cases: every byte string of length <= 2 (enumerated inside TLC, sharded over several TLC processes by first byte) and
seeded random strings up to 1 KiB, which the harness hands to TLC as JSON so that the expected values are computed by
the specification, never by the harness.
"""
import json
import os
import random
from concurrent.futures import ThreadPoolExecutor

from .. import env, tlc
from ..replay import Divergence

SPEC_DIR = env.SPECS + "/aid"
INVARIANTS = ["DivIsTab16", "DivIsTab64", "InRange", "Codeword16", "Codeword64", "Affine16", "Affine64", "SingleBit"]
MAX_REPORTED = 4      # divergences reported per function (a broken CRC disagrees on nearly every input)
JVM_OPTS = "-Xmx3g -XX:ParallelGCThreads=2 -XX:CICompilerCount=2"    # many single-worker TLC processes side by side


def _cfg(maxlen, shard, nshards, divmax, step=1):
    s = "SPECIFICATION Spec\nCONSTANTS\n  MaxLen = %d\n  Shard = %d\n  NShards = %d\n  DivMax = %d\n  LemmaStep = %d\n" % (maxlen, shard, nshards, divmax, step)
    s += "".join("INVARIANT %s\n" % i for i in INVARIANTS)
    return s + "CHECK_DEADLOCK FALSE\n"


def random_strings(rng, n, maxlen=1024):
    """seeded random byte strings: every length 3..40 at least once, block boundaries, 1 KiB, structured and random bytes"""
    lens = list(range(3, 41)) + [63, 64, 65, 127, 128, 129, 255, 256, 257, 511, 512, 513, 1000, 1023, 1024]
    out = []
    for i in range(n):
        ln = lens[i] if i < len(lens) else (rng.randint(3, 64) if rng.random() < 0.5 else rng.randint(65, maxlen))
        ln = min(ln, maxlen)
        style = rng.random()
        if style < 0.6:
            m = [rng.randrange(256) for _ in range(ln)]
        elif style < 0.7:
            m = [0] * ln
        elif style < 0.8:
            m = [255] * ln
        elif style < 0.9:                      # sparse: a few set bits in a run of zeros
            m = [0] * ln
            for _ in range(rng.randint(1, 3)):
                m[rng.randrange(ln)] |= 1 << rng.randrange(8)
        else:                                  # leading / trailing zeros around random bytes
            k = rng.randint(0, ln)
            m = [0] * k + [rng.randrange(256) for _ in range(ln - k)]
            if rng.random() < 0.5:
                m.reverse()
        out.append(m)
    return out


def _observe16(r):
    """crc16 is documented to return the 16 bit crc as a packed binary string (network order: appended to the message it
    makes a codeword, see Codeword16 in the spec); an integer result is read as the value itself."""
    if isinstance(r, (bytes, bytearray)):
        return ("len%d" % len(r), int.from_bytes(bytes(r), "big"))
    if isinstance(r, int) and not isinstance(r, bool):
        return ("len2", r)
    return ("type:" + type(r).__name__, None)


def run_c41(ctx):
    env.use_repo()
    from ioflo.aid import checking
    rng = random.Random(ctx.seed * 7919 + 41)
    nshards = max(1, env.NCPU)
    nrand = ctx.pick(240, 6000)
    divmax = ctx.pick(16, 40)
    step = ctx.pick(16, 1)      # quick: the lemmas on every 16th two byte string; the table always holds all of them
    rand = random_strings(rng, nrand)
    work = env.subdir("c41")

    def shard(k):
        cases = os.path.join(work, "cases%d.json" % k)
        out = os.path.join(work, "table%d.json" % k)
        with open(cases, "w") as f:
            json.dump([{"m": m} for m in rand[k::nshards]], f)
        res = tlc.run("Crc", _cfg(2, k, nshards, divmax, step), spec_dir=SPEC_DIR, workers=1,
                      extra_env={"TABLE_OUT": out, "CASES_FILE": cases, "JAVA_TOOL_OPTIONS": JVM_OPTS}, tag="c41-%d" % k)
        return k, res, out

    with ThreadPoolExecutor(max_workers=nshards) as ex:
        results = list(ex.map(shard, range(nshards)))

    table = []
    ngrid = nfile = 0
    for k, res, out in results:
        ctx.add_model(res, "Crc shard %d/%d" % (k, nshards), {"MaxLen": 2, "Shard": k, "NShards": nshards, "DivMax": divmax, "LemmaStep": step})
        if not res.ok:
            ctx.diverge(Divergence("C41", "model", res.error_name or res.error, "Crc",
                                   "a lemma of the CRC specification is violated in the model (catalogue anchor or algebra)",
                                   steps=[{"action": a, "state": s} for a, s in res.trace]))
            return
        for v in tlc.printed_values(res.out):
            if len(v) == 3 and v[0] == "CASES":
                ngrid += v[1]
                nfile += v[2]
        with open(out) as f:
            table.extend(json.load(f))
    # vacuity guards: the whole enumerated space and every random string went through TLC
    if ngrid != 1 + 256 + 65536 or nfile != len(rand) or len(table) != ngrid + nfile:
        raise tlc.TlcError("vacuous or incomplete CRC model run: grid=%d file=%d rows=%d" % (ngrid, nfile, len(table)))
    if sum(1 for r in table if len(r["m"]) > 2) != len(rand) or max(len(r["m"]) for r in table) < 1024:
        raise tlc.TlcError("random CRC cases did not reach the table")

    reported = {"crc16": 0, "crc64": 0}
    nbad = {"crc16": 0, "crc64": 0}

    def bad(fn, kind, m, got, exp):
        nbad[fn] += 1
        if reported[fn] < MAX_REPORTED:
            reported[fn] += 1
            ctx.diverge(Divergence("C41", kind, fn, "checking." + fn,
                                   "len=%d m=%s got %s expected %s" % (len(m), bytes(m[:24]).hex() + ("..." if len(m) > 24 else ""), got, exp),
                                   expected=exp, actual=got, extra={"m": list(m)}))

    n = 0
    for row in table:
        m = row["m"]
        e16 = row["c16"]
        l = row["c64"]
        e64 = ((l[0] << 16) | l[1], (l[2] << 16) | l[3])
        for conv in (bytes, bytearray):
            arg = conv(m)
            try:
                r16 = checking.crc16(arg)
            except Exception as ex:
                bad("crc16", "exception", m, "%s: %s" % (type(ex).__name__, ex), "0x%04x" % e16)
            else:
                shape, v = _observe16(r16)
                if shape != "len2" or v != e16:
                    bad("crc16", "table-mismatch", m, "%s %r" % (shape, r16), "0x%04x" % e16)
            try:
                r64 = checking.crc64(arg)
            except Exception as ex:
                bad("crc64", "exception", m, "%s: %s" % (type(ex).__name__, ex), "(0x%08x, 0x%08x)" % e64)
            else:
                try:
                    t64 = tuple(r64)
                except TypeError:
                    t64 = (r64,)
                if t64 != e64:
                    bad("crc64", "table-mismatch", m, repr(r64), "(0x%08x, 0x%08x)" % e64)
            if arg != conv(m):
                bad("crc16", "table-mismatch", m, "input mutated", "input untouched")
            n += 2
            if len(m) > 2 and conv is bytes:
                break                        # long random strings: one argument type is enough
    for fn, k in nbad.items():
        if k:
            ctx.note("%s disagreed with the specification on %d of %d cases" % (fn, k, len(table)))
    ctx.add_validated(len(table), table[len(table) // 2] if len(table[len(table) // 2]["m"]) < 40 else table[300])
    ctx.sample({"m": "313233343536373839", "c16": "0xd64e", "c64": "0x62ec59e3f1a4f00a", "note": "catalogue check values, ASSUMEd in the spec"})
    ctx.exhaustive = True
    ctx.rule = ("all 65793 byte strings of length 0..2 enumerated by TLC (sharded by first byte) plus %d seeded random strings of "
                "length 3..1024 passed to TLC as JSON; every row of the TLC table replayed against crc16 and crc64 "
                "(bytes and bytearray arguments for the enumerated strings)" % len(rand))
    ctx.extra.update({"evaluations": n, "distinct_nontrivial": len(table), "grid_rows": ngrid, "random_strings": nfile,
                      "longest_string": max(len(r["m"]) for r in table), "tlc_shards": nshards})
    ctx.assume("exhaustive for byte strings of length <= 2 only; longer strings are seeded random samples")
    ctx.assume("crc16's packed result is read in network byte order (the order for which message + checksum is a codeword)")
    ctx.assume("TLC, its Bitwise/Json/SequencesExt Java overrides and the table comparison in vf/families/crc.py are trusted")


PROPERTIES = {"C41": run_c41}
