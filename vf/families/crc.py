"""C41 - CRC-16/GENIBUS and CRC-64/WE (specs/aid/Crc.tla).

Binding C.  The specification defines a CRC by polynomial long division over GF(2) from the catalogue parameters
(width, poly, init, xorout, not reflected), anchors both models to the catalogue check values and residues (ASSUME),
and gives the bytewise table driven recurrence whose table entries are remainders of that division.  TLC checks on every
case that both definitions agree, that message + checksum leaves the constant residue, that the checksum is affine over
GF(2) and that every single bit error changes it; it writes the (byte string -> crc16, crc64 limbs) table, which the
harness replays against ioflo.aid.checking.crc16 / crc64.

Cases: every byte string of length <= 2 (enumerated inside TLC, sharded over several TLC processes by first byte) and
seeded random strings up to 1 KiB, which the harness hands to TLC as JSON so that the expected values are computed by
the specification, never by the harness.
"""
import json
import os
import random
from concurrent.futures import ThreadPoolExecutor

from .. import env, tlc
from ..replay import Divergence

SPEC_DIR = env.SPECS + "/aid"
INVARIANTS = ["DivIsTab16", "DivIsTab64", "InRange", "Codeword16", "Codeword64", "Affine16", "Affine64", "SingleBit"]
MAX_REPORTED = 4      # divergences reported per function (a broken CRC disagrees on nearly every input)
JVM_OPTS = "-Xmx3g -XX:ParallelGCThreads=2 -XX:CICompilerCount=2"    # many single-worker TLC processes side by side


def _cfg(maxlen, shard, nshards, divmax, step=1):
    s = "SPECIFICATION Spec\nCONSTANTS\n  MaxLen = %d\n  Shard = %d\n  NShards = %d\n  DivMax = %d\n  LemmaStep = %d\n" % (maxlen, shard, nshards, divmax, step)
    s += "".join("INVARIANT %s\n" % i for i in INVARIANTS)
    return s + "CHECK_DEADLOCK FALSE\n"


def random_strings(rng, n, maxlen=1024):
    """seeded random byte strings: every length 3..40 at least once, block boundaries, 1 KiB, structured and random bytes"""
    lens = list(range(3, 41)) + [63, 64, 65, 127, 128, 129, 255, 256, 257, 511, 512, 513, 1000, 1023, 1024]
    out = []
    for i in range(n):
        ln = lens[i] if i < len(lens) else (rng.randint(3, 64) if rng.random() < 0.5 else rng.randint(65, maxlen))
        ln = min(ln, maxlen)
        style = rng.random()
        if style < 0.6:
            m = [rng.randrange(256) for _ in range(ln)]
        elif style < 0.7:
            m = [0] * ln
        elif style < 0.8:
            m = [255] * ln
        elif style < 0.9:                      # sparse: a few set bits in a run of zeros
            m = [0] * ln
            for _ in range(rng.randint(1, 3)):
                m[rng.randrange(ln)] |= 1 << rng.randrange(8)
        else:                                  # leading / trailing zeros around random bytes
            k = rng.randint(0, ln)
            m = [0] * k + [rng.randrange(256) for _ in range(ln - k)]
            if rng.random() < 0.5:
                m.reverse()
        out.append(m)
    return out


# ---------------------------------------------------------------- inputs chosen for their OUTPUT (boundary checksums)
# For a fixed prefix the CRC is a bijection on the last width/8 bytes, so a trailer can be picked that drives the checksum
# to any target.  The register is run backwards here ONLY TO PICK INPUTS; what the checksum of the resulting string should
# be is computed forward by Crc.tla like for every other case (and the harness verifies that the spec's value is the
# target it aimed at - otherwise the boundary coverage is not there and the run is a machinery failure).
MODELS = {16: (0x1021, 0xFFFF, 0xFFFF), 64: (0x42F0E1EBA9EA3693, (1 << 64) - 1, (1 << 64) - 1)}      # poly, init, xorout

HALF_LOW = [0xFFFFFFFF, 0xFFFFFFFE, 0xFFFFFC01, 0xFFFFFC00, 0xFFFFFBFF, 0xFFFFF800, 0x80000000, 0x7FFFFFFF, 1, 0]
HALF_HIGH = [0xFFFFFFFF, 0xFFFFFFFE, 0x80000000, 0x7FFFFFFF, 0x00200000, 0x001FFFFF, 0x003FFFFF, 1, 0]
TARGETS64 = [(h << 32) | l for h in HALF_HIGH for l in HALF_LOW] + [0xAAAAAAAAAAAAAAAA, 0x5555555555555555,
             0xAAAAAAAA55555555, 0x55555555AAAAAAAA, 0x0123456789ABCDEF, 0xFFFFFFFF00000000, 0x00000000FFFFFFFF]
TARGETS16 = [0x0000, 0xFFFF, 0x00FF, 0xFF00, 0x8000, 0x7FFF, 0x0001, 0xFFFE, 0xAAAA, 0x5555]


def _register(data, width, reg=None):
    poly, init, _ = MODELS[width]
    top, mask = 1 << (width - 1), (1 << width) - 1
    reg = init if reg is None else reg
    for b in data:
        reg ^= b << (width - 8)
        for _ in range(8):
            reg = ((reg << 1) ^ poly) & mask if reg & top else (reg << 1) & mask
    return reg


def trailer(prefix, want, width):
    """width/8 bytes which appended to prefix are meant to give the checksum `want`"""
    poly, _, xorout = MODELS[width]
    top = 1 << (width - 1)
    v = want ^ xorout
    for _ in range(width):                   # one shift backwards: the polynomial is odd, so bit 0 tells whether it was added
        v = ((v ^ poly) >> 1) | top if v & 1 else v >> 1
    return list((v ^ _register(prefix, width)).to_bytes(width // 8, "big"))


def boundary_strings(rng, nprefix):
    """(string, width, target) triples"""
    prefixes = [[], [0], list(b"123456789"), [rng.randrange(256) for _ in range(40)], [rng.randrange(256) for _ in range(1016)]]
    while len(prefixes) < nprefix:
        prefixes.append([rng.randrange(256) for _ in range(rng.choice([2, 3, 7, 8, 15, 64, rng.randint(1, 300)]))])
    out = []
    for i, pre in enumerate(prefixes[:nprefix]):
        t64 = list(TARGETS64)
        # more values inside the window where a 53 bit float would round the low half up into the high half
        t64 += [(rng.getrandbits(32) << 32) | rng.randint(0xFFFFFC00, 0xFFFFFFFF) for _ in range(6)]
        t64 += [((1 << 31 | rng.getrandbits(31)) << 32) | rng.randint(0xFFFFF000, 0xFFFFFFFF) for _ in range(4)]
        if len(pre) > 300:
            t64 = t64[::5]                   # long prefixes cost TLC more per string
        for t in t64:
            out.append((pre + trailer(pre, t, 64), 64, t))
        for t in TARGETS16:
            if len(pre) + 2 > 2:             # strings of at most two bytes are all enumerated anyway
                out.append((pre + trailer(pre, t, 16), 16, t))
    return out


def plain_strings():
    return [[v] * n for v in (0x00, 0xFF) for n in range(3, 17)]


def _observe16(r):
    """crc16 is documented to return the 16 bit crc as a packed binary string (network order: appended to the message it
    makes a codeword, see Codeword16 in the spec); an integer result is read as the value itself."""
    if isinstance(r, (bytes, bytearray)):
        return ("len%d" % len(r), int.from_bytes(bytes(r), "big"))
    if isinstance(r, int) and not isinstance(r, bool):
        return ("len2", r)
    return ("type:" + type(r).__name__, None)


def run_c41(ctx):
    env.use_repo()
    from ioflo.aid import checking
    rng = random.Random(ctx.seed * 7919 + 41)
    nshards = max(1, env.NCPU)
    nrand = ctx.pick(240, 6000)
    divmax = ctx.pick(16, 40)
    step = ctx.pick(16, 1)      # quick: the lemmas on every 16th two byte string; the table always holds all of them
    rand = random_strings(rng, nrand)
    aimed = boundary_strings(rng, ctx.pick(5, 16))
    plain = plain_strings()
    nrandom = len(rand)
    rand = rand + [m for m, _, _ in aimed] + plain            # everything that goes to TLC as JSON
    work = env.subdir("c41")

    def shard(k):
        cases = os.path.join(work, "cases%d.json" % k)
        out = os.path.join(work, "table%d.json" % k)
        with open(cases, "w") as f:
            json.dump([{"m": m} for m in rand[k::nshards]], f)
        res = tlc.run("Crc", _cfg(2, k, nshards, divmax, step), spec_dir=SPEC_DIR, workers=1,
                      extra_env={"TABLE_OUT": out, "CASES_FILE": cases, "JAVA_TOOL_OPTIONS": JVM_OPTS}, tag="c41-%d" % k)
        return k, res, out

    with ThreadPoolExecutor(max_workers=nshards) as ex:
        results = list(ex.map(shard, range(nshards)))

    table = []
    ngrid = nfile = 0
    for k, res, out in results:
        ctx.add_model(res, "Crc shard %d/%d" % (k, nshards), {"MaxLen": 2, "Shard": k, "NShards": nshards, "DivMax": divmax, "LemmaStep": step})
        if not res.ok:
            ctx.diverge(Divergence("C41", "model", res.error_name or res.error, "Crc",
                                   "a lemma of the CRC specification is violated in the model (catalogue anchor or algebra)",
                                   steps=[{"action": a, "state": s} for a, s in res.trace]))
            return
        for v in tlc.printed_values(res.out):
            if len(v) == 3 and v[0] == "CASES":
                ngrid += v[1]
                nfile += v[2]
        with open(out) as f:
            table.extend(json.load(f))
    # vacuity guards: the whole enumerated space and every random string went through TLC
    if ngrid != 1 + 256 + 65536 or nfile != len(rand) or len(table) != ngrid + nfile:
        raise tlc.TlcError("vacuous or incomplete CRC model run: grid=%d file=%d rows=%d" % (ngrid, nfile, len(table)))
    if sum(1 for r in table if len(r["m"]) > 2) != len(rand) or max(len(r["m"]) for r in table) < 1024:
        raise tlc.TlcError("random CRC cases did not reach the table")

    # the strings picked for their output: the SPEC's checksum must be the target aimed at, else the boundary coverage is missing
    spec = {}
    for r in table:
        if len(r["m"]) > 2:
            l = r["c64"]
            spec[bytes(r["m"])] = (r["c16"], (l[0] << 48) | (l[1] << 32) | (l[2] << 16) | l[3])
    missed = [(bytes(m).hex()[-24:], w, hex(t)) for m, w, t in aimed if spec.get(bytes(m), (None, None))[0 if w == 16 else 1] != t]
    if missed or not aimed:
        raise tlc.TlcError("boundary CRC inputs do not have the checksum they were picked for (harness picking routine wrong?): %r" % missed[:5])
    window = sum(1 for c16, c64 in spec.values() if c64 >> 63 and (c64 & 0xFFFFFFFF) >= 0xFFFFFC00)
    if window < 10 or (1 << 64) - 1 not in [c for _, c in spec.values()]:
        raise tlc.TlcError("no crc64 value with an (almost) all ones low half among the cases")

    reported = {"crc16": 0, "crc64": 0}
    nbad = {"crc16": 0, "crc64": 0}

    def bad(fn, kind, m, got, exp):
        nbad[fn] += 1
        if reported[fn] < MAX_REPORTED:
            reported[fn] += 1
            ctx.diverge(Divergence("C41", kind, fn, "checking." + fn,
                                   "len=%d m=%s got %s expected %s" % (len(m), bytes(m[:24]).hex() + ("..." if len(m) > 24 else ""), got, exp),
                                   expected=exp, actual=got, extra={"m": list(m)}))

    n = 0
    for row in table:
        m = row["m"]
        e16 = row["c16"]
        l = row["c64"]
        e64 = ((l[0] << 16) | l[1], (l[2] << 16) | l[3])
        for conv in (bytes, bytearray):
            arg = conv(m)
            try:
                r16 = checking.crc16(arg)
            except Exception as ex:
                bad("crc16", "exception", m, "%s: %s" % (type(ex).__name__, ex), "0x%04x" % e16)
            else:
                shape, v = _observe16(r16)
                if shape != "len2" or v != e16:
                    bad("crc16", "table-mismatch", m, "%s %r" % (shape, r16), "0x%04x" % e16)
            try:
                r64 = checking.crc64(arg)
            except Exception as ex:
                bad("crc64", "exception", m, "%s: %s" % (type(ex).__name__, ex), "(0x%08x, 0x%08x)" % e64)
            else:
                try:
                    t64 = tuple(r64)
                except TypeError:
                    t64 = (r64,)
                if t64 != e64:
                    bad("crc64", "table-mismatch", m, repr(r64), "(0x%08x, 0x%08x)" % e64)
            if arg != conv(m):
                bad("crc16", "table-mismatch", m, "input mutated", "input untouched")
            n += 2
            if len(m) > 2 and conv is bytes:
                break                        # long random strings: one argument type is enough
    for fn, k in nbad.items():
        if k:
            ctx.note("%s disagreed with the specification on %d of %d cases" % (fn, k, len(table)))
    ctx.add_validated(len(table), table[len(table) // 2] if len(table[len(table) // 2]["m"]) < 40 else table[300])
    ctx.sample({"m": "313233343536373839", "c16": "0xd64e", "c64": "0x62ec59e3f1a4f00a", "note": "catalogue check values, ASSUMEd in the spec"})
    ctx.exhaustive = True
    ctx.rule = ("all 65793 byte strings of length 0..2 enumerated by TLC (sharded by first byte) plus, passed to TLC as JSON, %d seeded "
                "random strings of length 3..1024, %d strings whose trailer was picked so that the checksum is a boundary value "
                "(halves all ones / zero / 0x7FFFFFFF / 0x80000000 / just below and inside the top 1024 values, alternating "
                "bits, 53/54 significant bits; crc16 0, FFFF, 00FF, FF00, 8000 ...) after %d prefixes, and ff.. / 00.. of 3..16 "
                "bytes; every row of the TLC table replayed against crc16 and crc64 (bytes and bytearray arguments for the "
                "enumerated strings)" % (nrandom, len(aimed), ctx.pick(5, 16)))
    ctx.extra.update({"evaluations": n, "distinct_nontrivial": len(table), "grid_rows": ngrid, "random_strings": nrandom, "boundary_output_strings": len(aimed), "plain_ff_00_strings": len(plain), "crc64_in_float_rounding_window": window,
                      "longest_string": max(len(r["m"]) for r in table), "tlc_shards": nshards})
    ctx.assume("exhaustive for byte strings of length <= 2 only; longer strings are seeded random samples")
    ctx.assume("crc16's packed result is read in network byte order (the order for which message + checksum is a codeword)")
    ctx.assume("TLC, its Bitwise/Json/SequencesExt Java overrides and the table comparison in vf/families/crc.py are trusted")


PROPERTIES = {"C41": run_c41}
