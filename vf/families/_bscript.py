"""Shared helpers of the builder-syntax family (C14, C15, C16): build a FloScript text with the real Builder
(through the real Skedder), classify the outcome, and project what was built.

Nothing in /repo is edited: the pre-resolution snapshot is taken by wrapping House.resolve from outside, the token
lists of the commands are logged by wrapping Builder.dispatch from outside.
"""
import json
import os
import re
import traceback

from .. import env

_state = {"installed": False, "pre": None, "dispatch": None}

SCRIPT_ERRORS = ("ParseError", "ResolveError", "ValueError")        # what C14 allows as failure reports
OTHER_IOFLO_ERRORS = ("ParameterError", "RegisterError", "CloneError")  # ioflo's own classes, tolerated (see C14 notes)


def install():
    """import ioflo from the tree under test, silence the console, register the recorder doers of vf.flo.run"""
    if _state["installed"]:
        return
    _state["installed"] = True
    env.use_repo()
    from ..flo import run as florun
    florun._install()
    from ioflo.base import building, housing

    orig_resolve = housing.House.resolve

    def resolve(self):
        if _state["pre"] is not None:
            _state["pre"].append(snapshot_house(self))
        return orig_resolve(self)

    housing.House.resolve = resolve

    orig_dispatch = building.Builder.dispatch

    def dispatch(self, tokens):
        if _state["dispatch"] is not None:
            _state["dispatch"].append(list(tokens))
        return orig_dispatch(self, tokens)

    building.Builder.dispatch = dispatch


# ---------------------------------------------------------------- values printed by TLC

_JSTR = re.compile(r'"\{(?:[^"\\\n]|\\.)*\}"')


def emitted_json(out):
    """JSON objects printed by a specification with PrintT(ToJson(...)).

    Several TLC workers write to stdout concurrently and the text and its line end are written separately, so two
    values can land on one line (followed by empty lines): the values are therefore found as string literals anywhere
    in the output, not line by line.  A literal that does not decode (characters of two writes interleaved) is skipped;
    callers compare the number of values with an independent count and repeat the run with one worker if it differs."""
    rows = []
    for m in _JSTR.finditer(out):
        try:
            v = json.loads(json.loads(m.group(0)))
        except ValueError:
            continue
        if isinstance(v, dict):
            rows.append(v)
    return rows


def run_emitting(run, expected, what):
    """run(workers) -> TlcResult; expected(res) -> number of values that must have been printed (None: unknown).
    Returns (res, rows); repeats once with a single worker when values were lost in the output."""
    res = run(None)
    rows = emitted_json(res.out)
    want = expected(res) if res.ok else None
    if want is not None and len(rows) != want:
        res = run(1)
        rows = emitted_json(res.out)
        want = expected(res) if res.ok else None
        if want is not None and len(rows) != want:
            from ..tlc import TlcError
            raise TlcError("%s: %d values printed, %d expected (also with one worker)" % (what, len(rows), want))
    return res, rows


# ---------------------------------------------------------------- values

def _names():
    from ioflo.base import globaling as G
    return G


def val(x, depth=0):
    """comparable, JSON-able image of a value found in a built structure"""
    from ioflo.base import storing, framing, acting
    from collections.abc import Mapping
    if x is None or isinstance(x, (bool, int, str)):
        return x
    if isinstance(x, float):
        return x
    if isinstance(x, complex):
        return ["complex", x.real, x.imag]
    if isinstance(x, storing.Share):
        return {"share": x.name}
    if isinstance(x, storing.Node):
        return {"node": getattr(x, "name", "?")}
    if isinstance(x, framing.Framer):
        return {"framer": x.name}
    if isinstance(x, framing.Frame):
        return {"frame": x.name}
    if isinstance(x, acting.Act):
        return act_post(x) if depth < 4 else {"act": "..."}
    if isinstance(x, acting.Actor):
        return {"actor": type(x).__name__, "name": x.name}
    if isinstance(x, Mapping):
        return {"map": [[val(k, depth + 1), val(v, depth + 1)] for k, v in x.items()]}
    if isinstance(x, (list, tuple, set, frozenset)) or type(x).__name__ in ("deque", "oset"):
        return [val(v, depth + 1) for v in x]
    if hasattr(x, "_fields"):
        return [type(x).__name__] + [val(v, depth + 1) for v in x]
    return {"obj": type(x).__name__}


def _odict(d):
    return [[k, val(v)] for k, v in (d or {}).items()]


# ---------------------------------------------------------------- snapshot before link resolution

CONTEXT_LISTS = (("benter", "beacts"), ("enter", "enacts"), ("renter", "renacts"), ("precur", "preacts"),
                 ("recur", "reacts"), ("exit", "exacts"), ("rexit", "rexacts"))


def act_pre(a):
    """an Act as the builder left it (actor still a name, nothing resolved)"""
    G = _names()
    from ioflo.base import acting
    actor = a.actor if isinstance(a.actor, str) else type(a.actor).__name__
    pr = a.prerefs or {}
    return {"actor": actor, "neg": isinstance(a, acting.Nact),
            "context": G.ActionContextNames.get(a.context, a.context),
            "inits": _odict(a.inits), "ioinits": _odict(a.ioinits), "parms": _odict(a.parms),
            "prerefs": {k: [[p, list(f)] for p, f in (pr.get(k) or {}).items()] for k in ("inits", "ioinits", "parms")},
            "human": a.human}


def _fname(x):
    return x if isinstance(x, str) or x is None else getattr(x, "name", repr(x))


def frame_pre(fr):
    from collections.abc import Mapping
    auxes = []
    for a in fr.auxes:
        auxes.append({"tag": a.get("tag")} if isinstance(a, Mapping) else _fname(a))
    out = {"name": fr.name, "over": _fname(fr.over), "unders": [_fname(u) for u in fr.unders], "next": _fname(fr.next_),
           "inode": fr.inode, "auxes": auxes}
    for ctx, attr in CONTEXT_LISTS:
        out[ctx] = [act_pre(a) for a in getattr(fr, attr)]
    return out


def framer_pre(f, house):
    G = _names()
    order = "front" if f in house.fronts else "back" if f in house.backs else "mid" if f in house.mids else ""
    moots = [{k: val(v) for k, v in d.items() if k != "count"} for d in f.moots.values()]
    return {"name": f.name, "schedule": G.ScheduleNames.get(f.schedule, f.schedule), "period": f.period, "order": order,
            "first": _fname(f.first), "inode": f.inode, "moots": moots,
            "frames": [frame_pre(fr) for fr in f.frameNames.values()]}


def tasker_pre(t, house):
    G = _names()
    order = "front" if t in house.fronts else "back" if t in house.backs else "mid" if t in house.mids else ""
    out = {"name": t.name, "class": type(t).__name__, "schedule": G.ScheduleNames.get(t.schedule, t.schedule),
           "period": t.period, "order": order}
    if type(t).__name__ == "Logger":
        out.update({"flush": t.flushPeriod, "prefix": t.prefix, "keep": t.keep, "cycle": t.cyclePeriod,
                    "size": t.fileSize, "reuse": t.reuse,
                    "logs": [{"name": l.name, "kind": l.kind, "file": l.baseFilename,
                              "rule": G.LogRuleNames.get(l.rule, l.rule),
                              "loggees": [[tag, sh.name] for tag, sh in l.loggees.items()],
                              "fields": [[tag, list(fl or [])] for tag, fl in getattr(l, "fields", {}).items()]}
                             for l in t.logs]})
    if type(t).__name__ == "Server":
        srv = getattr(t, "server", None)
        out.update({"prefix": getattr(t, "prefix", None),
                    "ha": val(getattr(srv, "ha", None)), "dha": val(getattr(t, "dha", None)),
                    "sha": val(getattr(t, "sha", None))})
    return out


def snapshot_house(house):
    from ioflo.base import framing
    framers = [framer_pre(f, house) for f in house.framers]
    others = [tasker_pre(t, house) for t in house.taskers if not isinstance(t, framing.Framer)]
    return {"house": house.name, "framers": framers, "taskers": others,
            "order": {"fronts": [t.name for t in house.fronts], "mids": [t.name for t in house.mids],
                      "backs": [t.name for t in house.backs], "slaves": [t.name for t in house.slaves],
                      "auxes": [t.name for t in house.auxes], "moots": [t.name for t in house.moots]}}


# ---------------------------------------------------------------- projection after resolution

def act_post(a):
    G = _names()
    from ioflo.base import acting
    actor = a.actor
    out = {"actor": actor if isinstance(actor, str) else type(actor).__name__,
           "name": getattr(actor, "name", None), "neg": isinstance(a, acting.Nact),
           "context": G.ActionContextNames.get(a.context, a.context),
           "frame": _fname(a.frame), "inode": a.inode,
           "parms": [[k, val(v, 1)] for k, v in (a.parms or {}).items()], "human": a.human}
    if not isinstance(actor, str) and actor is not None:
        attrs = {}
        for k, v in sorted(getattr(actor, "__dict__", {}).items()):
            if k.startswith("_") or k in ("store",):
                continue
            attrs[k] = val(v, 2)
        out["attrs"] = attrs
    return out


def frame_post(fr):
    out = {"name": fr.name, "over": _fname(fr.over), "unders": [_fname(u) for u in fr.unders], "next": _fname(fr.next_),
           "inode": fr.inode, "auxes": [_fname(a) for a in fr.auxes], "framer": _fname(fr.framer)}
    for ctx, attr in CONTEXT_LISTS:
        out[ctx] = [act_post(a) for a in getattr(fr, attr)]
    return out


def framer_post(f, house):
    G = _names()
    order = "front" if f in house.fronts else "back" if f in house.backs else "mid" if f in house.mids else ""
    return {"name": f.name, "schedule": G.ScheduleNames.get(f.schedule, f.schedule), "period": f.period, "order": order,
            "first": _fname(f.first), "inode": f.inode, "original": f.original, "insular": f.insular,
            "main": _fname(f.main), "tag": f.tag, "auxes": [[k, _fname(v)] for k, v in f.auxes.items()],
            "frames": [frame_post(fr) for fr in f.frameNames.values()]}


def project_house(house, store=True):
    from ioflo.base import framing, storing
    out = {"house": house.name,
           "framers": [framer_post(f, house) for f in house.framers],
           "taskers": [tasker_pre(t, house) for t in house.taskers if not isinstance(t, framing.Framer)],
           "taskables": [t.name for t in house.taskables],
           "order": {"fronts": [t.name for t in house.fronts], "mids": [t.name for t in house.mids],
                     "backs": [t.name for t in house.backs], "slaves": [t.name for t in house.slaves],
                     "auxes": [t.name for t in house.auxes], "moots": [t.name for t in house.moots]}}
    if store:
        shares = []

        def walk(node, path):
            for k, v in node.items():
                p = path + "." + k if path else k
                if isinstance(v, storing.Share):
                    if p.startswith(("meta.", "ioflo.")) or p in ("time", "realtime", "datetime"):
                        continue      # clock readings and installation facts, not part of what the script builds
                    shares.append([p, [[f, val(x)] for f, x in v.items()]])
                elif isinstance(v, storing.Node):
                    walk(v, p)
        try:
            walk(house.store.shares, "")
        except Exception:
            shares = ["<unwalkable>"]
        out["shares"] = sorted(shares, key=lambda x: x[0])   # the store is a tree of mappings: creation order is not structure
    return out


# ---------------------------------------------------------------- building

def innermost(tb):
    where = None
    for fs in traceback.extract_tb(tb):
        if "/ioflo/" in fs.filename:
            where = "%s:%s" % (fs.filename.split("/ioflo/", 1)[1], fs.name)
    return where or "harness"


def build(text, workdir=None, want_pre=True, want_post=True, want_dispatch=False, keep_skedder=False, period=0.125, files=None):
    """Build script `text`. Returns dict(outcome, etype, msg, where, pre, post, dispatch [, skedder]).
    files: {name: text} written next to the script (targets of `load` commands).

    outcome: "built" | "refused" (Builder.build returned False) | "error" (an exception escaped Builder.build;
    etype = its class name, where = innermost ioflo function)."""
    install()
    from ioflo.base import skedding
    workdir = workdir or env.subdir("bscript")
    path = os.path.join(workdir, "s%d.flo" % os.getpid())
    if files:
        workdir = os.path.join(workdir, "d%d" % os.getpid())     # loaded files keep their names: one directory per process
        os.makedirs(workdir, exist_ok=True)
        path = os.path.join(workdir, "s.flo")
        for name, t in files.items():
            with open(os.path.join(workdir, name), "w") as f:
                f.write(t)
    with open(path, "w") as f:
        f.write(text)
    _state["pre"] = [] if want_pre else None
    _state["dispatch"] = [] if want_dispatch else None
    res = {"outcome": None, "etype": "", "msg": "", "where": "", "pre": None, "post": None, "dispatch": None}
    sk = skedding.Skedder(name="vf", period=period, real=False, filepath=path)
    try:
        ok = sk.build()
        res["outcome"] = "built" if ok else "refused"
    except Exception as ex:
        res["outcome"] = "error"
        res["etype"] = type(ex).__name__
        m = getattr(ex, "message", None)
        res["msg"] = m if isinstance(m, str) else str(ex)
        res["where"] = innermost(ex.__traceback__)
        res["traceback"] = traceback.format_exc()[-1500:]
    finally:
        res["pre"] = _state["pre"]
        res["dispatch"] = _state["dispatch"]
        _state["pre"] = None
        _state["dispatch"] = None
        try:
            os.unlink(path)
        except OSError:
            pass
    if res["outcome"] == "built" and want_post:
        res["post"] = [project_house(h) for h in sk.houses]
    if keep_skedder:
        res["skedder"] = sk
    return res
