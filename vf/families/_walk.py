"""Binding A for specifications that leave choices of the implementation open (nondeterministic actions).

`replay.replay` follows pre-computed paths: fine when every action has one successor.  Where the specification allows
several outcomes of one action (how much a service pass writes, in which order a pass sends and receives ...), a
pre-computed path would pick one outcome and the code another.  `walk` therefore steers the real programs through the
state graph dumped by TLC *on line*: it chooses the next action label (the part the environment / scheduler controls),
performs it on the real programs, projects their state, and moves to the successor(s) of that label whose state agrees
with the projection.  No agreeing successor = the code did something the specification does not allow: a Divergence.

Coverage is counted in (state, action label) pairs performed on the real programs; the walk is steered towards pairs
not performed yet (edges the implementation declined are remembered, so states only reachable through outcomes the
implementation never produces are not chased).
"""
import random
from collections import deque

from ..replay import Divergence, diff, innermost_ioflo_frame, norm


def _agree(state, actual):
    for k, v in actual.items():
        if k in state and diff(norm(state[k]), norm(v), k):
            return False
    return True


def _closest(g, cands, actual):
    """the candidate successor differing in the fewest projected variables, and its first difference"""
    best = None
    for d in cands:
        st = g.states[d]
        bad = [k for k, v in actual.items() if k in st and diff(norm(st[k]), norm(v), k)]
        if best is None or len(bad) < len(best[1]):
            best = (d, bad)
    d, bad = best
    k = sorted(bad)[0]
    return d, diff(norm(g.states[d][k]), norm(actual[k]), k)


class Walker:
    def __init__(self, prop, g, make_adapter, seed=0, max_len=120, stop_after=12):
        self.prop = prop
        self.g = g
        self.make_adapter = make_adapter
        self.rng = random.Random(seed)
        self.max_len = max_len
        self.stop_after = stop_after
        self.labels = {}       # state -> {label: [dst]}
        for s, es in g.out.items():
            d = {}
            for (lab, act, dst) in es:
                d.setdefault(lab, (act, []))[1].append(dst)
            self.labels[s] = d
        self.done = {}         # (state, label) -> set of dst observed
        self.divs = []
        self.steps = 0
        self.traces = 0
        self.edges = set()
        self.sample = None

    # ---- steering
    def _fresh(self, s):
        return [lab for lab in self.labels[s] if (s, lab) not in self.done]

    def _succ(self, s, lab):
        """successors still believed possible for the implementation"""
        if (s, lab) in self.done:
            return self.done[(s, lab)]
        return self.labels[s][lab][1]

    def _plan(self, s, limit=20000):
        """first label of a shortest way from s to a state with a pair not performed yet"""
        seen = {s: None}
        q = deque([s])
        n = 0
        while q and n < limit:
            x = q.popleft()
            labs = list(self.labels[x])
            self.rng.shuffle(labs)
            for lab in labs:
                for d in self._succ(x, lab):
                    n += 1
                    if d in seen:
                        continue
                    seen[d] = (x, lab)
                    if self._fresh(d):
                        while seen[d][0] != s:
                            d = seen[d][0]
                        return seen[d][1]
                    q.append(d)
        return None

    def _choose(self, cur):
        s = next(iter(cur))
        fresh = self._fresh(s)
        if fresh:
            return self.rng.choice(fresh)
        return self._plan(s)

    # ---- one trace
    def _trace(self, init):
        g = self.g
        steps = [{"action": "Init", "state": g.states[init]}]
        try:
            ad = self.make_adapter(g.states[init])
        except Exception as ex:
            self.divs.append(Divergence(self.prop, "exception", "Init", innermost_ioflo_frame(ex.__traceback__),
                                        "%s: %s" % (type(ex).__name__, str(ex)[:200]), steps=steps))
            return 0
        cur = {init}
        new = 0
        try:
            for _ in range(self.max_len):
                lab = self._choose(cur)
                if lab is None:
                    break
                s0 = next(iter(cur))
                (name, args) = self.labels[s0][lab][0]
                self.steps += 1
                try:
                    actual = ad.step(name, args)
                except Exception as ex:
                    steps.append({"action": lab})
                    self.divs.append(Divergence(self.prop, "exception", name, innermost_ioflo_frame(ex.__traceback__),
                                                "%s: %s" % (type(ex).__name__, str(ex)[:200]), steps=steps,
                                                extra={"info": getattr(ad, "info", lambda: None)()}))
                    return new
                cands = [d for s in cur if lab in self.labels[s] for d in self.labels[s][lab][1]]
                nxt = set()
                for s in cur:
                    if lab not in self.labels[s]:
                        continue
                    hit = {d for d in self.labels[s][lab][1] if _agree(g.states[d], actual)}
                    if (s, lab) not in self.done:
                        new += 1
                        self.done[(s, lab)] = set()
                    self.done[(s, lab)] |= hit
                    for d in hit:
                        self.edges.add((s, lab, d))
                    nxt |= hit
                steps.append({"action": lab, "observed": actual})
                if not nxt:
                    d, bad = _closest(g, cands, actual)
                    self.divs.append(Divergence(self.prop, "state-mismatch", name, bad[0],
                                                "expected %r got %r" % (bad[1], bad[2]), steps=steps,
                                                expected=[g.states[c] for c in cands[:4]], actual=actual,
                                                extra={"info": getattr(ad, "info", lambda: None)()}))
                    return new
                cur = nxt
        finally:
            if hasattr(ad, "close"):
                try:
                    ad.close()
                except Exception:
                    pass
            if self.sample is None or (len(steps) > 6 and self.traces % 7 == 0):
                self.sample = [s["action"] for s in steps][:40]
        return new

    def run(self, max_steps):
        g = self.g
        inits = list(g.inits)
        idle = 0
        k = 0
        while self.steps < max_steps and len(self.divs) < self.stop_after and idle < len(inits):
            init = inits[k % len(inits)]
            k += 1
            if not self._fresh(init) and self._plan(init) is None:
                idle += 1
                continue
            self.traces += 1
            got = self._trace(init)
            idle = 0 if got else idle + 1
        return self

    # ---- accounting
    @property
    def pairs_total(self):
        return sum(len(d) for d in self.labels.values())

    @property
    def pairs_done(self):
        return len(self.done)

    def complete(self):
        """every pair reachable through outcomes the implementation produces was performed"""
        for i in self.g.inits:
            if self._fresh(i) or self._plan(i, limit=10 ** 9) is not None:
                return False
        return True
