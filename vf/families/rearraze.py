"""C12, second half: run-time cloning with `rear` and `raze` (specs/flo/RearRaze.tla, RearRazeTrace.tla).

Seeded scripts: a controller framer walks through phase frames that rear clones of two moot templates (one of them
carries a nested clone, named or insular) into two target frames, visit the target frames (the clones then run once per
run of the controller), and raze all / first / last.  The recorded population events (Rear / Raze with the frame's
auxiliaries afterwards, Run with the set of clones whose recorder ran) are validated by TLC against RearRazeTrace.tla:
raze removes only razeable insular clones of the named frame, a razed clone never runs again, its name is free again
(rearing again must succeed), every clone of the active frame runs exactly in the runs of that frame.
"""
import random

from .. import env, tlc, trace
from ..replay import Divergence
from ..flo import run

SPEC_DIR = env.SPECS + "/flo"
_wrapped = False


def _names_inside(framer):
    """names of the clones nested (recursively) inside a clone"""
    out = []
    for fr in framer.frameNames.values():
        for a in fr.auxes:
            if hasattr(a, "name"):
                out.append(a.name)
                out.extend(_names_inside(a))
    return out


def _install():
    global _wrapped
    if _wrapped:
        return
    _wrapped = True
    run._install()
    from ioflo.base import acting

    orig_rear = acting.Rearer.action

    def rear(self, original, clone, schedule, frame, framer, **kw):
        before = [a.name for a in frame.auxes if hasattr(a, "name")]
        r = orig_rear(self, original=original, clone=clone, schedule=schedule, frame=frame, framer=framer, **kw)
        after = [a for a in frame.auxes if hasattr(a, "name")]
        new = [a for a in after if a.name not in before]
        for a in new:
            run.REC.events.append({"ev": "Rear", "frame": frame.name, "name": a.name, "inner": _names_inside(a),
                                   "auxes": [x.name for x in after]})
        if not new:
            run.REC.events.append({"ev": "RearNothing", "frame": frame.name})
        return r

    orig_raze = acting.Razer.action

    def raze(self, who, frame, framer, **kw):
        r = orig_raze(self, who=who, frame=frame, framer=framer, **kw)
        run.REC.events.append({"ev": "Raze", "frame": frame.name, "which": who,
                               "auxes": [a.name for a in frame.auxes if hasattr(a, "name")]})
        return r

    acting.Rearer.action = rear
    acting.Razer.action = raze


TEMPLATES = """
  framer TA be moot first ta0
    frame ta0
      do vfrec at recur with tag "ta"
      go next if recurred >= 2
    frame ta1
      do vfrec at recur with tag "ta"

  framer TB be moot first tb0
    frame tb0
      aux TA as %s
      aux TA as mine
      aux TA as mine
      do vfrec at recur with tag "tb"
"""


def gen_script(rng):
    nested = rng.choice(("inner", "mine", "mine", "inner"))
    lines = ["house h1", "", "  framer ctl be active first p0"]
    targets = ["f1", "f2"]
    phases = []
    nph = rng.randint(4, 9)
    static = {}
    for i in range(nph):
        k = rng.random()
        if k < 0.4:
            ops = [("rear", rng.choice(("TA", "TA", "TB")), rng.choice(targets), rng.random() < 0.5) for _ in range(rng.randint(1, 3))]
            phases.append(("rear", ops))
        elif k < 0.7:
            phases.append(("visit", rng.choice(targets), rng.randint(1, 3)))
        else:
            phases.append(("raze", rng.choice(("all", "first", "last")), rng.choice(targets)))
    phases.append(("visit", "f1", 2))
    phases.append(("visit", "f2", 1))
    # static (script-declared) insular clones in a target: never razeable
    for t in targets:
        if rng.random() < 0.4:
            static[t] = rng.choice(("TA", "TB"))
    n = 0
    body = []
    for ph in phases:
        name = "p%d" % n
        n += 1
        if ph[0] == "rear":
            body.append("    frame %s" % name)
            for (_, orig, tgt, longform) in ph[1]:
                body.append("      rear %s as mine be aux in frame %s" % (orig, tgt) if longform else "      rear %s in frame %s" % (orig, tgt))
            body.append("      go next")
        elif ph[0] == "raze":
            body.append("    frame %s" % name)
            body.append("      raze %s in frame %s" % (ph[1], ph[2]))
            body.append("      go next")
        else:
            # go to the target frame, stay k runs, come back to the next phase
            body.append("    frame %s" % name)
            body.append("      put %d into ctl.back" % (n,))
            body.append("      put %d into ctl.stay" % ph[2])
            body.append("      go %s" % ph[1])
    body.append("    frame p%d" % n)
    body.append("      bid stop all")
    lines += body
    for t in targets:
        lines.append("    frame %s" % t)
        if t in static:
            lines.append("      aux %s as mine" % static[t])
        lines.append("      do vfrec at recur with tag \"%s\"" % t)
        for j in range(n + 1):
            lines.append("      go p%d if recurred >= ctl.stay and ctl.back == %d" % (j, j))
    lines.append(TEMPLATES % nested)
    return "\n".join(lines) + "\n", targets


def population_trace(events, house, targets):
    """reduce the recorded event stream to population events"""
    out = [{"ev": "Header"}]
    ctl = [f for f in house.framers if f.name == "ctl"][0]
    for t in targets:
        fr = ctl.frameNames[t]
        for a in fr.auxes:
            if hasattr(a, "name") and not getattr(a, "razeable", False):
                pass
    return out


def run_case(script, targets, max_ticks=60):
    _install()
    prog = {"tick": 1, "shares": {}, "order": ["ctl"]}
    r = run.run(prog, script=script, envs={}, max_ticks=max_ticks)
    if r["error"]:
        return None, r
    evs = r["events"]
    out = [{"ev": "Header"}]
    # script-declared clones: present after the build and before any Rear
    house = run.REC.house
    ctl = [f for f in house.framers if f.name == "ctl"][0]
    reared = {e["name"] for e in evs if e["ev"] == "Rear"}
    # static clones = auxiliaries of the target frames at the end that were never reared, plus those razed... (never razeable)
    statics = []
    for t in targets:
        fr = ctl.frameNames[t]
        for a in fr.auxes:
            if hasattr(a, "name") and a.name not in reared:
                statics.append({"ev": "Static", "frame": t, "name": a.name, "inner": _names_inside(a)})
    out.extend(statics)
    ran = set()
    active = None
    for e in evs:
        if e["ev"] == "Rear":
            out.append({k: e[k] for k in ("ev", "frame", "name", "inner", "auxes")})
        elif e["ev"] == "RearNothing":
            out.append({"ev": "RearNothing", "frame": e["frame"]})
        elif e["ev"] == "Raze":
            out.append({k: e[k] for k in ("ev", "frame", "which", "auxes")})
        elif e["ev"] == "Rec" and e["ctx"] == "recur":
            if e["framer"] == "ctl":
                active = e["frame"]
            else:
                ran.add(e["framer"])
        elif e["ev"] == "Yield" and e["t"] == "ctl" and e.get("top"):
            if active in targets and e["ctl"] in ("run", "start"):
                out.append({"ev": "Run", "frame": active, "ran": sorted(ran)})
            elif ran:
                out.append({"ev": "Run", "frame": "none", "ran": sorted(ran)})
            ran = set()
            active = None
    return out, r


def run_part(ctx, prop="C12"):
    """called from the C12 check"""
    rng = random.Random(ctx.seed * 7 + 3)
    # the model itself
    cfg = ('SPECIFICATION Spec\nCONSTANTS\n  Frames = {"f1", "f2"}\n  Names = {"a", "b", "c"}\n  MaxClones = 2\nCONSTRAINT Bound\n'
           "INVARIANT NamesUnique\nINVARIANT UsedIsLive\nINVARIANT RazedNeverRuns\nINVARIANT GoneNotLive\nPROPERTY RazeOnlyRazeable\n")
    res = tlc.run("RearRaze", cfg, spec_dir=SPEC_DIR, tag="rearraze")
    ctx.add_model(res, "RearRaze")
    if not res.ok:
        ctx.diverge(Divergence(prop, "model", res.error_name or res.error, "RearRaze", "population property violated in the model"))
        return
    tlc.require_coverage(res, ["Static", "Rear", "Raze", "Run"], "RearRaze")
    n = ctx.pick(60, 800)
    traces, scripts = [], []
    for i in range(n):
        script, targets = gen_script(rng)
        tr, r = run_case(script, targets)
        if tr is None:
            ctx.diverge(Divergence(prop, "exception", "RearRaze", r["error"].split(":")[1] if ":" in r["error"] else "run",
                                   r["error"][:200], extra={"script": script, "traceback": r.get("traceback", "")[-1500:]}))
            continue
        traces.append(tr)
        scripts.append(script)
    tcfg = ('SPECIFICATION TraceSpec\nCONSTANTS\n  Frames = {"f1", "f2", "none"}\n  Names = {"x"}\n  MaxClones = 99\n'
            "CONSTRAINT TraceOK\nCHECK_DEADLOCK FALSE\nINVARIANT NamesUnique\nINVARIANT UsedIsLive\nINVARIANT RazedNeverRuns\nINVARIANT GoneNotLive\n")
    out = trace.validate("RearRazeTrace", tcfg, SPEC_DIR, traces, batch=100)
    ctx.states += out.states
    ctx.transitions += out.generated
    ctx.add_validated(len(out.accepted), {"script": scripts[0][:1200], "population_events": traces[0][:10]} if traces else None)
    for j, pref in sorted(out.rejected.items())[:10]:
        ev = traces[j][pref] if 0 <= pref < len(traces[j]) else {}
        inv = [m for m in out.model_errors if m[0] == j]
        ctx.diverge(Divergence(prop, "rejected", ev.get("ev", "?") if not inv else (inv[0][2] or "invariant"), "rear/raze population",
                               "recorded clone population history is not a behaviour of RearRaze.tla at event %d: %r" % (pref, ev),
                               steps=traces[j][max(0, pref - 5):pref + 1], extra={"script": scripts[j]}))
    ctx.extra["rearraze_scripts"] = n
    ctx.extra["rearraze_accepted"] = len(out.accepted)
