"""C36 - stream stacks deliver every queued packet to the peer intact (specs/net/StreamStack.tla).

Real proto.TcpClientStack objects (over tcp.Client) are connected to one real proto.TcpServerStack (over tcp.Server and
its Incomers) through in-memory pairs of socket doubles: what one end's socket accepts is what the other end's recv hands
over.  No kernel socket exists; `socket` inside tcp.clienting / tcp.serving is replaced.  The stacks run unmodified;
their packet class (proto.packeting.Packet, which takes a whole receive as one packet) is replaced by a length-prefixed
test packet class, so that framing - partial packets, several packets per receive - is exercised through the stacks' own
parserize().

  A  complete state graphs of StreamStack.tla (queueing in both directions, service calls of either side in any order, the
     socket accepting any number of the pending bytes, any part of the bytes in flight arriving, in single bytes or at
     once) replayed edge by edge; after every step, for every direction of every connection: the bytes the sender's socket
     accepted, the bytes held by the receiving side and the packets delivered to .rxPkts are compared byte for byte with
     the stream of queued packets.
"""
from concurrent.futures import ThreadPoolExecutor

from .. import doubles_net as dn
from .. import env, graph, replay, tlc
from ..replay import Divergence
from ._net import jvm_env
from ._netstacks import PairSock, RecDeque, make_len_packet, quiet_console, guarded

SPEC_DIR = env.SPECS + "/net"
SRV = ("127.0.0.1", 7200)
ACTIONS = ["Transmit", "ServeClient", "ServeServer"]
BIG = 1 << 20


def cfg_text(k, props=True):
    s = ("SPECIFICATION Spec\nCONSTANTS\n  NPeers = %d\n  MaxUp = %d\n  MaxDown = %d\n  Sizes = {%s}\n  Chunks = {%s}\n  MaxSvc = %d\n  MaxB = %d\n"
         % (k["NPeers"], k["MaxUp"], k["MaxDown"], ", ".join(map(str, k["Sizes"])), ", ".join(map(str, k["Chunks"])),
            k["MaxSvc"], k["MaxB"]))
    if props:
        s += "INVARIANT PeerGetsExactBytesInOrder\nINVARIANT EveryRxByteInExactlyOnePacket\nPROPERTY Progress\n"
    return s


class PairAdapter:
    """NPeers real client stacks connected to one real server stack over PairSock doubles"""

    def __init__(self, init):
        env.use_repo()
        from ioflo.aio.proto import packeting, stacking
        from ioflo.aio.tcp import clienting, serving
        quiet_console()
        self.undo = []
        self.np = max(int(s[0]) for s in init["sz"].keys())
        self.LenPacket = make_len_packet(packeting)
        # the stacks look their packet class up as packeting.Packet each time they packetize / parserize
        self.undo.append(dn.install(stacking, "packeting", _Namespace(packeting, Packet=self.LenPacket)))
        cfake = dn.FakeSocketModule(factory=lambda fam, typ, proto: PairSock(name="client", family=fam, type=typ, proto=proto))
        sfake = dn.FakeSocketModule()
        self.undo.append(dn.install(clienting, "socket", cfake))
        self.undo.append(dn.install(serving, "socket", sfake))
        try:
            self.server = stacking.TcpServerStack(ha=SRV, name="server", rxPkts=RecDeque())
            self.listen = sfake.last
            if self.listen is None or not self.listen.listening:
                raise AssertionError("the server stack did not open a listening socket double")
            self.clients, self.csock, self.ssock, self.ca = {}, {}, {}, {}
            for p in range(1, self.np + 1):
                c = stacking.TcpClientStack(ha=SRV, name="client%d" % p, rxPkts=RecDeque())
                a = cfake.last
                c.serviceAll()           # connect_ex answers 0: connected
                if not c.handler.connected:
                    raise AssertionError("client stack %d did not connect over its socket double" % p)
                ca = a.getsockname()
                b = PairSock(name="server-side%d" % p, peer=ca, sockname=self.server.handler.eha, connected=True)
                a.link(b)
                self.listen.push("accept", dn.conn(b, ca))
                self.clients[p], self.csock[p], self.ssock[p], self.ca[p] = c, a, b, ca
            self.server.serviceAll()     # accepts every connection
            if sorted(self.server.handler.ixes.keys()) != sorted(self.ca.values()):
                raise AssertionError("the server stack did not accept the connections offered")
        except Exception:
            self.close()
            raise
        self.pkts = {}      # stream -> [packed bytes of each queued packet]
        self.last = {}      # stream -> (the caller's last packet object, its bytes)
        self.mine = []      # every packet object the caller made, with the bytes it packed to
        self.nq = 0

    def close(self):
        for u in reversed(self.undo):
            u()
        self.undo = []

    # ---- projection
    def _delivered(self, s):
        p, d = s
        if d == "up":
            return [bytes(pkt.packed) for (pkt, ca) in self.server.rxPkts.log if ca == self.ca[p]]
        return [bytes(pkt.packed) for pkt in self.clients[p].rxPkts.log]

    def _buffer(self, s):
        p, d = s
        if d == "up":
            ix = self.server.handler.ixes.get(self.ca[p])
            return bytes(ix.rxbs) if ix is not None else b"(no connection)"
        return bytes(self.clients[p].rxbs)

    def project(self):
        sentb, recvb, parsed = {}, {}, {}
        for p in range(1, self.np + 1):
            for d in ("up", "down"):
                s = (p, d)
                pk = self.pkts.get(s, [])
                stream = b"".join(pk)
                tx = self.csock[p] if d == "up" else self.ssock[p]
                rx = self.ssock[p] if d == "up" else self.csock[p]
                sent = bytes(tx.sent)
                sentb[s] = len(sent) if stream[:len(sent)] == sent else ("not the queued bytes", tuple(sent))
                got = self._delivered(s)
                held = b"".join(got) + self._buffer(s)
                if held != bytes(rx.delivered):
                    recvb[s] = ("bytes handed over by the socket", tuple(bytes(rx.delivered)), "held in packets and buffer", tuple(held))
                elif stream[:len(held)] != held:
                    recvb[s] = ("not the queued bytes", tuple(held))
                else:
                    recvb[s] = len(held)
                parsed[s] = len(got) if got == pk[:len(got)] else ("not the queued packets", tuple(tuple(x) for x in got))
        # a packet handed to transmit() is still the caller's: its bytes must be what they were
        for (pkt, wire) in self.mine:
            if bytes(pkt.packed) != wire:
                for s in sentb:
                    if wire in self.pkts.get(s, []):
                        sentb[s] = ("the caller's packet was changed by the stack", tuple(wire), "now", tuple(bytes(pkt.packed)))
        return {"sentb": sentb, "recvb": recvb, "parsed": parsed}

    # ---- steps
    def step(self, name, args, expected):
        if name == "Transmit":
            p, d, n, how = int(args[0]), str(args[1]), int(args[2]), str(args[3])
            st = self.clients[p] if d == "up" else self.server
            if how == "same":          # the caller queues its last packet object once more
                pkt, wire = self.last[(p, d)]
            else:
                self.nq += 1
                body = bytes((0x41 + (self.nq * 7 + i) % 26) for i in range(n - 1))
                pkt, wire = self.LenPacket(stack=st, payload=body), bytes([n - 1]) + body
                self.last[(p, d)] = (pkt, wire)
                self.mine.append((pkt, wire))
            if d == "up":
                st.transmit(pkt)
            else:
                st.transmit(pkt, self.ca[p])
            self.pkts.setdefault((p, d), []).append(wire)
        elif name == "ServeClient":
            p, a, r, c = int(args[0]), int(args[1]), int(args[2]), int(args[3])
            k = self.csock[p]
            k.tx_budget, k.rx_budget, k.chunk = a, r, c
            try:
                self.clients[p].serviceAll()
            finally:
                k.quiet()
        elif name == "ServeServer":
            a, r, c = args[0], args[1], int(args[2])
            for p in range(1, self.np + 1):
                k = self.ssock[p]
                k.tx_budget, k.rx_budget, k.chunk = int(_at(a, p)), int(_at(r, p)), c
            try:
                self.server.serviceAll()
            finally:
                for p in range(1, self.np + 1):
                    self.ssock[p].quiet()
        else:
            raise NotImplementedError(name)
        return self.project()


class _Namespace(object):
    """stands in for a module: the given names are replaced, everything else is the module's"""

    def __init__(self, module, **names):
        self._module = module
        self.__dict__.update(names)

    def __getattr__(self, name):
        return getattr(self._module, name)


def _at(f, p):
    return f[p] if isinstance(f, dict) else f[p - 1]


def run_c36(ctx):
    ctx.rule = ("complete state graphs of StreamStack.tla per configuration (direction(s), packets, sizes): every interleaving of "
                "queueing and service calls of client / server stacks, per call every number of bytes accepted by the socket and "
                "every number of in-flight bytes arriving, delivered byte-wise or at once; every edge replayed on real "
                "TcpClientStack / TcpServerStack objects joined by in-memory socket doubles; sent bytes, held bytes and "
                "delivered packets compared byte for byte per direction; distinct = graph edges")
    ctx.assume("TLC, vf/doubles_net.py, the in-memory socket pair and the projection functions are trusted")
    ctx.assume("the stacks' packet class is replaced by a length-prefixed test packet class (proto.packeting.Packet takes a whole receive as one packet)")
    ch = [1, 9]
    configs = ctx.pick(
        [("up", {"NPeers": 1, "MaxUp": 2, "MaxDown": 0, "Sizes": [2, 3], "Chunks": ch, "MaxSvc": 5, "MaxB": 6}),
         ("down", {"NPeers": 1, "MaxUp": 0, "MaxDown": 2, "Sizes": [2, 3], "Chunks": ch, "MaxSvc": 5, "MaxB": 6}),
         ("both", {"NPeers": 1, "MaxUp": 1, "MaxDown": 1, "Sizes": [2], "Chunks": ch, "MaxSvc": 4, "MaxB": 2}),
         ("two", {"NPeers": 2, "MaxUp": 1, "MaxDown": 1, "Sizes": [2], "Chunks": [9], "MaxSvc": 3, "MaxB": 2})],
        [("up", {"NPeers": 1, "MaxUp": 3, "MaxDown": 0, "Sizes": [1, 2, 3], "Chunks": ch, "MaxSvc": 6, "MaxB": 9}),
         ("down", {"NPeers": 1, "MaxUp": 0, "MaxDown": 3, "Sizes": [1, 2, 3], "Chunks": ch, "MaxSvc": 6, "MaxB": 9}),
         ("both", {"NPeers": 1, "MaxUp": 2, "MaxDown": 2, "Sizes": [2], "Chunks": ch, "MaxSvc": 5, "MaxB": 4}),
         ("two", {"NPeers": 2, "MaxUp": 1, "MaxDown": 1, "Sizes": [2], "Chunks": [9], "MaxSvc": 4, "MaxB": 2})])
    d = env.subdir("c36")

    def model(job):
        tag, k = job
        return tlc.run("StreamStack", cfg_text(k), spec_dir=SPEC_DIR, dump_dot="%s/%s.dot" % (d, tag), deadlock=False,
                       tag="c36" + tag, extra_env=jvm_env(ctx.quick), workers=max(1, env.NCPU // len(configs)))

    with ThreadPoolExecutor(max_workers=len(configs)) as ex:
        results = list(ex.map(model, configs))
    total = cov = nsteps = 0
    for (tag, k), res in zip(configs, results):
        name = "StreamStack/%s" % tag
        ctx.add_model(res, name, k)
        if not res.ok:
            ctx.diverge(Divergence("C36", "model", res.error_name or res.error, name, "specification property violated in the model",
                                   steps=[{"action": a, "state": st} for a, st in res.trace]))
            continue
        tlc.require_coverage(res, ACTIONS, name)
        g = graph.load_dot("%s/%s.dot" % (d, tag))
        # vacuity: a packet split over two receives and two packets in one receive must occur
        split = sum(1 for st in g.states.values() for s in st["recvb"] if 0 < st["recvb"][s] and
                    st["recvb"][s] not in _bounds(st["sz"][s]))
        multi = sum(1 for u, es in g.out.items() for (lab, act, v) in es for s in g.states[v]["parsed"]
                    if g.states[v]["parsed"][s] - g.states[u]["parsed"][s] >= 2)
        if not split or (max(k["MaxUp"], k["MaxDown"]) >= 2 and not multi):
            raise tlc.TlcError("vacuous model run (%s): partial packets %d, coalesced packets %d" % (name, split, multi))
        paths = graph.edge_cover(g, max_len=40)
        traces = replay.graph_paths_to_traces(g, paths)
        n, divs = replay.replay("C36", traces, guarded(PairAdapter))
        for dv in divs:
            dv.where = "%s:%s" % (tag, dv.where)
        ctx.diverge(divs)
        total += g.nedges
        cov += graph.covered_edges(paths)
        nsteps += n
        ctx.add_validated(len(traces), {"config": tag, "path": [x[0] for x in traces[len(traces) // 2]][:20]})
    ctx.exhaustive = (cov == total and total > 0)
    ctx.extra.update({"graph_edges": total, "edges_replayed": cov, "distinct_nontrivial": cov, "evaluations": nsteps,
                      "configurations": [dict(k, name=t) for t, k in configs]})


def _bounds(sizes):
    out, acc = {0}, 0
    for n in sizes:
        acc += int(n)
        out.add(acc)
    return out


PROPERTIES = {"C36": run_c36}
