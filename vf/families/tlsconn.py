"""X-tlsconn - connection establishment of the TCP layer (specs/net/ConnClient.tla, ConnServer.tla and their *Trace modules).

What C24-C28 abstract to "the attempt succeeds or is pending" is modelled step by step here:

  client   tcp.Client / tcp.ClientTls (not reconnectable): open / reopen / close, serviceConnect() / connect() with the
           kernel's answer to connect_ex (0, EISCONN, EINPROGRESS, EALREADY, EWOULDBLOCK, ECONNREFUSED, EINVAL, ETIMEDOUT,
           EHOSTUNREACH, ENETUNREACH, or raising) and the TLS layer's answer to do_handshake (ok, want-read, want-write,
           EOF, a connection-loss errno, ssl.SSLError, another OSError) chosen by the model, tx() / serviceTxes() /
           serviceReceives() in every state of the connection;
  server   tcp.Server / tcp.ServerTls: arrivals at the listen socket, serviceConnects() with every combination of handshake
           answers (ok, want, lost, failed), transmitIx / closeIx / removeIx on connections in every state (also while the
           handshake is pending), serviceReceivesAllIx + serviceTxesAllIx, the peer closing, closeAll().

Bindings (all over vf/doubles_net.py socket doubles - no kernel socket, ssl below a FakeTlsContext):
  A  the complete state graph of each specification is walked together with the real objects (_netstacks.conform): the
     environment part of every step is executed on the real object, the projection of the real object must agree with one of
     the specification's successors (the specification leaves the implementation a few documented choices);
  B  seeded random scripts are run on the real objects, logged as events and validated by TLC against ConnClientTrace.tla /
     ConnServerTrace.tla (TLC looks for the implementation choice that explains each recorded step).
"""
import errno
import random
import socket as _socket
import ssl as _ssl
from concurrent.futures import ThreadPoolExecutor

from .. import doubles_net as dn
from .. import env, graph, tlc
from ..replay import Divergence
from ._net import jvm_env, validate_jobs
from . import _netstacks
from ._netstacks import conform, quiet_console

PROP = "X-tlsconn"
SPEC_DIR = env.SPECS + "/net"
PEER = ("10.0.0.9", 5009)
LOCAL = ("127.0.0.1", 6101)
LOSS = (errno.ECONNRESET, errno.ENETRESET, errno.ENETUNREACH, errno.EHOSTUNREACH, errno.ENETDOWN, errno.EHOSTDOWN,
        errno.ETIMEDOUT, errno.ECONNREFUSED)
HSLOSS = LOSS + (errno.ECONNABORTED,)

RC_ALL = ["OK", "EISCONN", "EINPROGRESS", "EALREADY", "EWOULDBLOCK", "ECONNREFUSED", "EINVAL", "ETIMEDOUT", "EHOSTUNREACH",
          "ENETUNREACH", "RAISE"]
HS_ALL = ["ok", "wantread", "wantwrite", "eof", "loss", "sslerror", "oserror"]
RC_CLASS = {"OK": "ok", "EISCONN": "ok", "EINPROGRESS": "pend", "EALREADY": "pend", "EWOULDBLOCK": "pend", "ECONNREFUSED": "hard",
            "EINVAL": "hard", "ETIMEDOUT": "hard", "EHOSTUNREACH": "hard", "ENETUNREACH": "hard", "RAISE": "raise", "na": "na"}
HS_CLASS = {"ok": "ok", "wantread": "want", "wantwrite": "want", "eof": "loss", "loss": "loss", "sslerror": "fatal",
            "oserror": "fatal", "na": "na"}

CLIENT_INVS = ["TypeOK", "FlagsConsistent", "ConnectedOnlyAfterSuccess", "QueueSurvives", "LossCutsOff", "OnlyFailuresRaise",
               "FailedIsNotConnected"]
CLIENT_PROPS = ["NoDataBeforeEstablished", "NoIoUnlessConnected", "PendingKeepsSocket", "WantKeepsSocket"]
CLIENT_ACTIONS = ["Open", "Reopen", "Close", "Connect", "Queue", "ServiceTx", "ServiceRx"]
SERVER_INVS = ["TypeOK", "NoIoBeforeReady", "ClosedConsistent", "AllClosedWhenOver"]
SERVER_PROPS = ["PendingNeverBlocks", "OnlyOwnEntry"]
SERVER_ACTIONS = ["Arrive", "PeerClose", "ServiceConnects", "Transmit", "ServiceIo", "CloseIx", "RemoveIx", "CloseAll"]


def _set(xs):
    return "{%s}" % ", ".join('"%s"' % x for x in xs)


def client_cfg(k, spec="Spec", props=True):
    s = ("SPECIFICATION %s\nCONSTANTS\n  Kinds = %s\n  Rcs = %s\n  Hss = %s\n  MaxSocks = %d\n  MaxMsgs = %d\n  MaxRx = %d\n"
         % (spec, _set(k["Kinds"]), _set(k["Rcs"]), _set(k["Hss"]), k["MaxSocks"], k["MaxMsgs"], k["MaxRx"]))
    for i in CLIENT_INVS:
        s += "INVARIANT %s\n" % i
    if props:
        for p in CLIENT_PROPS:
            s += "PROPERTY %s\n" % p
    return s


def server_cfg(k, spec="Spec", props=True):
    s = ("SPECIFICATION %s\nCONSTANTS\n  Kinds = %s\n  N = %d\n  Anss = %s\n  MaxQ = %d\n"
         % (spec, _set(k["Kinds"]), k["N"], _set(k["Anss"]), k["MaxQ"]))
    for i in SERVER_INVS:
        s += "INVARIANT %s\n" % i
    if props:
        for p in SERVER_PROPS:
            s += "PROPERTY %s\n" % p
    return s


_Deadline = _netstacks.deadline


class deadline(_Deadline):
    """the SIGALRM deadline of _netstacks with a limit that a crowded machine cannot reach: a step of the code under test
    takes microseconds, but a starved process has been seen to stall for half a minute; only an endless loop takes 10 min"""

    def __init__(self, seconds=600):
        _Deadline.__init__(self, max(seconds, 600))


class Escaped(Exception):
    """the code under test raised out of a step of a random execution (not a failure of the machinery)"""

    def __init__(self, ex, evs, step):
        Exception.__init__(self, "%s: %s" % (type(ex).__name__, ex))
        self.ex, self.evs, self.step = ex, evs, step


# ------------------------------------------------------------------ client side doubles
class Box(object):
    """the environment's answers for the current call, shared by every socket of one client (a call may open a new one)"""

    def __init__(self):
        self.wire = bytearray()       # every byte any socket of the client accepted, in order
        self.n = 0                    # rotates the concrete errno within a class of answers
        self.arm()

    def arm(self, rc=None, hs=None, tx="na", rx="na", byte=0):
        self.rc, self.hs, self.tx, self.rx, self.byte = rc, hs, tx, rx, byte
        self.used = {"connect_ex": 0, "do_handshake": 0, "send": 0, "recv": 0}
        self.got = {"rc": "na", "hs": "na", "tx": "na", "rx": "na"}    # the answers actually given
        self.unforeseen = []


class BoxSocket(dn.ScriptedSocket):
    """socket double answering connect_ex / do_handshake / send / recv from the Box of its client"""

    def __init__(self, box, **kw):
        super(BoxSocket, self).__init__(**kw)
        self.box = box

    def _next(self, op):
        b = self.box
        if op not in b.used:
            return super(BoxSocket, self)._next(op)
        b.used[op] += 1
        b.n += 1
        first = b.used[op] == 1
        if op == "connect_ex":
            if first and b.rc is not None:
                b.got["rc"] = b.rc
                return _rc_answer(b.rc, b.n)
            b.unforeseen.append(op)
            return dn.rc(errno.EALREADY)
        if op == "do_handshake":
            if first and b.hs is not None:
                b.got["hs"] = b.hs
                return _hs_answer(b.hs, b.n)
            b.unforeseen.append(op)
            return dn.WANT_READ
        if op == "send":
            if b.tx == "na":
                b.unforeseen.append(op)
                return dn.BLOCK
            b.got["tx"] = b.tx
            if b.tx == "all":
                return dn.FULL
            if not first:
                return dn.BLOCK
            return {"one": dn.partial(1), "block": dn.BLOCK, "loss": dn.err(LOSS[b.n % len(LOSS)])}[b.tx]
        if b.rx == "na":
            b.unforeseen.append(op)
            return dn.BLOCK
        b.got["rx"] = b.rx
        if not first:
            return dn.BLOCK
        return {"data": dn.data(bytes([b.byte])), "block": dn.BLOCK, "closed": dn.CLOSED,
                "loss": dn.err(LOSS[b.n % len(LOSS)])}[b.rx]

    def send(self, data, flags=0):
        k = super(BoxSocket, self).send(data, flags)
        self.box.wire.extend(bytes(data[:k]))
        return k


def _rc_answer(rc, n):
    if rc == "OK":
        return dn.rc(0)
    if rc == "RAISE":
        return dn.exc(_socket.gaierror(_socket.EAI_NONAME, "Name or service not known (scripted)")) if n % 2 else dn.err(errno.ENOMEM)
    return dn.rc(getattr(errno, rc))


def _hs_answer(hs, n):
    if hs == "ok":
        return dn.OK
    if hs == "wantread":
        return dn.WANT_READ
    if hs == "wantwrite":
        return dn.WANT_WRITE
    if hs == "eof":
        return dn.TLS_EOF
    if hs == "loss":
        return dn.err(HSLOSS[n % len(HSLOSS)])
    if hs == "sslerror":
        if n % 2:
            return dn.exc(_ssl.SSLError(_ssl.SSL_ERROR_SSL, "[SSL: WRONG_VERSION_NUMBER] wrong version number (scripted)"))
        return dn.exc(_ssl.SSLCertVerificationError(_ssl.SSL_ERROR_SSL, "[SSL: CERTIFICATE_VERIFY_FAILED] (scripted)"))
    if hs == "oserror":
        return dn.err(errno.EPIPE if n % 2 else errno.ENOMEM)
    raise ValueError(hs)


class ClientAdapter(object):
    """one real tcp.Client / tcp.ClientTls whose sockets are BoxSockets"""

    def __init__(self, init):
        env.use_repo()
        from ioflo.aio.tcp import clienting
        quiet_console()
        self.kind = str(init["kind"])
        self.box = Box()
        self.fake = dn.FakeSocketModule(factory=lambda fam, typ, proto: BoxSocket(
            self.box, name="s%d" % (len(self.fake.created) + 1), family=fam, type=typ, proto=proto))
        self.undo = [dn.install(clienting, "socket", self.fake)]
        if self.kind == "plain":
            self.x = clienting.Client(ha=PEER)
        else:
            self.x = clienting.ClientTls(context=dn.FakeTlsContext(), ha=PEER)
        self.nq = 0
        self.lasthk = "na"

    def close(self):
        for u in reversed(self.undo):
            u()
        self.undo = []

    # ---- one operation; returns (res, obs)
    def do(self, name, via="", rc="na", hs="na", a="na"):
        x, b = self.x, self.box
        res = {"t": "none"}
        b.arm()
        if name == "Open":
            res = {"t": "bool", "v": x.open()}
        elif name == "Reopen":
            res = {"t": "bool", "v": x.reopen()}
        elif name == "Close":
            x.close()
        elif name == "Connect":
            b.arm(rc=None if rc == "na" else rc, hs=None if hs == "na" else hs)
            try:
                res = {"t": "bool", "v": x.serviceConnect() if via == "service" else x.connect()}
            except OSError:       # socket.error, socket.gaierror, ssl.SSLError: what the statement allows to propagate
                res = {"t": "raise"}
        elif name == "Queue":
            x.tx(bytes([self.nq + 1, self.nq + 2]))
            self.nq += 2
        elif name == "ServiceTx":
            b.arm(tx=a)
            x.serviceTxes()
        elif name == "ServiceRx":
            b.arm(rx=a, byte=len(x.rxbs) + 1)
            x.serviceReceives()
        else:
            raise NotImplementedError(name)
        got = b.got
        obs = {"c": min(1, b.used["connect_ex"]), "h": min(1, b.used["do_handshake"]),
               "io": bool(b.used["send"] + b.used["recv"]), "rk": RC_CLASS[got["rc"]], "hk": HS_CLASS[got["hs"]]}
        self.lasthk = obs["hk"]
        self.lastname = name
        return res, obs

    def project(self, res=None, obs=None):
        x = self.x
        live = [s for s in self.fake.created if not s.closed]
        cs = x.cs
        inner = getattr(cs, "inner", cs)
        if cs is None and not x.opened and not live:
            sock = "none"
        elif cs is not None and x.opened and len(live) == 1 and live[0] is inner:
            sock = "open"
        else:
            sock = "inconsistent (.cs %s, .opened %s, %d of %d sockets not closed%s)" % (
                "set" if cs is not None else "None", x.opened, len(live), len(self.fake.created),
                "" if cs is None or inner in live else ", .cs is closed")
        out = {"sock": sock, "gen": len(self.fake.created), "accepted": bool(x.accepted), "connected": bool(x.connected),
               "txes": tuple(tuple(m) for m in x.txes), "wire": tuple(self.box.wire), "rxbs": tuple(x.rxbs)}
        # .cutoff of a closed client is documented only where the close is the reaction to a lost handshake
        if sock != "none" or self.lasthk == "loss":
            out["cutoff"] = bool(x.cutoff)
        if res is not None:
            out["res"] = res
            out["obs"] = obs
        return out

    # ---- conform() protocol: key = (name, environment arguments)
    def step(self, name, key, cands):
        args = key[1]
        if name == "Connect":
            res, obs = self.do(name, via=str(args[0]), rc=str(args[1]), hs=str(args[2]))
        elif name in ("ServiceTx", "ServiceRx"):
            res, obs = self.do(name, a=str(args[0]))
        else:
            res, obs = self.do(name)
        return self.project(res, obs)

    def fingerprint(self):
        return None


def client_key(name, args):
    if name == "Connect":
        return (name, tuple(str(a) for a in args[:3]))
    if name in ("Reopen", "Close"):
        return (name, ())
    return (name, tuple(str(a) for a in args))


def client_trace(rng, kind, nsteps):
    """one seeded random execution of a real client, as events for ConnClientTrace.tla"""
    ad = ClientAdapter({"kind": kind})
    try:
        evs = [{"ev": "Init", "kind": kind}]
        nwire = 0
        for _ in range(nsteps):
            x = ad.x
            p = rng.random()
            kw = {}
            if not x.connected and p < 0.45:
                name = "Connect"
                kw = {"via": rng.choice(["service", "service", "connect"]),
                      "rc": rng.choice(RC_ALL + ["OK", "OK", "EINPROGRESS"]), "hs": rng.choice(HS_ALL + ["ok", "ok", "wantread"])}
            elif p < 0.05:
                name = "Connect"
                kw = {"via": "service", "rc": rng.choice(RC_ALL), "hs": rng.choice(HS_ALL)}
            elif p < 0.10:
                name = "Open" if x.cs is None else "Reopen"
            elif p < 0.14:
                name = "Reopen"
            elif p < 0.19:
                name = "Close"
            elif p < 0.45 and ad.nq < 200:
                name = "Queue"
            elif p < 0.75:
                name = "ServiceTx"
                kw = {"a": rng.choice(["all", "all", "one", "one", "block", "loss" if rng.random() < 0.3 else "block"])}
            else:
                name = "ServiceRx"
                kw = {"a": rng.choice(["data", "data", "block", "closed" if rng.random() < 0.3 else "block",
                                       "loss" if rng.random() < 0.3 else "data"])}
                if len(x.rxbs) >= 250 and kw["a"] == "data":
                    kw["a"] = "block"
            try:
                with deadline():
                    res, obs = ad.do(name, **kw)
            except Exception as ex:      # the code under test raised what the documentation does not allow: a divergence
                raise Escaped(ex, evs, dict(kw, ev=name))
            st = ad.project(res, obs)
            got = ad.box.got
            ev = {"ev": name, "sock": st["sock"], "gen": st["gen"], "accepted": st["accepted"], "connected": st["connected"],
                  "txes": [list(m) for m in st["txes"]], "sent": list(st["wire"][nwire:]), "rxbs": list(st["rxbs"]),
                  "res": res, "obs": obs}
            nwire = len(st["wire"])
            if "cutoff" in st:
                ev["cutoff"] = st["cutoff"]
            if name == "Connect":
                ev.update({"via": kw["via"], "rc": got["rc"], "hs": got["hs"]})
            elif name == "ServiceTx":
                ev["a"] = got["tx"]
            elif name == "ServiceRx":
                ev["a"] = got["rx"]
            if ad.box.unforeseen:
                ev["sock"] = "unforeseen socket calls: %s" % ",".join(ad.box.unforeseen)
            evs.append(ev)
        return evs
    finally:
        ad.close()


# ------------------------------------------------------------------ server side
def addr(i):
    return ("10.0.0.%d" % i, 5000 + i)


class ServerAdapter(object):
    """one real tcp.Server / tcp.ServerTls over a listening double; connection i comes from addr(i)"""

    def __init__(self, init):
        env.use_repo()
        from ioflo.aio.tcp import serving
        quiet_console()
        self.kind = str(init["kind"])
        self.n = len(init["st"])
        self.fake = dn.FakeSocketModule()
        self.undo = [dn.install(serving, "socket", self.fake)]
        if self.kind == "plain":
            self.srv = serving.Server(ha=LOCAL)
        else:
            self.srv = serving.ServerTls(context=dn.FakeTlsContext(), ha=LOCAL)
        if not self.srv.reopen():
            raise AssertionError("server did not open over the listening double")
        self.listen = self.fake.last
        self.socks = {}          # connection -> ScriptedSocket
        self.inc = {}            # connection -> Incomer / IncomerTls once the server made one
        self.waiting = []
        self.peerclosed = set()
        self.wasready = set()
        self.why = {}            # connection -> "lost" | "failed" | "removed": why it left the tables
        self.nlost = 0

    def close(self):
        for u in reversed(self.undo):
            u()
        self.undo = []

    def _tables(self):
        srv = self.srv
        tabs = [("ready", srv.ixes)]
        if self.kind == "tls":
            tabs.append(("shaking", srv.cxes))
        where = {}
        for label, tab in tabs:
            for ca, ix in tab.items():
                i = ca[1] - 5000
                if ca != addr(i) or i not in self.socks:
                    raise AssertionError("unknown address %r in the server's tables" % (ca,))
                cs = getattr(ix.cs, "inner", ix.cs)
                if cs is not None and cs is not self.socks[i]:
                    raise AssertionError("the entry of %r holds another connection's socket" % (ca,))
                if ix.ca != ca:
                    raise AssertionError("entry keyed %r holds the connection of %r" % (ca, ix.ca))
                self.inc[i] = ix
                where[i] = "both tables" if i in where else label
                if label == "ready":
                    self.wasready.add(i)
        return where

    def do(self, name, i=0, h=None):
        srv = self.srv
        res, hsd, io = "none", set(), set()
        if name == "Arrive":
            s = dn.ScriptedSocket(name="c%d" % i, peer=addr(i), sockname=srv.eha, connected=True,
                                  defaults={"do_handshake": dn.WANT_READ, "send": dn.FULL})
            self.socks[i] = s
            self.waiting.append(i)
            self.listen.push("accept", dn.conn(s, addr(i)))
        elif name == "PeerClose":
            self.peerclosed.add(i)
        elif name == "ServiceConnects":
            before = {j: s.count("do_handshake") for j, s in self.socks.items()}
            for j, s in self.socks.items():
                a = str(h[j - 1])
                if a == "na" or s.closed:
                    continue
                self.nlost += 1
                if a == "ok":
                    s.push("do_handshake", dn.OK)
                elif a == "want":
                    s.push("do_handshake", dn.WANT_READ if self.nlost % 2 else dn.WANT_WRITE)
                elif a == "lost":
                    s.push("do_handshake", dn.TLS_EOF if self.nlost % 3 == 0 else dn.err(HSLOSS[self.nlost % len(HSLOSS)]))
                elif a == "fatal":
                    s.push("do_handshake", _hs_answer("sslerror" if self.nlost % 3 else "oserror", self.nlost))
            try:
                srv.serviceConnects()
                res = "served"
            except OSError:      # ssl.SSLError and socket.error: what the statement (C25) allows to propagate
                res = "raise"
            if self.listen.pending("accept"):
                raise AssertionError("the server left connections waiting at the listen socket")
            self.waiting = []
            where = self._tables()
            for j, s in self.socks.items():
                if s.count("do_handshake") > before[j]:
                    hsd.add(j)
                    if j not in where and str(h[j - 1]) in ("lost", "fatal"):
                        self.why.setdefault(j, "lost" if str(h[j - 1]) == "lost" else "failed")
                s.clear("do_handshake")
        elif name == "Transmit":
            try:
                srv.transmitIx(b"m", addr(i))
                res = "ok"
            except ValueError:      # documented: "Invalid connection address"
                res = "ValueError"
        elif name == "ServiceIo":
            before = {j: (s.count("send"), s.count("recv")) for j, s in self.socks.items()}
            for j in self.peerclosed:
                if not self.socks[j].closed:
                    self.socks[j].push("recv", dn.CLOSED)
            srv.serviceReceivesAllIx()
            srv.serviceTxesAllIx()
            res = "served"
            for j, s in self.socks.items():
                if (s.count("send"), s.count("recv")) != before[j]:
                    io.add(j)
                s.clear("recv")
        elif name in ("CloseIx", "RemoveIx"):
            try:
                (srv.closeIx if name == "CloseIx" else srv.removeIx)(addr(i))
                res = "ok"
                if name == "RemoveIx":
                    self.why[i] = "removed"
            except ValueError:
                res = "ValueError"
        elif name == "CloseAll":
            srv.closeAll()
            res = "ok"
        else:
            raise NotImplementedError(name)
        return res, hsd, io

    def project(self, res=None, hsd=(), io=()):
        where = self._tables()
        st = []
        for i in range(1, self.n + 1):
            if i not in self.socks:
                st.append("new")
            elif i in self.waiting:
                st.append("waiting")
            elif i in where:
                st.append(where[i])
            else:
                st.append(self.why.get(i, "vanished from the tables"))
        out = {"st": tuple(st),      # (dropped below once closeAll was called: what stays in the tables then is not documented)
               "closed": frozenset(i for i, s in self.socks.items() if s.closed),
               "cut": frozenset(i for i in self.wasready if self.inc[i].cutoff),
               "txq": tuple(len(self.inc[i].txes) if i in self.inc else 0 for i in range(1, self.n + 1)),
               "sent": tuple(len(self.socks[i].sent) if i in self.socks else 0 for i in range(1, self.n + 1)),
               "over": bool(self.listen.closed)}
        if out["over"]:
            del out["st"]
        if res is not None:
            out.update({"res": res, "hsd": frozenset(hsd), "io": frozenset(io)})
        return out

    def step(self, name, key, cands):
        args = key[1]
        if name == "ServiceConnects":
            res, hsd, io = self.do(name, h=args[0])
        elif name in ("ServiceIo", "CloseAll"):
            res, hsd, io = self.do(name)
        else:
            res, hsd, io = self.do(name, i=int(args[0]))
        return self.project(res, hsd, io)


def server_key(name, args):
    if name == "ServiceConnects":
        h = args[0]
        return (name, (tuple(str(h[i]) for i in range(len(h))) if isinstance(h, tuple) else
                       tuple(str(h[i]) for i in sorted(h)),))
    return (name, tuple(args))


def server_trace(rng, kind, n, nsteps):
    """one seeded random execution of a real server, as events for ConnServerTrace.tla"""
    ad = ServerAdapter({"kind": kind, "st": ["new"] * n})
    try:
        evs = [{"ev": "Init", "kind": kind}]
        for _ in range(nsteps):
            st = ad.project()["st"]
            p = rng.random()
            kw = {}
            new = [i for i in range(1, n + 1) if st[i - 1] == "new"]
            ready = [i for i in range(1, n + 1) if st[i - 1] == "ready"]
            if new and p < 0.2:
                name, kw = "Arrive", {"i": new[0]}
            elif p < 0.5:
                name = "ServiceConnects"
                h = []
                for i in range(1, n + 1):
                    if kind == "tls" and st[i - 1] in ("waiting", "shaking"):
                        h.append(rng.choice(["ok", "ok", "want", "want", "lost", "fatal"]))
                    else:
                        h.append("na")
                kw = {"h": tuple(h)}
            elif p < 0.62:
                name, kw = "Transmit", {"i": rng.randint(1, n)}
            elif p < 0.78:
                if any(ad.socks[i].closed for i in ready):
                    continue          # servicing an entry the application closed but left in the table: not documented
                name = "ServiceIo"
            elif p < 0.84 and ready:
                i = rng.choice(ready)
                if i in ad.peerclosed or ad.socks[i].closed:
                    continue
                name, kw = "PeerClose", {"i": i}
            elif p < 0.90:
                name, kw = "CloseIx", {"i": rng.randint(1, n)}
            elif p < 0.97:
                name, kw = "RemoveIx", {"i": rng.randint(1, n)}
            elif p < 0.985:
                name = "CloseAll"
            else:
                continue
            try:
                with deadline():
                    res, hsd, io = ad.do(name, **kw)
            except Exception as ex:
                raise Escaped(ex, evs, dict(kw, ev=name))
            s = ad.project(res, hsd, io)
            ev = {"ev": name, "closed": sorted(s["closed"]), "cut": sorted(s["cut"]), "txq": list(s["txq"]),
                  "sent": list(s["sent"]), "res": res, "hsd": sorted(hsd), "io": sorted(io)}
            if "st" in s:
                ev["st"] = list(s["st"])
            if "i" in kw:
                ev["i"] = kw["i"]
            if "h" in kw:
                ev["h"] = list(kw["h"])
            evs.append(ev)
            if name == "CloseAll":
                if not s["over"]:
                    evs.append(dict(ev, ev="Arrive", i=1))      # closeAll left the listen socket open: an event TLC cannot accept
                break
        return evs
    finally:
        ad.close()


# ------------------------------------------------------------------ the check
def _model(ctx, module, cfg, name, consts, dot, actions, tag):
    res = tlc.run(module, cfg, spec_dir=SPEC_DIR, dump_dot=dot, deadlock=False, tag=tag, extra_env=jvm_env(ctx.quick),
                  workers=max(1, env.NCPU // 2), timeout=3000)
    ctx.add_model(res, name, consts)
    if not res.ok:
        ctx.diverge(Divergence(PROP, "model", res.error_name or res.error, name, "specification property violated in the model",
                               steps=[{"action": a, "state": s} for a, s in res.trace]))
        return None
    tlc.require_coverage(res, actions, name)
    return res


def _walk(ctx, g, make, key, name, max_depth):
    _netstacks.deadline = deadline      # conform() arms 30 s per step: never turn slowness into a divergence
    try:
        w = conform(PROP, g, make, env_key=key, max_depth=max_depth, stop_after=5, where=name + ":")
    finally:
        _netstacks.deadline = _Deadline
    ctx.diverge(w.divergences)
    ctx.add_validated(w.execs)
    return w


def _record(ctx, what, make, ntr):
    """ntr random executions per kind (TLS twice); an exception escaping the code under test is a divergence"""
    from ..replay import innermost_ioflo_frame
    trs = []
    nesc = 0
    for kind in ("plain", "tls", "tls"):
        for _ in range(ntr):
            try:
                trs.append(make(kind))
            except Escaped as e:
                nesc += 1
                if nesc <= 5:
                    ctx.diverge(Divergence(PROP, "exception", e.step["ev"], "%s:%s:%s" % (what, kind, innermost_ioflo_frame(e.ex.__traceback__)),
                                           str(e)[:200], steps=e.evs[:1] + e.evs[-10:] + [e.step]))
    return trs


def _reject(ctx, what, trs, out):
    for i, pref in sorted(out.rejected.items())[:10]:
        ev = trs[i][pref] if 0 <= pref < len(trs[i]) else {}
        ctx.diverge(Divergence(PROP, "rejected", ev.get("ev", "?"), "%s:%s:trace" % (what, trs[i][0]["kind"]),
                               "recorded execution is not a behaviour of the specification at event %d: %s" % (pref + 1, _short(ev)),
                               steps=trs[i][:1] + trs[i][max(1, pref - 8):pref + 1]))
    for (i, err, nm, tr) in out.model_errors[:5]:
        ctx.diverge(Divergence(PROP, "rejected", nm or err, "%s:%s:trace-invariant" % (what, trs[i][0]["kind"]),
                               "invariant %s violated on a recorded execution" % nm, steps=trs[i][:40]))


def _short(ev):
    return {k: ev[k] for k in ("ev", "via", "rc", "hs", "a", "i", "h", "sock", "gen", "accepted", "connected", "cutoff", "res",
                               "st", "closed", "hsd", "io") if k in ev}


def run(ctx):
    ctx.rule = ("A: complete state graphs of ConnClient.tla (Client, ClientTls: every connect_ex answer x every handshake answer in "
                "every state of open / accepted / connected / cut off / closed, with queued data) and ConnServer.tla (Server, "
                "ServerTls: every combination of handshake answers over the pending connections, entry operations and data in every "
                "connection state) walked together with the real objects over socket doubles; every (state, environment step) is "
                "executed and must agree with a successor of the specification. B: seeded random scripts on the real objects "
                "validated by TLC against the trace specifications. distinct = (state, step) pairs executed + accepted traces")
    ctx.assume("TLC, vf/doubles_net.py (ScriptedSocket, FakeTlsContext, FakeSocketModule), the Box / ScriptedSocket answer doubles of "
               "this family and the projection functions are trusted")
    ctx.assume("ssl and the kernel are not modelled: the doubles answer connect_ex / do_handshake / send / recv / accept as the model says")
    ctx.assume("clients are not reconnectable (the reconnect timer is C27); every server side connection has its own peer address (C26 covers repeats)")
    kc = ctx.pick({"Kinds": ["plain", "tls"], "Rcs": ["OK", "EISCONN", "EINPROGRESS", "EALREADY", "ECONNREFUSED", "ETIMEDOUT", "RAISE"],
                   "Hss": ["ok", "wantread", "wantwrite", "eof", "loss", "sslerror", "oserror"], "MaxSocks": 3, "MaxMsgs": 1, "MaxRx": 1},
                  {"Kinds": ["plain", "tls"], "Rcs": RC_ALL, "Hss": HS_ALL, "MaxSocks": 3, "MaxMsgs": 2, "MaxRx": 1})
    anss = ["ok", "want", "lost", "fatal"]
    ks = ctx.pick([{"Kinds": ["plain", "tls"], "N": 2, "Anss": anss, "MaxQ": 0}, {"Kinds": ["plain", "tls"], "N": 1, "Anss": anss, "MaxQ": 1}],
                  [{"Kinds": ["plain", "tls"], "N": 2, "Anss": anss, "MaxQ": 1}, {"Kinds": ["tls"], "N": 3, "Anss": anss, "MaxQ": 0}])
    d = env.subdir("tlsconn")
    jobs = [("ConnClient", client_cfg(kc), "ConnClient", kc, d + "/client.dot", CLIENT_ACTIONS, "xc")]
    for n, k in enumerate(ks):
        jobs.append(("ConnServer", server_cfg(k), "ConnServer/N%dQ%d" % (k["N"], k["MaxQ"]), k, d + "/server%d.dot" % n, SERVER_ACTIONS, "xs%d" % n))
    # binding B: the random executions are recorded first, TLC validates them while the models are checked and walked
    rng = random.Random(ctx.seed)
    ntr, steps = ctx.pick((60, 60), (800, 100))
    nconn = 4
    ctr = _record(ctx, "client", lambda kind: client_trace(rng, kind, steps), ntr)
    strs = _record(ctx, "server", lambda kind: server_trace(rng, kind, nconn, steps), ntr)
    big = {"Kinds": ["plain", "tls"], "Rcs": RC_ALL, "Hss": HS_ALL, "MaxSocks": 1000000, "MaxMsgs": 1000000, "MaxRx": 1000000}
    ccfg = client_cfg(big, "TraceSpec", props=False) + "CONSTRAINT TraceOK\nCHECK_DEADLOCK FALSE\n"
    scfg = server_cfg({"Kinds": ["plain", "tls"], "N": nconn, "Anss": anss, "MaxQ": 1000000},
                      "TraceSpec", props=False) + "CONSTRAINT TraceOK\nCHECK_DEADLOCK FALSE\n"
    batch = ctx.pick(200, 150)
    execs = edges = total = 0
    complete = True
    with ThreadPoolExecutor(max_workers=len(jobs) + 1) as ex:
        fb = ex.submit(validate_jobs, [("ConnClientTrace", ccfg, ctr, batch), ("ConnServerTrace", scfg, strs, batch)], SPEC_DIR,
                       quick=ctx.quick, timeout=3000)
        futs = [ex.submit(_model, ctx, *j) for j in jobs]
        for (module, cfg, name, k, dot, actions, tag), fut in zip(jobs, futs):
            res = fut.result()
            if res is None:
                complete = False
                continue
            g = graph.load_dot(dot)
            if module == "ConnClient":
                _vacuity_client(g, name)
                w = _walk(ctx, g, ClientAdapter, client_key, name, 40)
            else:
                _vacuity_server(g, name)
                w = _walk(ctx, g, ServerAdapter, server_key, name, 40)
            execs += w.execs
            edges += len(w.edges)
            total += g.nedges
            complete = complete and w.complete and not w.divergences
            ctx.note("%s: %d states, %d edges; walk: %d nodes, %d (state, step) pairs executed, %d edges followed, %d ambiguous steps%s"
                     % (name, len(g.states), g.nedges, w.nodes, w.execs, len(w.edges), w.ambiguous, "" if w.complete else " (cut)"))
        outs = fb.result()
    acc = 0
    for what, trs, out in (("client", ctr, outs[0]), ("server", strs, outs[1])):
        ctx.states += out.states
        ctx.transitions += out.generated
        acc += len(out.accepted)
        ctx.add_validated(len(out.accepted), {"trace": [_short(e) for e in trs[len(trs) // 2][:8]]})
        _reject(ctx, what, trs, out)
    ctx.exhaustive = complete
    ctx.extra.update({"graph_edges": total, "edges_followed": edges, "state_step_pairs_executed": execs,
                      "random_traces": len(ctr) + len(strs), "random_traces_accepted": acc,
                      "distinct_nontrivial": execs + acc, "evaluations": execs + len(ctr) + len(strs),
                      "client_constants": kc, "server_constants": ks})


def _vacuity_client(g, name):
    """the situations the extra is about must be in the graph"""
    seen = set()
    for st in g.states.values():
        o = st["obs"]
        k = str(st["kind"])
        seen.add((k, "rk", str(o["rk"])))
        seen.add((k, "hk", str(o["hk"])))
        if st["txes"] and not st["connected"]:
            seen.add((k, "queued while not connected"))
        if st["connected"] and st["wire"]:
            seen.add((k, "sent once connected"))
        if st["sock"] == "none" and st["cutoff"]:
            seen.add((k, "closed and cut off"))
    need = [(k, "rk", c) for k in ("plain", "tls") for c in ("ok", "pend", "hard", "raise")]
    need += [("tls", "hk", c) for c in ("ok", "want", "loss", "fatal")]
    need += [(k, s) for k in ("plain", "tls") for s in ("queued while not connected", "sent once connected")]
    need += [("tls", "closed and cut off")]
    missing = [n for n in need if n not in seen]
    if missing:
        raise tlc.TlcError("vacuous model run (%s): never reached: %r" % (name, missing))


def _vacuity_server(g, name):
    seen = set()
    for st in g.states.values():
        k = str(st["kind"])
        s = [str(x) for x in (st["st"] if isinstance(st["st"], tuple) else [st["st"][i] for i in sorted(st["st"])])]
        if k == "tls":
            for v in s:
                seen.add(v)
            if st["res"] == "raise":
                seen.add("raise")
            if "shaking" in s and "ready" in s and st["res"] == "served" and st["hsd"]:
                seen.add("ready beside a pending handshake")
            if st["over"] and "shaking" in s:
                seen.add("closeAll with a pending handshake")
            if st["res"] == "ValueError" and "shaking" in s:
                seen.add("entry operation refused while shaking")
    need = ["shaking", "ready", "lost", "failed", "removed", "raise", "closeAll with a pending handshake",
            "entry operation refused while shaking"]
    if len(next(iter(g.states.values()))["st"]) > 1:
        need.append("ready beside a pending handshake")
    missing = [n for n in need if n not in seen]
    if any(str(st["kind"]) == "tls" for st in g.states.values()) and missing:
        raise tlc.TlcError("vacuous model run (%s): never reached: %r" % (name, missing))


EXTRAS = {"tlsconn": run}
