"""C44 - point in polygon (specs/aid/Polygon.tla).

Binding C.  TLC enumerates the simple polygons on a small grid (all vertex sequences, both orientations, every start
vertex), computes for every grid point the documented predicates from exact integer geometry (crossing number along a
ray that provably misses every lattice point - not the winding loop of the implementation), checks lemmas that tie the
definitions to independent facts (Pick's theorem, a second ray, reversal / rotation, similarity) and writes one table
row per polygon.  The harness replays every row against ioflo.aid.vectoring with several argument flavours.
Random larger polygons are produced by a seeded generator here, handed to TLC as a JSON cases file (TLC decides which
of them are simple and computes the expected answers from the same operators) and replayed the same way.
"""
import json
import math
import os
import random
from concurrent.futures import ProcessPoolExecutor

from .. import env, tlc
from ..replay import Divergence, innermost_ioflo_frame

SPEC_DIR = env.SPECS + "/aid"
LEMMAS = ["HasArea", "IsSimple", "RaysMiss", "RaysAgree", "Pick", "Trichotomy", "Duality", "WindZero", "Reversal", "Similarity"]
NOT_SIMPLE = [[(0, 0), (2, 2), (2, 0), (0, 2)], [(0, 0), (4, 0), (2, 0), (2, 3)], [(0, 0), (3, 0), (3, 3), (0, 0), (0, 3)],
              [(0, 0), (4, 0), (4, 2), (1, 0), (0, 2)], [(0, 0), (2, 0), (4, 0)]]


def _cfg(source, n=3, minv=3, maxv=3, nshards=1, only=None, deep=False):
    only = range(nshards) if only is None else only
    s = ('SPECIFICATION Spec\nCONSTANTS\n  Source = "%s"\n  N = %d\n  MinV = %d\n  MaxV = %d\n  NShards = %d\n  Only = {%s}\n'
         '  Deep = %s\n' % (source, n, minv, maxv, nshards, ", ".join(str(k) for k in only), "TRUE" if deep else "FALSE"))
    return s + "".join("INVARIANT %s\n" % x for x in LEMMAS)


# ---------------------------------------------------------------- independent helpers of the harness (generation only)
def _orient(a, b, c):
    x = (b[0] - a[0]) * (c[1] - a[1]) - (b[1] - a[1]) * (c[0] - a[0])
    return (x > 0) - (x < 0)


def _onseg(p, a, b):
    return _orient(a, b, p) == 0 and min(a[0], b[0]) <= p[0] <= max(a[0], b[0]) and min(a[1], b[1]) <= p[1] <= max(a[1], b[1])


def _meet(a, b, c, d):
    o1, o2, o3, o4 = _orient(a, b, c), _orient(a, b, d), _orient(c, d, a), _orient(c, d, b)
    return (o1 * o2 < 0 and o3 * o4 < 0) or _onseg(c, a, b) or _onseg(d, a, b) or _onseg(a, c, d) or _onseg(b, c, d)


def _simple(vs):
    """the harness's own reading of `simple` - used to generate cases and to cross-check TLC's polygon counts;
    the expected answers never come from here"""
    n = len(vs)
    if n < 3 or len(set(vs)) < n:
        return False
    for i in range(n):
        for j in range(i + 1, n):
            a, b, c, d = vs[i], vs[(i + 1) % n], vs[j], vs[(j + 1) % n]
            if j == i + 1:
                if _onseg(a, c, d) or _onseg(d, a, b):
                    return False
            elif i == 0 and j == n - 1:
                if _onseg(b, c, d) or _onseg(c, a, b):
                    return False
            elif _meet(a, b, c, d):
                return False
    return True


def _count_simple(n, minv, maxv):
    import itertools
    g = [(x, y) for x in range(n) for y in range(n)]
    return sum(1 for k in range(minv, maxv + 1) for vs in itertools.product(g, repeat=k) if _simple(vs))


def _untangle(rng, pts):
    """random closed chain through pts made simple by 2-opt moves (reverse the stretch between two crossing sides)"""
    vs = list(pts)
    rng.shuffle(vs)
    n = len(vs)
    for _ in range(400):
        found = False
        for i in range(n):
            for j in range(i + 2, n):
                if i == 0 and j == n - 1:
                    continue
                if _meet(vs[i], vs[i + 1], vs[j], vs[(j + 1) % n]):
                    vs[i + 1:j + 1] = reversed(vs[i + 1:j + 1])
                    found = True
                    break
            if found:
                break
        if not found:
            break
    return vs


def _star(rng, pts):
    cx = sum(p[0] for p in pts) / len(pts) + 0.25
    cy = sum(p[1] for p in pts) / len(pts) + 0.125
    vs = sorted(pts, key=lambda p: (math.atan2(p[1] - cy, p[0] - cx), (p[0] - cx) ** 2 + (p[1] - cy) ** 2))
    if rng.random() < 0.5:
        vs.reverse()
    k = rng.randrange(len(vs))
    return vs[k:] + vs[:k]


def _edge_lattice(a, b):
    g = math.gcd(abs(b[0] - a[0]), abs(b[1] - a[1]))
    return [(a[0] + (b[0] - a[0]) // g * k, a[1] + (b[1] - a[1]) // g * k) for k in range(g + 1)] if g else [a]


def _random_cases(rng, count, small):
    """count cases {vs, ps}; small: few vertices in a small box with every lattice point of the box (and its margin)
    examined; otherwise large coordinates with vertices, lattice points on sides, points level with vertices, near
    points and random points"""
    cases = []
    tries = 0
    while len(cases) < count and tries < 50 * count:
        tries += 1
        if small:
            n = rng.randint(5, 11)
            r = rng.choice([3, 4, 5, 6, 8])
            ox, oy = rng.randint(-9, 3), rng.randint(-9, 3)
            box = [(x, y) for x in range(ox, ox + r + 1) for y in range(oy, oy + r + 1)]
            if len(box) < n:
                continue
            pts = rng.sample(box, n)
        else:
            n = rng.randint(6, 14)
            r = rng.choice([12, 40, 300, 1500])
            ox, oy = rng.randint(-r, 0), rng.randint(-r, 0)
            pts = list({(ox + rng.randint(0, r), oy + rng.randint(0, r)) for _ in range(n)})
            if len(pts) < 4:
                continue
        vs = _untangle(rng, pts) if rng.random() < 0.7 else _star(rng, pts)
        if not _simple(vs):
            continue
        xs, ys = [p[0] for p in vs], [p[1] for p in vs]
        if small:
            ps = [(x, y) for x in range(min(xs) - 1, max(xs) + 2) for y in range(min(ys) - 1, max(ys) + 2)]
        else:
            cand = set(vs)
            for i in range(len(vs)):
                lat = _edge_lattice(vs[i], vs[(i + 1) % len(vs)])
                cand.update(rng.sample(lat, min(len(lat), 3)))
                mx, my = (vs[i][0] + vs[(i + 1) % len(vs)][0]) // 2, (vs[i][1] + vs[(i + 1) % len(vs)][1]) // 2
                cand.update([(mx, my), (mx + 1, my), (mx, my - 1)])
            for v in vs:        # level with a vertex (where ray based loops go wrong), and its neighbours
                cand.update([(rng.randint(min(xs) - 2, max(xs) + 2), v[1]), (v[0], rng.randint(min(ys) - 2, max(ys) + 2)),
                             (v[0] + 1, v[1]), (v[0] - 1, v[1] + 1)])
            for _ in range(12):
                cand.add((rng.randint(min(xs) - 2, max(xs) + 2), rng.randint(min(ys) - 2, max(ys) + 2)))
            ps = sorted(cand)
        cases.append({"vs": [list(p) for p in vs], "ps": [list(p) for p in ps]})
    return cases


# ---------------------------------------------------------------- replay of table rows on the implementation
def _flavours():
    from ioflo.base.globaling import Pxy
    return [
        ("int-tuples", lambda p: (p[0], p[1]), list),
        # p is a list and the vertices are tuples: `p in vs` is then false for a vertex, the side test must find it
        ("float-mixed", lambda p: [float(p[0]), float(p[1])], lambda vs: tuple((float(x), float(y)) for x, y in vs)),
        ("Pxy", lambda p: Pxy(x=p[0], y=p[1]), lambda vs: [Pxy(x=x, y=y) for x, y in vs]),
        # similar figure on dyadic floats (scale 1/2, shift (-1.25, 0.75)): every product in the code stays exact
        ("float-similar", lambda p: (p[0] * 0.5 - 1.25, p[1] * 0.5 + 0.75),
         lambda vs: [(x * 0.5 - 1.25, y * 0.5 + 0.75) for x, y in vs]),
    ]


def _replay_rows(rows, flavour_ix=None):
    """-> (evaluations, points, [divergence dicts], stats)"""
    env.use_repo()
    from ioflo.aid import vectoring as V
    flav = _flavours()
    if flavour_ix is not None:
        flav = [flav[i] for i in flavour_ix]
    divs = []
    seen = {}
    evals = 0
    stats = {"rows": 0, "points": 0, "on": 0, "vertex": 0, "inside": 0, "ccw_in": 0, "cw_in": 0, "covers_box": 0, "maxv": 0}

    def bad(fn, kind, vs, p, got, exp, exc=None):
        # one divergence per (function, flavour): the signature stays the same whichever point shows it first
        k = (fn, kind)
        seen[k] = seen.get(k, 0) + 1
        if seen[k] > 1:
            return
        call = "%s(p=%r, vs=%r)" % (fn, p, vs)
        if exc is not None:
            divs.append(dict(kind="exception", action=fn, where=innermost_ioflo_frame(exc.__traceback__),
                             detail="%s raised with %s arguments" % (type(exc).__name__, kind),
                             expected=repr(exp), actual="%s raised %r" % (call, exc)))
        else:
            divs.append(dict(kind="table-mismatch", action=fn, where=kind, detail="result differs from exact geometry",
                             expected=repr(exp), actual="%s returned %r" % (call, got)))

    for row in rows:
        vs0 = [tuple(v) for v in row["vs"]]
        n = len(vs0)
        stats["rows"] += 1
        stats["maxv"] = max(stats["maxv"], n)
        xs, ys = [v[0] for v in vs0], [v[1] for v in vs0]
        inbox = sum(1 for p in row["ps"] if min(xs) <= p[0] <= max(xs) and min(ys) <= p[1] <= max(ys))
        if inbox == (max(xs) - min(xs) + 1) * (max(ys) - min(ys) + 1):
            stats["covers_box"] += 1
        for k, p0 in enumerate(row["ps"]):
            stats["points"] += 1
            w = row["wind"][k]
            stats["on"] += row["sideOnly"][k]
            stats["vertex"] += tuple(p0) in vs0
            stats["inside"] += row["insideOnly"][k]
            stats["ccw_in"] += w > 0
            stats["cw_in"] += w < 0
            sides = set(row["sides"][k])
            for kind, fp, fvs in flav:
                p, vs = fp(p0), fvs(vs0)
                calls = (
                    ("wind", lambda: V.wind(p, vs), w),
                    ("inside", lambda: V.inside(p, vs), row["insideT"][k]),
                    ("inside(side=True)", lambda: V.inside(p, vs, side=True), row["insideT"][k]),
                    ("inside(side=False)", lambda: V.inside(p, vs, side=False), row["insideF"][k]),
                    ("insideOnly", lambda: V.insideOnly(p, vs), row["insideOnly"][k]),
                    ("outside", lambda: V.outside(p, vs), row["outsideT"][k]),
                    ("outside(side=True)", lambda: V.outside(p, vs, side=True), row["outsideT"][k]),
                    ("outside(side=False)", lambda: V.outside(p, vs, side=False), row["outsideF"][k]),
                    ("outsideOnly", lambda: V.outsideOnly(p, vs), row["outsideOnly"][k]),
                    ("sideOnly", lambda: V.sideOnly(p, vs), row["sideOnly"][k]),
                )
                for fn, call, exp in calls:
                    evals += 1
                    try:
                        got = call()
                    except Exception as ex:     # the functions are documented to return, never to raise
                        bad(fn, kind, vs, p, None, exp, ex)
                        continue
                    if fn == "wind":
                        ok = isinstance(got, int) and not isinstance(got, bool) and got == exp
                    else:
                        ok = (got is True or got is False) and got == exp
                    if not ok:
                        bad(fn, kind, vs, p, got, exp)
                for i in range(n):
                    evals += 1
                    exp = (i + 1) in sides
                    try:
                        got = V.tween2(p, vs[i], vs[(i + 1) % n])
                    except Exception as ex:
                        bad("tween2", kind, [vs[i], vs[(i + 1) % n]], p, None, exp, ex)
                        continue
                    if bool(got) != exp or not isinstance(got, bool):
                        bad("tween2", kind, [vs[i], vs[(i + 1) % n]], p, got, exp)
    return evals, divs, stats


def _replay_file(job):
    """runs in a worker process: replay of one shard's table"""
    path, flavour_ix = job
    with open(path) as f:
        rows = json.load(f)
    os.unlink(path)
    evals, divs, stats = _replay_rows(rows, flavour_ix)
    sample = None
    if rows:
        r = rows[len(rows) // 2]
        k = len(r["ps"]) // 2
        sample = {"vs": r["vs"], "p": r["ps"][k], "wind": r["wind"][k], "sideOnly": r["sideOnly"][k], "insideOnly": r["insideOnly"][k]}
    return len(rows), evals, divs, stats, sample


def _model(ctx, name, cfg, shards, lens, cases=None):
    """one TLC run; -> list of table files (one per shard) or None when a lemma failed in the model"""
    d = env.subdir("c44")
    prefix = os.path.join(d, name)
    extra = {"TABLE_OUT": prefix}
    if cases is not None:
        with open(prefix + "-cases.json", "w") as f:
            json.dump(cases, f)
        extra["CASES_IN"] = prefix + "-cases.json"
    # (no -coverage: it doubles the cost of these evaluation-heavy runs; that Emit was taken for every shard is
    #  established below from the table files it wrote)
    res = tlc.run("Polygon", cfg, spec_dir=SPEC_DIR, extra_env=extra, deadlock=False, coverage=False, tag="c44" + name)
    ctx.add_model(res, "Polygon/" + name)
    if not res.ok:
        ctx.diverge(Divergence("C44", "model", res.error_name or res.error, "Polygon/" + name,
                               "lemma violated in the specification itself", steps=[{"action": a, "state": s} for a, s in res.trace]))
        return None
    files = ["%s-%d-%d.json" % (prefix, k, n) for k in shards for n in lens]
    missing = [f for f in files if not os.path.exists(f)]
    if missing:
        raise tlc.TlcError("no table written for %s" % missing[:3])
    return files


def run_c44(ctx):
    env.use_repo()
    # a small heap: with the JVM's default (a quarter of the RAM) the young generation is so large that TLC spends
    # most of its time faulting in fresh pages on this evaluation-heavy specification
    os.environ.setdefault("JAVA_TOOL_OPTIONS", "-Xmx3g")
    rng = random.Random(ctx.seed)
    ncpu = env.NCPU
    groups = {}      # name -> (files, flavour indexes)
    # -- complete 3x3 grid, 3..5 vertices, with the costly lemmas (reversal, rotation, similarity)
    nsh = 2 * ncpu
    groups["g3"] = (_model(ctx, "g3", _cfg("grid", 3, 3, 5, nsh, deep=True), range(nsh), (3, 4, 5)), None)
    # -- 4x4 grid, 3..5 vertices: complete (thorough) or a seeded sample of the (first, second vertex) classes (quick)
    if ctx.quick:
        nsh4 = 96
        only = sorted(rng.sample(range(nsh4), 3))
        grid4 = None
    else:
        nsh4 = 4 * ncpu
        only = list(range(nsh4))
        grid4 = _count_simple(4, 3, 5)
    groups["g4"] = (_model(ctx, "g4", _cfg("grid", 4, 3, 5, nsh4, only), only, (3, 4, 5)), "rotate")
    # -- random larger polygons: TLC computes the answers from the cases file
    nsmall, nbig = ctx.pick((30, 30), (500, 500))
    small = _random_cases(rng, nsmall, True)
    big = _random_cases(rng, nbig, False)
    # figures that are not simple polygons (bow tie, vertex on another side, repeated vertex, overlapping sides,
    # no area): the specification must drop them
    for vs in NOT_SIMPLE:
        small.insert(rng.randrange(len(small)), {"vs": [list(v) for v in vs], "ps": [[0, 0], [1, 1]]})
    nshf = ctx.pick(ncpu, 4 * ncpu)
    groups["rs"] = (_model(ctx, "rs", _cfg("file", nshards=nshf, deep=True), range(nshf), (0,), small), None)
    groups["rb"] = (_model(ctx, "rb", _cfg("file", nshards=nshf), range(nshf), (0,), big), None)
    jobs = []
    for name, (files, fl) in groups.items():
        for k, f in enumerate(files or []):
            jobs.append((name, (f, [0, 1 + k % 3] if fl == "rotate" else None)))
    with ProcessPoolExecutor(max_workers=ncpu) as ex:
        results = list(ex.map(_replay_file, [j[1] for j in jobs], chunksize=1))
    tot = {}
    nrows = {"g3": 0, "g4": 0, "rs": 0, "rb": 0}
    evals = 0
    sampled = set()
    for (name, _), (n, ev, divs, stats, sample) in zip(jobs, results):
        nrows[name] += n
        evals += ev
        for k, v in stats.items():
            tot[k] = max(tot.get(k, 0), v) if k == "maxv" else tot.get(k, 0) + v
        for d in divs:
            ctx.diverge(Divergence("C44", d["kind"], d["action"], d["where"], d["detail"], expected=d["expected"], actual=d["actual"]))
        if sample and name not in sampled:
            sampled.add(name)
            ctx.sample(sample)
    ctx.validated += sum(nrows.values())
    if any(files is None for files, _ in groups.values()):
        return
    # -- vacuity guards
    want3 = _count_simple(3, 3, 5)
    if nrows["g3"] != want3:
        raise tlc.TlcError("3x3 grid: TLC found %d simple polygons, the harness's own enumeration %d" % (nrows["g3"], want3))
    if grid4 is not None and nrows["g4"] != grid4:
        raise tlc.TlcError("4x4 grid: TLC found %d simple polygons, the harness's own enumeration %d" % (nrows["g4"], grid4))
    if nrows["g4"] == 0 or nrows["rs"] < 0.7 * nsmall or nrows["rb"] < 0.7 * nbig:
        raise tlc.TlcError("too few cases: %r" % nrows)
    if nrows["rs"] > len(small) - len(NOT_SIMPLE):
        raise tlc.TlcError("the specification kept a figure that is not a simple polygon: %r" % nrows)
    for k in ("on", "vertex", "inside", "ccw_in", "cw_in", "covers_box"):
        if not tot.get(k):
            raise tlc.TlcError("vacuous table: no case with %s" % k)
    ctx.exhaustive = True
    ctx.rule = ("rows = simple polygons: every vertex sequence of length 3..5 on the 3x3 grid (quick: plus a seeded sample of the "
                "(first, second vertex) classes of the 4x4 grid; thorough: the complete 4x4 grid), each with all grid points; plus "
                "seeded random polygons of 5..14 vertices (2-opt untangled chains and star shaped), small ones with every lattice "
                "point of their box, large ones (coordinates up to 1500) with vertices, lattice points on sides, points level "
                "with vertices and random points; every (row, point) replayed with int tuples and float / namedtuple / "
                "similar-figure flavours on wind, inside, insideOnly, outside, outsideOnly, sideOnly (both side flags and the "
                "default) and tween2 per side")
    ctx.extra.update({"evaluations": evals, "distinct_nontrivial": tot.get("points", 0), "polygons": nrows,
                      "points_on_boundary": tot.get("on"), "points_on_vertex": tot.get("vertex"),
                      "points_strictly_inside": tot.get("inside"), "rows_with_pick_check": tot.get("covers_box"),
                      "max_vertices": tot.get("maxv")})
    ctx.assume("exact integer geometry in TLC (32 bit: coordinates up to 1500); the float flavours use dyadic coordinates so that "
               "every product and sum in the implementation is exact; the similar-figure flavour relies on the invariance of the "
               "predicates under positive scaling and translation (checked in the model by lemma Similarity for one similarity)")
    ctx.assume("the harness's own `simple` test is used only to generate cases and to cross-check TLC's polygon counts")


PROPERTIES = {"C44": run_c44}
