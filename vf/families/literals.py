"""C17 - direct data literals convert to the documented typed values (specs/build/Literals.tla).

Binding C: per family (numbers, lat/lon, the three point kinds, words and paths, quoted strings) TLC enumerates every
string over the family's sub-alphabet up to a length bound plus structured longer ones, checks the algebra of the documented
conversion (round trip of shown values, agreement of the contexts on shared forms, respect of the order) and writes the
table text -> typed abstract value per context.  The table is replayed
  * through the real converters (Convert2StrBoolPathCoordPointNum, Convert2StrBoolCoordNum, Convert2Num), parseDirect and
    parseNeedGoal - every row;
  * end to end: one-act scripts (init / put / set / inc / do with, per, cum / need goal / bid period) built with the real
    Builder, the stored value read after build or after one tick - all valid rows of the small families, a seeded sample
    of the big ones, and a seeded sample of the rows the specification rejects.
Decimal values are compared with float(Fraction(m) * 10**e), lat/lon with the documented float formula deg + min/60.0.
"""
import json
import math
import os
import random
import multiprocessing
from concurrent.futures import ThreadPoolExecutor
from fractions import Fraction

from .. import env, tlc
from ..replay import Divergence, innermost_ioflo_frame
from ..tlc import TlcError

SPEC_DIR = env.SPECS + "/build"
FAMILIES = ("num", "latlon", "xy", "ne", "fs", "word", "quote")
ALPHABET_SIZE = {"num": 11, "latlon": 10, "xy": 9, "ne": 9, "fs": 9, "word": 13, "quote": 6}
CTXS = ("direct", "goal", "number")


# ------------------------------------------------------------------------------------------------------------------
# abstract values -> python
# ------------------------------------------------------------------------------------------------------------------

def dec(m, e):
    try:
        return float(Fraction(m) * Fraction(10) ** e)
    except OverflowError:
        return math.inf if m > 0 else -math.inf


def describe(v):
    t = v["t"]
    if t == "str":
        return "str %r" % "".join(v["s"])
    if t == "path":
        return "path %r" % "".join(v["s"])
    if t == "none":
        return "None"
    if t == "bool":
        return "bool %s" % v["b"]
    if t == "int":
        return "int %d" % v["n"]
    if t == "dec":
        return "float %r" % dec(v["m"], v["e"])
    if t == "cplx":
        return "complex %r" % complex(dec(v["re"]["m"], v["re"]["e"]), dec(v["im"]["m"], v["im"]["e"]))
    if t == "coord":
        return "float %r (lat/lon)" % coord(v)
    if t == "point":
        return "P%s%r" % (v["k"], tuple(dec(c[0], c[1]) for c in v["c"]))
    return t


def coord(v):
    x = float(v["deg"]) + dec(v["m"], v["e"]) / 60.0
    return -x if v["neg"] else x


def same(v, x):
    """does the python value x have the type and value of the abstract value v"""
    t = v["t"]
    if t in ("str", "path"):
        return type(x) is str and x == "".join(v["s"])
    if t == "none":
        return x is None
    if t == "bool":
        return type(x) is bool and x == v["b"]
    if t == "int":
        return type(x) is int and x == v["n"]
    if t == "dec":
        return type(x) is float and x == dec(v["m"], v["e"])
    if t == "cplx":
        return type(x) is complex and x.real == dec(v["re"]["m"], v["re"]["e"]) and x.imag == dec(v["im"]["m"], v["im"]["e"])
    if t == "coord":
        return type(x) is float and x == coord(v)
    if t == "point":
        return (type(x).__name__ == "P" + v["k"] and len(x) == len(v["c"])
                and all(type(a) is float and a == dec(c[0], c[1]) for a, c in zip(x, v["c"])))
    return False


def show_py(x):
    if isinstance(x, tuple):
        return "%s%r" % (type(x).__name__, tuple(x))
    return "%s %r" % (type(x).__name__, x)


# ------------------------------------------------------------------------------------------------------------------
# converter level replay
# ------------------------------------------------------------------------------------------------------------------

_ready = False


def _setup():
    global _ready
    if _ready:
        return
    _ready = True
    env.use_repo()
    import collections.abc  # noqa: F401
    from ioflo.aid import consoling
    consoling.getConsole().reinit(verbosity=0)


def _call(fn, *a):
    """('ok', value) | ('err', type name); only ValueError is the documented refusal"""
    try:
        return ("ok", fn(*a))
    except ValueError as ex:
        return ("err", type(ex).__name__)


def replay_rows(job):
    """converter-level replay of table rows; returns (evaluations, [divergence dicts])"""
    family, rows = job
    _setup()
    from ioflo.base import building, excepting
    conv = {"direct": building.Convert2StrBoolPathCoordPointNum, "goal": building.Convert2StrBoolCoordNum,
            "number": building.Convert2Num}
    bld = building.Builder()
    divs = []
    n = 0

    def bad(kind, action, where, detail, expected=None, actual=None):
        if len(divs) < 40:
            divs.append({"kind": kind, "action": action, "where": where, "detail": detail, "expected": expected, "actual": actual})

    for row in rows:
        text = "".join(row["s"])
        if not row["token"]:
            continue        # cannot be written as one token of a command: the converters never see it
        for ctx in CTXS:
            v = row[ctx]
            if v["t"] == "unspec":
                continue
            n += 1
            try:
                r = _call(conv[ctx], text)
            except Exception as ex:
                bad("exception", conv[ctx].__name__, innermost_ioflo_frame(ex.__traceback__), "%r: %s: %s" % (text, type(ex).__name__, ex))
                continue
            if v["t"] == "err":
                if r[0] != "err":
                    bad("table-mismatch", conv[ctx].__name__, "%s/%s" % (family, ctx),
                        "%r is not a %s literal in the documented forms but converts to %s" % (text, ctx, show_py(r[1])),
                        "ValueError", show_py(r[1]))
                continue
            if r[0] == "err" or not same(v, r[1]):
                got = "ValueError" if r[0] == "err" else show_py(r[1])
                bad("table-mismatch", conv[ctx].__name__, "%s/%s" % (family, ctx),
                    "%r converts to %s, documented: %s" % (text, got, describe(v)), describe(v), got)
                continue
            # round trip: the shown form converts back to the same value
            sh = "".join(row["show"][ctx])
            if sh:
                n += 1
                r2 = _call(conv[ctx], sh)
                if r2[0] == "err" or not same(v, r2[1]) or type(r2[1]) is not type(r[1]) or not _eq(r2[1], r[1]):
                    got = "ValueError" if r2[0] == "err" else show_py(r2[1])
                    bad("table-mismatch", "RoundTrip", "%s/%s" % (family, ctx),
                        "%r -> %s shown as %r converts back to %s" % (text, show_py(r[1]), sh, got), show_py(r[1]), got)
        # parseDirect: a lone value, and a field with a value
        v = row["direct"]
        if v["t"] != "unspec":
            for tokens, field in (([text], "value"), (["fld", text], "fld")):
                n += 1
                try:
                    r = _call(lambda: bld.parseDirect(tokens, 0))
                except Exception as ex:
                    bad("exception", "parseDirect", innermost_ioflo_frame(ex.__traceback__), "%r: %s: %s" % (tokens, type(ex).__name__, ex))
                    continue
                if v["t"] == "err":
                    if r[0] != "err":
                        bad("table-mismatch", "parseDirect", "%s/direct" % family,
                            "%r is not a literal but parseDirect returned %r" % (text, dict(r[1][0])))
                elif r[0] == "err" or list(r[1][0].keys()) != [field] or not same(v, r[1][0][field]) or r[1][1] != len(tokens):
                    bad("table-mismatch", "parseDirect", "%s/direct" % family,
                        "tokens %r gave %r, documented: {%s: %s}" % (tokens, "ValueError" if r[0] == "err" else dict(r[1][0]), field, describe(v)))
        # parseNeedGoal: a direct goal, else an indirect one (a path), else a parse error
        v = row["goal"]
        if v["t"] != "unspec":
            n += 1
            try:
                r = ("ok", bld.parseNeedGoal("vf.state", "value", [text], 0))
            except excepting.ParseError:
                r = ("parse", None)
            except Exception as ex:
                bad("exception", "parseNeedGoal", innermost_ioflo_frame(ex.__traceback__), "%r: %s: %s" % (text, type(ex).__name__, ex))
                continue
            if v["t"] == "err":
                if r[0] == "ok" and r[1][0]:
                    bad("table-mismatch", "parseNeedGoal", "%s/goal" % family,
                        "%r is not a goal literal but was taken as the direct goal %s" % (text, show_py(r[1][1])))
            elif r[0] != "ok" or not r[1][0] or not same(v, r[1][1]):
                bad("table-mismatch", "parseNeedGoal", "%s/goal" % family,
                    "%r gave %r, documented direct goal %s" % (text, r[1] if r[0] == "ok" else "ParseError", describe(v)))
    return n, divs


def _eq(a, b):
    if isinstance(a, float) and isinstance(b, float) and math.isnan(a) and math.isnan(b):
        return True
    return a == b


# ------------------------------------------------------------------------------------------------------------------
# end to end
# ------------------------------------------------------------------------------------------------------------------

def _numeric(v):
    return v["t"] in ("int", "dec", "cplx", "coord")


def e2e_script(items):
    """items: [(k, text, row)] -> (script text, observations [(k, where, expected abstract, how)])"""
    out = ["house vfh", ""]
    obs = []
    inits, acts, needs, bids = [], [], [], []
    for (k, text, row) in items:
        d, g, nu = row["direct"], row["goal"], row["number"]
        if d["t"] not in ("err", "unspec"):
            inits.append("init vf.i%d with %s" % (k, text))
            obs.append((k, "init", d, ("share", "vf.i%d" % k, "value")))
            inits.append("init vf.j%d with fa %s fb %s" % (k, text, text))
            obs.append((k, "init fields", d, ("share", "vf.j%d" % k, "fb")))
            acts.append("put %s into vf.p%d" % (text, k))
            obs.append((k, "put", d, ("share", "vf.p%d" % k, "value")))
            acts.append("set vf.s%d with %s" % (k, text))
            obs.append((k, "set", d, ("share", "vf.s%d" % k, "value")))
            if _numeric(d):
                inits.append("init vf.n%d with 0" % k)
                acts.append("inc vf.n%d with %s" % (k, text))
                obs.append((k, "inc", d, ("share", "vf.n%d" % k, "value")))
            per = (" per io%d %s" % (k, text)) if d["t"] == "path" and not text.endswith(".") else ""
            acts.append("do doer param as vfd%d at enter via vfn%d with val %s%s cum ini %s" % (k, k, text, per, text))
            obs.append((k, "do with", d, ("deed", "Vfd%d" % k, "parms", "val")))
            obs.append((k, "do cum", d, ("deed", "Vfd%d" % k, "inits", "ini")))
            if per:
                obs.append((k, "do per", d, ("deed", "Vfd%d" % k, "ioinits", "io%d" % k)))
        if g["t"] not in ("err", "unspec"):
            needs.append("go fz if vf.g%d == %s" % (k, text))
            obs.append((k, "need goal", g, ("need", len(needs) - 1)))
        if nu["t"] in ("int", "dec"):
            bids.append("bid start vfb at %s" % text)
            obs.append((k, "bid period", nu, ("bid", len(bids) - 1)))
    out.extend(inits)
    out.append("")
    out.append("framer vfa be active first f1")
    out.append("  frame f1")
    out.extend("    " + a for a in acts)
    out.extend("    " + a for a in needs)
    out.append("    go f2")
    out.append("  frame f2")
    out.append("    bid stop all")
    out.append("  frame fz")
    out.append("    bid stop all")
    out.append("  frame fq")       # never entered: bids are only built (their period is read from the built act)
    out.extend("    " + a for a in bids)
    out.append("")
    out.append("framer vfb be inactive first g1")
    out.append("  frame g1")
    out.append("    print vf")
    return "\n".join(out) + "\n", obs


def _build(text, workdir):
    from ioflo.base import skedding
    path = os.path.join(workdir, "l%d.flo" % os.getpid())
    with open(path, "w") as f:
        f.write(text)
    sk = skedding.Skedder(name="vf", period=0.125, real=False, filepath=path)
    try:
        ok = sk.build()
    except Exception as ex:
        return None, (type(ex).__name__, str(ex)[:160], innermost_ioflo_frame(ex.__traceback__))
    if not ok:
        return None, ("ResolveError", "build returned False", "Builder.build")
    return sk, None


def _run(sk, max_ticks):
    """Skedder.run, interrupted (keyboard interrupt between ticks, the documented quiet way out) after max_ticks"""
    from ioflo.base import storing
    orig = storing.Store.changeStamp
    state = {"n": 0}

    def change_stamp(self, stamp):
        state["n"] += 1
        if state["n"] > max_ticks:
            raise KeyboardInterrupt()
        orig(self, stamp)

    storing.Store.changeStamp = change_stamp
    try:
        sk.run()
    finally:
        storing.Store.changeStamp = orig
    return state["n"] - 1


def e2e_batch(job):
    """valid literals, many per script: build, read init shares, run to the end (2 ticks), read the written shares"""
    family, items, workdir = job
    _setup()
    text, obs = e2e_script(items)
    texts = {k: t for (k, t, _) in items}
    divs = []
    n = 0

    def bad(kind, action, where, detail):
        if len(divs) < 30:
            divs.append({"kind": kind, "action": action, "where": where, "detail": detail, "script": text})

    sk, err = _build(text, workdir)
    if sk is None:
        if len(items) > 1:      # find the literal that breaks the build
            for it in items:
                n2, d2 = e2e_batch((family, [it], workdir))
                n += n2
                divs.extend(d2)
            return n, divs[:30]
        bad("exception", "Build", err[2], "valid %s literal %r refused by the builder: %s: %s" % (family, items[0][1], err[0], err[1]))
        return 1, divs
    house = sk.houses[0]
    frame = next(f for f in house.framers if f.name == "vfa").frameNames["f1"]
    deeds = {a.actor.name: a for a in frame.enacts if type(a.actor).__name__ == "DoerParam"}
    needs = [a.parms["needs"][0] for a in frame.preacts if a.parms.get("needs")]
    bids = [a for a in next(f for f in house.framers if f.name == "vfa").frameNames["fq"].enacts if type(a.actor).__name__ == "WantStart"]
    late = []
    for (k, where, v, how) in obs:
        if how[0] == "share" and where not in ("init", "init fields"):
            late.append((k, where, v, how))
            continue
        n += 1
        if how[0] == "share":
            sh = house.store.fetch(how[1])
            got = sh.get(how[2]) if sh is not None else "<no share>"
        elif how[0] == "deed":
            a = deeds.get(how[1])
            src = None if a is None else (a.parms if how[2] == "parms" else getattr(a, how[2]))
            got = src.get(how[3], "<absent>") if src is not None else "<no deed>"
        elif how[0] == "need":
            nd = needs[how[1]]
            if type(nd.actor).__name__ != "NeedDirect":
                bad("table-mismatch", "need goal", "%s/goal" % family, "%r should be a direct goal %s but the need is %s" % (texts[k], describe(v), type(nd.actor).__name__))
                continue
            got = nd.parms.get("goal")
        else:
            got = bids[how[1]].parms.get("period")
            if v["t"] in ("int", "dec") and (v.get("n", v.get("m", 0)) <= 0):
                if not (type(got) in (int, float) and got == 0):
                    bad("table-mismatch", where, "%s/number" % family, "period %r stored as %s, documented max(0, period)" % (texts[k], show_py(got)))
                continue
        if not same(v, got):
            bad("table-mismatch", where, "%s/%s" % (family, "goal" if how[0] == "need" else "number" if how[0] == "bid" else "direct"),
                "%r stored by `%s` as %s, documented: %s" % (texts[k], where, show_py(got), describe(v)))
    try:
        ticks = _run(sk, 8)
    except Exception as ex:
        bad("exception", "Run", innermost_ioflo_frame(ex.__traceback__), "%s: %s" % (type(ex).__name__, str(ex)[:160]))
        return n, divs
    if ticks >= 8:
        bad("nontermination", "Run", "Skedder.run", "the two-frame script did not stop within 8 ticks")
        return n, divs
    for (k, where, v, how) in late:
        n += 1
        sh = house.store.fetch(how[1])
        got = sh.get(how[2]) if sh is not None else "<no share>"
        if where == "inc":
            ok = _numeric(v) and _inc_ok(v, got)
        else:
            ok = same(v, got)
        if not ok:
            bad("table-mismatch", where, "%s/direct" % family, "%r stored by `%s` as %s, documented: %s" % (texts[k], where, show_py(got), describe(v)))
    return n, divs


def _inc_ok(v, got):
    """0 + literal"""
    if v["t"] == "int":
        return type(got) is int and got == v["n"]
    if v["t"] == "dec":
        return type(got) is float and got == 0 + dec(v["m"], v["e"])
    if v["t"] == "coord":
        return type(got) is float and got == 0 + coord(v)
    return type(got) is complex and got == 0 + complex(dec(v["re"]["m"], v["re"]["e"]), dec(v["im"]["m"], v["im"]["e"]))


def e2e_invalid(job):
    """literals the specification rejects, one per script: the builder must refuse them with ValueError / ParseError
    (direct data) or read them as an indirect goal (need)"""
    family, items, workdir = job
    _setup()
    divs = []
    n = 0
    for (k, text, row) in items:
        if row["direct"]["t"] == "err":
            for verb in ("init vf.x with %s", "put %s into vf.x"):
                n += 1
                line = verb % text
                if verb.startswith("init"):
                    script = "house vfh\n\n%s\n\nframer vfa be active first f1\n  frame f1\n    bid stop all\n" % line
                else:
                    script = "house vfh\n\nframer vfa be active first f1\n  frame f1\n    %s\n    bid stop all\n" % line
                sk, err = _build(script, workdir)
                if sk is not None:
                    sh = sk.houses[0].store.fetch("vf.x")
                    got = dict(sh.items()) if sh is not None else None
                    divs.append({"kind": "table-mismatch", "action": line.split()[0], "where": "%s/direct" % family,
                                 "detail": "`%s`: %r is not a literal in the documented forms but the script builds (stored %r)" % (line, text, got),
                                 "script": script})
                elif err[0] not in ("ValueError", "ParseError"):
                    divs.append({"kind": "exception", "action": "Build", "where": err[2], "detail": "`%s`: %s: %s" % (line, err[0], err[1]), "script": script})
    return n, divs[:30]


# ------------------------------------------------------------------------------------------------------------------
# the check
# ------------------------------------------------------------------------------------------------------------------

def cfg_text(family, maxlen, shard, nshards):
    return ("SPECIFICATION Spec\nCONSTANTS\n  Family = \"%s\"\n  MaxLen = %d\n  Shard = %d\n  NShards = %d\n"
            "INVARIANT RoundTrip\nINVARIANT ContextsAgree\nINVARIANT OrderRespected\nINVARIANT ShownIsToken\nCHECK_DEADLOCK FALSE\n"
            % (family, maxlen, shard, nshards))


QUICK_LEN = {"num": 4, "latlon": 4, "xy": 4, "ne": 4, "fs": 4, "word": 3, "quote": 4}
THOROUGH_LEN = {"num": 5, "latlon": 5, "xy": 5, "ne": 5, "fs": 5, "word": 5, "quote": 6}


def run_c17(ctx):
    lens = ctx.pick(QUICK_LEN, THOROUGH_LEN)
    work = env.subdir("c17")
    runs = []
    for fam in FAMILIES:
        size = sum(ALPHABET_SIZE[fam] ** i for i in range(1, lens[fam] + 1))
        nsh = max(1, min(ALPHABET_SIZE[fam], size // ctx.pick(6000, 20000) + 1))
        for sh in range(nsh):
            runs.append((fam, lens[fam], sh, nsh))

    def model(r):
        fam, ln, sh, nsh = r
        out = os.path.join(work, "table-%s-%d.json" % (fam, sh))
        res = tlc.run("Literals", cfg_text(fam, ln, sh, nsh), spec_dir=SPEC_DIR, extra_env={"TABLE_OUT": out}, workers=1,
                      coverage=False, tag="c17%s%d" % (fam, sh))
        return r, res, out

    with ThreadPoolExecutor(max_workers=env.NCPU) as ex:
        results = list(ex.map(model, runs))
    tables = {}
    for (fam, ln, sh, nsh), res, out in results:
        ctx.add_model(res, "Literals/%s/%d" % (fam, sh), {"Family": fam, "MaxLen": ln, "Shard": sh, "NShards": nsh})
        if not res.ok:
            ctx.diverge(Divergence("C17", "model", res.error_name or res.error, "Literals/" + fam,
                                   "the documented conversion violates the property in the model",
                                   steps=[{"action": a, "state": s} for a, s in res.trace]))
            continue
        with open(out) as f:
            rows = json.load(f)
        os.unlink(out)
        if res.distinct < len(rows) or not rows:
            raise TlcError("vacuous model run (Literals/%s): %d states for %d rows" % (fam, res.distinct, len(rows)))
        tables.setdefault(fam, []).extend(rows)
    if ctx.divs:
        return
    # vacuity: every kind of value must occur in the tables
    kinds = {(c, r[c]["t"]) for rows in tables.values() for r in rows for c in CTXS}
    need = {("direct", t) for t in ("str", "none", "bool", "path", "coord", "point", "int", "dec", "cplx", "err")} | \
           {("goal", t) for t in ("str", "none", "bool", "coord", "int", "dec", "cplx", "err")} | {("number", t) for t in ("int", "dec", "cplx", "err")}
    if not need <= kinds:
        raise TlcError("vacuous tables (Literals): value kinds never produced: %s" % sorted(need - kinds))
    pkinds = {r["direct"]["k"] for rows in tables.values() for r in rows if r["direct"]["t"] == "point"}
    if pkinds != {"xy", "xyz", "ne", "ned", "fs", "fsb"}:
        raise TlcError("vacuous tables (Literals): point kinds produced: %s" % sorted(pkinds))
    _setup()
    rng = random.Random(ctx.seed)
    mp = multiprocessing.get_context("fork")
    nrows = sum(len(v) for v in tables.values())
    # ---- converter level: every row
    jobs = []
    for fam, rows in tables.items():
        for i in range(0, len(rows), 4000):
            jobs.append((fam, rows[i:i + 4000]))
    with mp.Pool(env.NCPU) as pool:
        res1 = pool.map(replay_rows, jobs, chunksize=1)
    nconv = 0
    for (fam, _), (n, divs) in zip(jobs, res1):
        nconv += n
        _report(ctx, divs)
    # ---- end to end
    valid_budget = ctx.pick(220, 2500)
    invalid_budget = ctx.pick(40, 400)
    jobs2, jobs3 = [], []
    ne2e = 0
    for fam, rows in tables.items():
        tok = [r for r in rows if r["token"]]
        valid = [r for r in tok if any(r[c]["t"] not in ("err", "unspec") for c in CTXS)]
        invalid = [r for r in tok if r["direct"]["t"] == "err"]
        # every kind of value first, then a seeded sample
        bykind = {}
        for r in valid:
            bykind.setdefault((r["direct"]["t"], r["direct"].get("k"), r["goal"]["t"]), []).append(r)
        pick = [rng.choice(v) for _, v in sorted(bykind.items(), key=lambda kv: str(kv[0]))]
        rest = [r for r in valid if r not in pick] if len(valid) <= valid_budget else rng.sample(valid, valid_budget)
        pick = (pick + rest)[:max(valid_budget, len(pick))]
        items = [(k, "".join(r["s"]), r) for k, r in enumerate(pick)]
        ne2e += len(items)
        for i in range(0, len(items), 40):
            jobs2.append((fam, items[i:i + 40], work))
        inv = invalid if len(invalid) <= invalid_budget else rng.sample(invalid, invalid_budget)
        items = [(k, "".join(r["s"]), r) for k, r in enumerate(inv)]
        for i in range(0, len(items), 20):
            jobs3.append((fam, items[i:i + 20], work))
    with mp.Pool(env.NCPU) as pool:
        res2 = pool.map(e2e_batch, jobs2, chunksize=1)
        res3 = pool.map(e2e_invalid, jobs3, chunksize=1)
    nobs = 0
    for (n, divs) in res2 + res3:
        nobs += n
        _report(ctx, divs)
    sample = tables["num"][len(tables["num"]) // 2]
    ctx.add_validated(nrows + ne2e, {"text": "".join(sample["s"]), "direct": describe(sample["direct"]), "goal": describe(sample["goal"]),
                                     "number": describe(sample["number"])})
    if jobs2:
        ctx.sample({"script": e2e_script(jobs2[0][1][:3])[0].splitlines()[:16]})
    ctx.exhaustive = False
    ctx.rule = ("per family all strings over its sub-alphabet up to the length bound (+ structured longer literals) = TLC states and "
                "table rows; every row replayed through the three converters, parseDirect and parseNeedGoal (and the shown form back "
                "again); end to end one-act scripts for every kind of value plus a seeded sample of valid rows (init / put / set / inc / "
                "do with, per, cum / need goal / bid period) and of rejected rows; distinct = rows + end-to-end observations")
    ctx.extra.update({"evaluations": nconv + nobs, "distinct_nontrivial": nrows, "table_rows": nrows, "converter_evaluations": nconv,
                      "end_to_end_literals": ne2e, "end_to_end_observations": nobs, "lengths": lens})
    ctx.assume("Python's int(), float(), complex() grammars are written out in the specification; nan / inf spellings are left unspecified")
    ctx.assume("the script printer and the projection (shares, act parameters) in vf/families/literals.py are trusted")


_seen = {}


def _report(ctx, divs):
    """at most three examples per (kind, action, where)"""
    for d in divs:
        sig = (d["kind"], d["action"], d["where"])
        if _seen.get(sig, 0) >= 2 or sum(_seen.values()) >= 24:
            continue
        _seen[sig] = _seen.get(sig, 0) + 1
        ctx.diverge(Divergence("C17", d["kind"], d["action"], d["where"], d["detail"],
                               steps=[{"action": "Build", "state": {"script": d["script"]}}] if d.get("script") else [],
                               expected=d.get("expected"), actual=d.get("actual")))


PROPERTIES = {"C17": run_c17}
