"""C47 - named entities have unique names within their namespace (specs/reg/Registry.tla, RegistryTrace.tla).

A. TLC checks the namespace properties on the complete state graphs of several small profiles of Registry.tla and dumps
   them.  The specification is nondeterministic where the documentation is (the name an automatic creation gets), so the
   graphs are walked ONLINE on the real classes (Registrar subclasses House, Store, Tasker, Framer, Logger, Log, Frame;
   House.assignRegistries, Framer.assignFrameRegistry, Clear, ClearRegistries, Framer.clone): at every state every
   stimulus (action + inputs) is executed, and the observed outcome must be one of the specification's outcomes for
   that stimulus; the walk continues from the outcome that matched.
B. Seeded random construction histories of multi-house object graphs (no FloScript) are executed, logged with the actual
   names, and validated by TLC against RegistryTrace.tla, including complete reads of every registry.
"""
import random
import time
from collections import deque
from concurrent.futures import ThreadPoolExecutor

from .. import env, graph, replay, tlc, trace
from ..replay import Divergence

SPEC_DIR = env.SPECS + "/reg"
INVS = ["CurrentExists", "OwnOnlyWhileCurrent", "NoOrphans"]
APROPS = ["DuplicateRejectedUnchanged", "CreationIsFresh", "NoCrossHouse", "SwitchKeepsNames", "PruneFreesOnlyOwn"]
KINDS = ("store", "tasker", "log", "frame")
FD, FZ = ("d", ""), ("z", "")
OWN = ("d", FD, FZ)


def own(k):
    return FD if k == "frame" else "d"
KIND = {"House": "house", "Store": "store", "Log": "log", "Frame": "frame", "Tasker": "tasker", "Framer": "tasker",
        "Logger": "tasker"}


def _set(xs):
    return "{" + ", ".join('"%s"' % x for x in xs) + "}"


def cfg_text(p, maxmade, maxextra, spec="Spec", closed=True, props=True):
    s = ("SPECIFICATION %s\nCONSTANTS\n  Classes = %s\n  HouseNames = %s\n  StoreNames = %s\n  TaskerNames = %s\n  LogNames = %s\n"
         "  FrameNames = %s\n  MaxMade = %d\n  MaxExtra = %d\n  Clears = %s\n  ClearAllOffered = %s\n  Clones = %s\n  Prunes = %s\n  Queries = %s\n"
         "  Closed = %s\n" % (spec, _set(p["classes"]), _set(p.get("H", [])), _set(p.get("S", [])), _set(p.get("T", [])),
                              _set(p.get("L", [])), _set(p.get("F", [])), maxmade, maxextra, _set(p.get("clears", [])),
                              "TRUE" if p.get("clearall") else "FALSE", "TRUE" if p.get("clones") else "FALSE",
                              "TRUE" if p.get("prunes") else "FALSE",
                              "TRUE" if p.get("queries") else "FALSE", "TRUE" if closed else "FALSE"))
    if props:
        s += "".join("INVARIANT %s\n" % x for x in INVS) + "".join("PROPERTY %s\n" % x for x in APROPS)
    return s


PROFILES = [
    # houses with taskers / framers / loggers: cross-house tasker namespace, names that look automatic
    {"name": "house-tasker", "classes": ["House", "Tasker", "Framer", "Logger"], "H": ["h1", "h2"], "T": ["Framer2", "x"],
     "clears": ["tasker"], "clearall": True, "made": (3, 4), "extra": (1, 2)},
    # framers and their frames
    {"name": "framer-frame", "classes": ["Framer", "Frame"], "T": ["f", "g"], "F": ["Frame1", "y"], "clears": ["frame", "tasker"],
     "made": (4, 5), "extra": (1, 2), "queries": True},
    # houses, their stores and logs
    {"name": "house-store-log", "classes": ["House", "Store", "Log"], "H": ["h1", "House1"], "S": ["h1", "Store1"],
     "L": ["Log1", "x"], "clears": ["store", "log"], "clearall": True, "made": (3, 4), "extra": (1, 2)},
    # clones
    {"name": "clone", "classes": ["House", "Framer", "Frame"], "H": ["h1"], "T": ["f", "g"], "F": ["Frame1"], "clones": True,
     "prunes": True, "made": (4, 5), "extra": (1, 1)},
    # de-registration (Framer.prune) with same-named framers in two houses and in no house
    {"name": "prune", "classes": ["House", "Framer"], "H": ["h1", "h2"], "T": ["x"], "prunes": True,
     "made": (6, 7), "extra": (1, 1)},
]


class RegAdapter:
    """drives the real registries; mirrors which dictionary object stands for which namespace of the model"""

    def __init__(self, universe=None):
        env.use_repo()
        from ioflo.base import housing, storing, tasking, framing, logging, excepting
        self.m = {"housing": housing, "storing": storing, "tasking": tasking, "framing": framing, "logging": logging}
        self.ParameterError = excepting.ParameterError
        self.CloneError = excepting.CloneError
        self.universe = universe          # None: names are reported as they are (traces)
        try:
            from ioflo.aid.consoling import getConsole
            getConsole().reinit(verbosity=0)
        except Exception:
            pass
        self.cls = {"House": housing.House, "Store": storing.Store, "Tasker": tasking.Tasker, "Framer": framing.Framer,
                    "Logger": logging.Logger, "Log": logging.Log, "Frame": framing.Frame}
        self.regcls = {"house": housing.House, "store": storing.Store, "tasker": tasking.Tasker, "log": logging.Log,
                       "frame": framing.Frame}
        # a store for instances made outside any house; made before the slate is wiped so that it is in no registry
        storing.Store.Clear()
        self.aux = storing.Store(name="aux")
        # every adapter stands for a fresh process: instance counters as after import (best effort, harmless if absent)
        for c in self.cls.values():
            try:
                if "Counter" in c.__dict__:
                    if c in (framing.Framer, logging.Logger):
                        del c.Counter
                    else:
                        c.Counter = 0
            except Exception:
                pass
        housing.House.Clear()
        housing.ClearRegistries()
        framing.Frame.Clear()
        self.spaces = {("house", "g"): housing.House.Names}
        for k in KINDS:
            self.spaces[(k, own(k))] = self.regcls[k].Names
        self.houses = {}        # house name (token) -> House
        self.framers = {}       # (owner of the tasker namespace, name) -> Framer
        self.extras = {}        # id(namespace dict) -> actual names outside the universe, in order of appearance
        self.keep = []          # keeps every namespace dict alive so that id() stays unique

    # ---- names and namespaces
    def tok(self, d, actual):
        if self.universe is None or actual in self.universe:
            return actual
        lst = self.extras.setdefault(id(d), [])
        self.keep.append(d)
        if actual not in lst:
            lst.append(actual)
        return "~%d" % (lst.index(actual) + 1)

    def current(self, k):
        """owner of the namespace that is current for kind k (by identity of the class's Names dictionary)"""
        d = self.regcls[k].Names
        hit = [s for s, x in self.spaces.items() if s[0] == k and x is d]
        for s in hit:
            if s[1] not in OWN:
                return s[1]
        return hit[0][1] if hit else "?"

    def settle(self):
        """after a step: a Names dictionary nobody knows is the class's new own namespace; own namespaces that are
        not current any more are out of reach"""
        for k in KINDS:
            d = self.regcls[k].Names
            if not any(x is d for s, x in self.spaces.items() if s[0] == k):
                self.spaces[(k, own(k))] = d
            for o in OWN:
                if (k, o) in self.spaces and self.spaces[(k, o)] is not d:
                    del self.spaces[(k, o)]
        self.spaces[("house", "g")] = self.regcls["house"].Names
        # a framer that is no longer registered in a tasker namespace of the model is forgotten with its frame
        # namespace, which lives on as z while it is still current
        cur = self.regcls["frame"].Names
        for key in list(self.framers):
            o, f = key
            if ("tasker", o) in self.spaces and self.spaces[("tasker", o)].get(f) is self.framers[key]:
                continue
            d = self.spaces.pop(("frame", key), None)
            del self.framers[key]
            if d is cur:
                self.spaces[("frame", FZ)] = d

    def snapshot(self):
        return {s: {n: id(o) for n, o in d.items()} for s, d in self.spaces.items()}

    def project(self, res=None):
        out = {"names": {s: frozenset(self.tok(d, n) for n in d) for s, d in self.spaces.items()},
               "cur": {k: self.current(k) for k in KINDS}}
        if res is not None:
            out["res"] = res
        return out

    def store_for(self, c):
        if c in ("House", "Store"):
            return None
        o = self.current("tasker" if KIND[c] in ("tasker", "frame") else "log")
        if KIND[c] == "frame":
            o = self.current("frame")[0]
        return self.houses[o].store if o in self.houses else self.aux

    # ---- steps
    def create(self, c, name):
        """returns (result record, actual name or None)"""
        k = KIND[c]
        d = self.regcls[k].Names
        before = self.snapshot()
        kw = {}
        st = self.store_for(c)
        if st is not None:
            kw["store"] = st
        owner = self.current("tasker")
        try:
            obj = self.cls[c](name=name, **kw) if name is not None else self.cls[c](**kw)
        except self.ParameterError:
            return {"t": "err", "e": "ParameterError", "kept": self.snapshot() == before}, None
        actual = obj.name
        ok = isinstance(actual, str) and d.get(actual) is obj and type(obj).Names is d
        if name:
            ok = ok and actual == name
        if c == "House":
            sd = self.regcls["store"].Names
            ok = ok and obj.store is not None and obj.store.name == actual and sd.get(actual) is obj.store
            t = self.tok(d, actual)
            self.tok(sd, actual)
            if not t.startswith("~"):
                self.houses[t] = obj
                for kk in ("store", "tasker", "log"):
                    self.spaces[(kk, t)] = obj.names[kk]
        elif c == "Framer":
            t = self.tok(d, actual)
            if not t.startswith("~"):
                self.framers[(owner, t)] = obj
                self.spaces[("frame", (owner, t))] = obj.frameNames
        else:
            t = self.tok(d, actual)
        return {"t": "ok", "name": t, "reg": bool(ok)}, actual

    def call(self, name, args):
        m = self.m
        if name == "CreateExplicit":
            return self.create(args[0], args[1])[0]
        if name == "CreateAuto":
            c = args[0]
            r, actual = self.create(c, None)
            if r["t"] == "ok" and not actual.startswith(c):
                r["name"] = "!no-preface:" + actual          # an automatic name must carry the documented preface
            return r
        if name == "CreateBad":
            before = self.snapshot()
            kw = {}
            st = self.store_for(args[0])
            if st is not None:
                kw["store"] = st
            try:
                self.cls[args[0]](name=5, **kw)
            except self.ParameterError:
                return {"t": "err", "e": "ParameterError", "kept": self.snapshot() == before}
            return {"t": "ok", "name": "5", "reg": False}
        if name == "VerifyName":
            v = self.cls[args[0]].VerifyName(args[1])
            assert isinstance(v, bool)
            return {"t": "bool", "v": v}
        if name == "Retrieve":
            v = self.cls[args[0]].Retrieve(args[1])
            if v:
                assert v.name == args[1] and isinstance(v, self.regcls[KIND[args[0]]])
            return {"t": "bool", "v": bool(v)}
        if name == "Clear":
            k = args[0]
            old = self.current(k)
            self.regcls[k].Clear()
            self.spaces.pop((k, old), None)        # what became of it is not specified: out of the model
            return {"t": "cleared"}
        if name == "ClearAll":
            cur = self.regcls["frame"].Names
            fo = self.current("frame")
            m["housing"].House.Clear()
            m["housing"].ClearRegistries()
            self.houses.clear()
            self.spaces = {("frame", fo): cur}
            return {"t": "cleared"}
        if name == "SwitchHouse":
            self.houses[args[0]].assignRegistries()
            return {"t": "done"}
        if name == "SwitchFramer":
            self.framers[(args[0], args[1])].assignFrameRegistry()
            return {"t": "done"}
        if name == "Prune":
            self.framers[(args[0], args[1])].prune()
            return {"t": "pruned"}
        if name == "Clone":
            h, f, n = args
            orig = self.framers[(h, f)]
            before = self.snapshot()
            try:
                clone = orig.clone(name=n)
            except self.CloneError:
                return {"t": "err", "e": "CloneError", "kept": self.snapshot() == before}
            d = self.houses[h].names["tasker"]
            ok = clone.name == n and d.get(n) is clone and clone is not orig
            self.framers[(h, n)] = clone
            self.spaces[("frame", (h, n))] = clone.frameNames
            if id(orig.frameNames) in self.extras:
                self.extras[id(clone.frameNames)] = list(self.extras[id(orig.frameNames)])
                self.keep.append(clone.frameNames)
            ok = ok and all(fr.name == k2 and fr is not orig.frameNames.get(k2) for k2, fr in clone.frameNames.items())
            return {"t": "ok", "name": n, "reg": bool(ok)}
        raise NotImplementedError(name)

    def step(self, name, args, expected=None):
        r = self.call(name, args)
        self.settle()
        return self.project(r)


# ------------------------------------------------------------------ online conformance walk
def stimulus(act):
    """what the environment chooses; the rest of the label is outcome"""
    name, args = act
    if name == "CreateAuto":
        return (name, (args[0],))
    return (name, tuple(args))


def walk(prop, g, make_adapter, max_len=150, max_divs=10):
    """Execute every stimulus offered at every state of the graph that the implementation can be driven to.
    Returns dict(steps, stimuli, executed, visited, stimuli_at_visited, edges_seen, divs)."""
    stim = {}
    for u, es in g.out.items():
        d = stim.setdefault(u, {})
        for (lab, act, v) in es:
            d.setdefault(stimulus(act), []).append((lab, act, v))
    init = g.inits[0]
    # breadth-first order from the initial state (restart towards the shallowest unexplored state)
    pred = {init: None}
    dq = deque([init])
    order = []
    while dq:
        u = dq.popleft()
        order.append(u)
        for (lab, act, v) in g.out[u]:
            if v not in pred:
                pred[v] = (u, stimulus(act))
                dq.append(v)
    todo = {u: set(d) for u, d in stim.items() if d and u in pred}
    total = sum(len(x) for x in todo.values())
    tries = {}          # target state -> failed attempts to reach it (the implementation chose another outcome)
    divs, steps, seen, visited = [], 0, set(), {init}

    def wanted(u):
        return u in todo and tries.get(u, 0) < 2

    def plan_local(u, limit=6000):
        prev = {u: None}
        q = deque([u])
        n = 0
        while q and n < limit:
            x = q.popleft()
            for (lab, act, v) in g.out[x]:
                n += 1
                if v not in prev:
                    prev[v] = (x, stimulus(act))
                    if wanted(v):
                        path, t = [], v
                        while prev[v] is not None:
                            x2, s = prev[v]
                            path.append((x2, s, v))
                            v = x2
                        path.reverse()
                        return t, path
                    q.append(v)
        return None, None

    def plan_root():
        for u in order:
            if wanted(u):
                path, v = [], u
                while pred[v] is not None:
                    x, s = pred[v]
                    path.append((x, s, v))
                    v = x
                path.reverse()
                return u, path
        return None, None

    while len(divs) < max_divs and any(wanted(u) for u in todo):
        done = [{"action": "Init", "state": g.states[init]}]
        try:
            ad = make_adapter(g.states[init])
        except Exception as ex:
            divs.append(Divergence(prop, "exception", "Init", replay.innermost_ioflo_frame(ex.__traceback__),
                                   "%s: %s" % (type(ex).__name__, str(ex)[:200]), steps=done))
            break
        cur = init
        actual = ad.project()
        bad = replay._compare(g.states[init], actual, None)
        if bad:
            divs.append(Divergence(prop, "state-mismatch", "Init", bad[0], "expected %r got %r" % (bad[1], bad[2]), steps=done,
                                   expected=g.states[init], actual=actual))
            break
        target, plan = (None, []) if wanted(cur) else plan_root()
        n_here = 0
        while n_here < max_len:
            if cur in todo:
                s = min(todo[cur], key=repr)
                target, plan, hop = None, [], None
                todo[cur].discard(s)
                if not todo[cur]:
                    del todo[cur]
            else:
                if not plan or plan[0][0] != cur:
                    target, plan = plan_local(cur)
                    if not plan:
                        break
                s, hop = plan[0][1], plan[0][2]
                plan = plan[1:]
            cands = stim[cur][s]
            steps += 1
            n_here += 1
            try:
                actual = ad.step(s[0], s[1], None)
            except Exception as ex:
                import traceback
                done.append({"action": "%s%r" % s, "state": None})
                divs.append(Divergence(prop, "exception", s[0], replay.innermost_ioflo_frame(ex.__traceback__),
                                       "%s: %s" % (type(ex).__name__, str(ex)[:200]), steps=list(done),
                                       extra={"traceback": traceback.format_exc()[-2000:]}))
                break
            match = None
            firstbad = None
            for (lab, act, v) in cands:
                bad = replay._compare(g.states[v], actual, None)
                if bad is None:
                    match = (lab, act, v)
                    break
                if firstbad is None or (bad[0].startswith("names") and not firstbad[1][0].startswith("names")):
                    firstbad = ((lab, act, v), bad)
            if match is None:
                (lab, act, v), bad = firstbad
                done.append({"action": lab, "state": g.states[v]})
                divs.append(Divergence(prop, "state-mismatch", s[0], bad[0],
                                       "none of the %d specified outcomes matches: expected %r got %r" % (len(cands), bad[1], bad[2]),
                                       steps=list(done), expected=g.states[v], actual=actual))
                break
            done.append({"action": match[0], "state": g.states[match[2]]})
            seen.add((cur, match[0], match[2]))
            if hop is not None and match[2] != hop and target is not None:
                tries[target] = tries.get(target, 0) + 1      # the implementation went elsewhere: replan
                plan = []
            cur = match[2]
            visited.add(cur)
    at_visited = sum(len(stim[u]) for u in visited if u in stim)
    return {"steps": steps, "stimuli": total, "executed": total - sum(len(x) for x in todo.values()), "visited": len(visited),
            "stimuli_at_visited": at_visited, "left_at_visited": sum(len(todo[u]) for u in visited if u in todo),
            "edges_seen": len(seen), "divs": divs}


# ------------------------------------------------------------------ binding B
def _random_history(rng, nsteps):
    try:
        ad = RegAdapter(None)
    except Exception as ex:
        return [{"ev": "EXCEPTION", "op": "Init", "where": replay.innermost_ioflo_frame(ex.__traceback__),
                 "detail": "%s: %s" % (type(ex).__name__, str(ex)[:200])}]
    evs = [{"ev": "Init"}]
    pool = {"House": ["h1", "h2", "h3", "House1", "House2"], "Store": ["s1", "h1", "Store1", "Store2"],
            "Tasker": ["t1", "Tasker1", "Tasker2", "Framer1"], "Framer": ["f1", "f2", "Framer1", "Framer2", "Tasker1"],
            "Logger": ["lg", "Logger1", "f1"], "Log": ["l1", "Log1", "Log2"], "Frame": ["a", "b", "Frame1", "Frame2", "Frame3"]}
    op = ["?"]

    def cur():
        return {k: ad.current(k) for k in KINDS}

    def log(name, argd, res):
        e = {"ev": name, "res": res, "cur": cur()}
        e.update(argd)
        evs.append(e)

    def read():
        p = ad.project()
        evs.append({"ev": "Read", "cur": p["cur"], "names": [[s[0], s[1], sorted(v)] for s, v in sorted(p["names"].items(), key=repr)]})

    def do(name, args, argd):
        op[0] = name
        r = ad.call(name, args)
        ad.settle()
        log(name, argd, r)
        return r

    try:
        do("ClearAll", (), {})
        for i in range(nsteps):
            c = rng.random()
            if c < 0.08 or not ad.houses:
                n = rng.choice(pool["House"])
                sd = ad.regcls["store"].Names
                if rng.random() < 0.3:
                    op[0] = "CreateAuto"
                    r, actual = ad.create("House", None)
                    ad.settle()
                    log("CreateAuto", {"c": "House", "n": actual, "pre": actual.startswith("House")}, r)
                    n = actual
                elif n in sd and n not in ad.regcls["house"].Names:
                    continue        # the house's store name is taken: not specified what remains of the attempt
                elif any(ad.current(k) == n for k in ("store", "tasker", "log")):
                    continue
                else:
                    r = do("CreateExplicit", ("House", n), {"c": "House", "n": n})
                if r["t"] == "ok" and rng.random() < 0.85:
                    do("SwitchHouse", (n,), {"h": n})
            elif c < 0.14 and len(ad.houses) > 1:
                h = rng.choice(sorted(ad.houses))
                if all((k, h) in ad.spaces for k in ("store", "tasker", "log")) and h in ad.regcls["house"].Names:
                    do("SwitchHouse", (h,), {"h": h})
            elif c < 0.20 and ad.framers:
                o, f = rng.choice(sorted(ad.framers))
                if ("frame", (o, f)) in ad.spaces:
                    do("SwitchFramer", (o, f), {"o": o, "f": f})
            elif c < 0.24:
                k = rng.choice(KINDS)
                do("Clear", (k,), {"k": k})
            elif c < 0.25:
                do("ClearAll", (), {})
            elif c < 0.32 and ad.framers:
                h, f = rng.choice(sorted(ad.framers))
                if h != "d" and h in ad.houses and h in ad.regcls["house"].Names and ("tasker", h) in ad.spaces \
                        and ("frame", (h, f)) in ad.spaces \
                        and all((k, h) in ad.spaces for k in ("store", "log")):
                    n = rng.choice(pool["Framer"] + ["c1", "c2", "c3"])
                    if ad.current("frame") != (h, n):
                        do("Clone", (h, f, n), {"h": h, "f": f, "n": n})
            elif c < 0.345 and ad.framers:
                o, f = rng.choice(sorted(ad.framers))
                if ("frame", (o, f)) in ad.spaces:
                    do("Prune", (o, f), {"o": o, "f": f})
                    read()
            elif c < 0.36:
                cl = rng.choice(["Tasker", "Framer", "Log", "Frame", "Store"])
                n = rng.choice(pool[cl])
                do(rng.choice(["VerifyName", "Retrieve"]), (cl, n), {"c": cl, "n": n})
            elif c < 0.38:
                cl = rng.choice(["Tasker", "Framer", "Log", "Frame", "Store", "Logger"])
                do("CreateBad", (cl,), {"c": cl})
            elif c < 0.42:
                read()
            else:
                cl = rng.choice(["Tasker", "Framer", "Framer", "Logger", "Log", "Frame", "Frame", "Frame", "Store"])
                if rng.random() < 0.4:
                    op[0] = "CreateAuto"
                    r, actual = ad.create(cl, None)
                    ad.settle()
                    log("CreateAuto", {"c": cl, "n": actual, "pre": actual.startswith(cl)}, r)
                    n = actual
                else:
                    n = rng.choice(pool[cl])
                    if cl == "Framer" and ad.current("frame") == (ad.current("tasker"), n) \
                            and n not in ad.regcls["tasker"].Names:
                        continue
                    r = do("CreateExplicit", (cl, n), {"c": cl, "n": n})
                if cl == "Framer" and r["t"] == "ok" and rng.random() < 0.8:
                    o = ad.current("tasker")
                    do("SwitchFramer", (o, n), {"o": o, "f": n})
        read()
    except Exception as ex:
        evs.append({"ev": "EXCEPTION", "op": op[0], "where": replay.innermost_ioflo_frame(ex.__traceback__),
                    "detail": "%s: %s" % (type(ex).__name__, str(ex)[:200])})
    return evs


def run_c47(ctx):
    ctx.rule = ("A: complete state graphs of four profiles of Registry.tla (houses+taskers/framers/loggers, framers+frames, "
                "houses+stores+logs, clones; explicit names that look automatic; clears; namespace switches), walked online on the "
                "real classes: every stimulus at every state executed, the observed outcome must be a specified one; "
                "B: seeded random multi-house construction histories validated by TLC against RegistryTrace.tla with complete "
                "registry reads; distinct = stimuli executed + accepted histories")
    ctx.assume("the name given to an automatic creation is not predicted: the specification demands freshness and the preface; "
               "TLC, the value parser, the adapter's mapping from dictionaries to namespaces are trusted")
    tot = done = edges = nsteps = 0
    phases, perprofile = {}, {}
    t0 = time.time()
    def model(p):
        maxmade, maxextra = ctx.pick(*p["made"]), ctx.pick(*p["extra"])
        dot = env.subdir("c47") + "/%s.dot" % p["name"]
        return dot, tlc.run("Registry", cfg_text(p, maxmade, maxextra), spec_dir=SPEC_DIR, dump_dot=dot, deadlock=False,
                            tag="c47" + p["name"], workers=max(1, env.NCPU // 4))

    with ThreadPoolExecutor(max_workers=5) as ex:
        ran = list(ex.map(model, PROFILES))
    phases["tlc_graphs"] = round(time.time() - t0, 1)
    t0 = time.time()
    for p, (dot, res) in zip(PROFILES, ran):
        label = p["name"]
        ctx.add_model(res, "Registry/" + label, {k: p[k] for k in ("classes", "H", "S", "T", "L", "F", "clears") if k in p})
        if not res.ok:
            ctx.diverge(Divergence("C47", "model", res.error_name or res.error, "Registry/" + label,
                                   "specification property violated in the model",
                                   steps=[{"action": a, "state": s} for a, s in res.trace]))
            continue
        need = ["CreateExplicit", "CreateAuto"]
        need += ["Clear"] if p.get("clears") else []
        need += ["ClearAll", "SwitchHouse"] if p.get("clearall") else []
        need += ["SwitchFramer"] if "Framer" in p["classes"] else []
        need += ["Clone"] if p.get("clones") else []
        need += ["Prune"] if p.get("prunes") else []
        need += ["VerifyName", "Retrieve", "CreateBad"] if p.get("queries") else []
        tlc.require_coverage(res, need, "Registry/" + label)
        g = graph.load_dot(dot)
        uni = set(p.get("H", [])) | set(p.get("S", [])) | set(p.get("T", [])) | set(p.get("L", [])) | set(p.get("F", []))
        w = walk("C47", g, lambda init, uni=uni: RegAdapter(uni))
        for d in w["divs"]:
            d.extra["profile"] = label
        ctx.diverge(w["divs"])
        tot += w["stimuli_at_visited"]
        done += w["stimuli_at_visited"] - w["left_at_visited"]
        edges += w["edges_seen"]
        nsteps += w["steps"]
        info = {k: v for k, v in w.items() if k != "divs"}
        info.update({"profile": label, "graph_states": len(g.states), "graph_edges": g.nedges})
        ctx.add_validated(w["executed"], info)
        perprofile[label] = info
        # vacuity: rejected duplicates and automatic names colliding with automatic-looking explicit names were met
        outcomes = {(act[0], g.states[v]["res"]["t"]) for u, es in g.out.items() for (lab, act, v) in es}
        if ("CreateExplicit", "err") not in outcomes or ("CreateAuto", "ok") not in outcomes:
            raise tlc.TlcError("vacuous graph %s" % label)
        if not w["divs"] and w["executed"] < 0.5 * w["stimuli"]:
            raise tlc.TlcError("walk of %s executed only %d of %d stimuli" % (label, w["executed"], w["stimuli"]))
    phases["walk"] = round(time.time() - t0, 1)
    # binding B
    rng = random.Random(ctx.seed)
    ntr = ctx.pick(160, 1000)
    t0 = time.time()
    trs = [_random_history(rng, rng.randint(40, 120)) for _ in range(ntr)]
    phases["histories"] = round(time.time() - t0, 1)
    for t in [t for t in trs if t[-1]["ev"] == "EXCEPTION"][:10]:
        e = t[-1]
        ctx.diverge(Divergence("C47", "exception", e["op"], e["where"], e["detail"], steps=t))
    trs = [t for t in trs if t[-1]["ev"] != "EXCEPTION"]
    if not trs:
        return
    allp = {"classes": list(KIND), "clears": list(KINDS), "clearall": True, "clones": True, "prunes": True, "queries": True}
    cfg = cfg_text(allp, 100000, 0, spec="TraceSpec", closed=False) + "CONSTRAINT TraceOK\nCHECK_DEADLOCK FALSE\n"
    t0 = time.time()
    out = trace.validate("RegistryTrace", cfg, SPEC_DIR, trs, batch=ctx.pick(80, 125))
    phases["validate"] = round(time.time() - t0, 1)
    ctx.states += out.states
    ctx.transitions += out.generated
    ctx.add_validated(len(out.accepted), {"history": [{k: v for k, v in e.items() if k != "names"} for e in trs[0][:10]]})
    kinds = {}
    for t in trs:
        for e in t[1:]:
            k = e["ev"] + "/" + e.get("res", {}).get("t", "-")
            kinds[k] = kinds.get(k, 0) + 1
    for k in ("CreateExplicit/ok", "CreateExplicit/err", "CreateAuto/ok", "Clone/ok", "Clone/err", "SwitchHouse/done",
              "SwitchFramer/done", "Clear/cleared", "Prune/pruned", "Read/-"):
        if k not in kinds and not ctx.divs:
            raise tlc.TlcError("vacuous random histories: no %s" % k)
    for i, pref in sorted(out.rejected.items())[:10]:
        ev = trs[i][pref] if 0 <= pref < len(trs[i]) else {}
        ctx.diverge(Divergence("C47", "rejected", ev.get("ev", "?"), "trace",
                               "recorded history is not a behaviour of Registry.tla at event %d: %r" % (
                                   pref + 1, {k: v for k, v in ev.items() if k != "names"}),
                               steps=trs[i][:pref + 1]))
    for (i, err, name, tr) in out.model_errors[:5]:
        ctx.diverge(Divergence("C47", "rejected", name or err, "trace-invariant",
                               "invariant %s violated on a recorded history" % name, steps=trs[i]))
    ctx.exhaustive = (done == tot and tot > 0)
    nev = sum(len(t) - 1 for t in trs)
    ctx.extra.update({"phase_seconds": phases, "profiles": perprofile, "stimuli_at_reached_states": tot, "stimuli_executed": done, "outcome_edges_seen": edges, "walk_steps": nsteps,
                      "random_histories": ntr, "random_histories_accepted": len(out.accepted), "random_events": nev,
                      "random_outcomes": kinds, "distinct_nontrivial": done + len(out.accepted), "evaluations": nsteps + nev})


PROPERTIES = {"C47": run_c47}
