"""C45 - arbiters (specs/ctl/Arbiter.tla).

Binding C.  TLC evaluates the four documented selection rules (switch, priority, trusted, weighted) on every list of up
to MaxIn inputs over small value sets (selection, truth incl. None / Booleans / out-of-range numbers, importance, value
incl. a non-number), checks lemmas about the rules on every case and writes, shard by shard, the table of admitted
outputs.  The harness replays every row on the real deeds: ArbiterSwitch / ArbiterPriority / ArbiterTrusted /
ArbiterWeighted constructed over a real Store the way the deeds expect (output path, group path, odict of inputs), the
shares set from the row, the deed's action run once, the output share's value and truth compared.
"""
import json
import os
import random
from concurrent.futures import ProcessPoolExecutor
from fractions import Fraction

from .. import env, tlc
from ..replay import Divergence, innermost_ioflo_frame

SPEC_DIR = env.SPECS + "/ctl"
LEMMAS = ["Total", "FromSelected", "DefaultIff", "Dominates", "Convex", "OrderFree", "Single", "Ignored"]
U = 4            # truths are in units of 1/U in the specification
DEFVAL = 7
KINDS = ("switch", "priority", "trusted", "weighted")
NONE, BOOL, NUM, STR = 0, 1, 2, 3


def _cfg(grid, maxin, deftruths, nshards, only, deep):
    s = ('SPECIFICATION Spec\nCONSTANTS\n  Grid = "%s"\n  MaxIn = %d\n  DefTruths = {%s}\n  NShards = %d\n  Only = {%s}\n  Deep = %s\n'
         % (grid, maxin, ", ".join(map(str, deftruths)), nshards, ", ".join(map(str, only)), "TRUE" if deep else "FALSE"))
    return s + "".join("INVARIANT %s\n" % x for x in LEMMAS)


class _Bench:
    """the four real arbiters with n inputs each over one Store"""

    def __init__(self, maxin):
        env.use_repo()
        from ioflo.base import storing, arbiting
        from ioflo.aid.odicting import odict
        from ioflo.aid import consoling
        consoling.getConsole().reinit(verbosity=0)
        storing.Store.Clear()
        self.store = storing.Store(name="c45")
        self.arbs = {}
        classes = {"switch": arbiting.ArbiterSwitch, "priority": arbiting.ArbiterPriority,
                   "trusted": arbiting.ArbiterTrusted, "weighted": arbiting.ArbiterWeighted}
        for n in range(maxin + 1):
            for kind, cls in classes.items():
                inputs = odict()
                shares = []
                for i in range(n):
                    path = "in.%s%d.i%d" % (kind, n, i)
                    shares.append(self.store.create(path).create(value=0.0))
                    inputs["t%d" % i] = (path, False, 0.0)
                arb = cls(name="%s%d" % (kind, n), store=self.store, output="out.%s%d" % (kind, n),
                          group="arb.%s%d" % (kind, n), inputs=inputs)
                self.arbs[(kind, n)] = (arb, shares)


def _py_truth(tk, tn, flavour):
    if tk == NONE:
        return None
    if tk == BOOL:
        return bool(tn)
    f = tn / U
    if flavour == 1 and tn % U == 0:
        return tn // U      # integral truths as ints
    return f


def _py_val(vk, vn, flavour):
    if vk == STR:
        return ("x", None, [1.0])[flavour % 3]
    return float(vn) if flavour != 1 else vn


def _py_sel(sel, flavour):
    if sel:
        return (True, 1, "yes")[flavour % 3]
    return (False, 0, "")[flavour % 3] if flavour != 2 else None


def _py_imp(imp, flavour):
    return (imp / 2.0, imp, float(imp))[flavour % 3]


def _match(got_val, got_truth, out, exact):
    """does the output share (value, truth) equal the admitted output `out` = [vk, vn, vd, tk, tn, td]?"""
    vk, vn, vd, tk, tn, td = out
    if vk == STR:
        return None     # decided by the caller (identity with the input's object)
    if isinstance(got_val, bool) or not isinstance(got_val, (int, float)):
        return False
    if not _num_eq(got_val, Fraction(vn, vd), exact):
        return False
    if tk == NONE:
        return got_truth is None
    if tk == BOOL:
        return got_truth is bool(tn)
    if isinstance(got_truth, bool) or not isinstance(got_truth, (int, float)):
        return False
    return _num_eq(got_truth, Fraction(tn, td), exact)


def _num_eq(x, q, exact):
    if x != x or x in (float("inf"), float("-inf")):
        return False
    fx = Fraction(x)
    if fx == q:
        return True
    if exact:
        return False
    # a quotient of exactly known sums: the float nearest to q up to a few units in the last place
    return abs(fx - q) <= abs(q) * Fraction(1, 2 ** 48)


def _replay_file(job):
    path, flavours, maxin = job
    with open(path) as f:
        rows = json.load(f)
    os.unlink(path)
    bench = _Bench(maxin)
    divs = []
    seen = set()
    st = {"rows": len(rows), "evals": 0, "default": 0, "found": 0, "two_readings": 0, "ties": 0, "weighted_avg": 0,
          "nonnumber": 0, "maxlen": 0}

    def bad(kind, what, row, flavour, got=None, exc=None):
        key = (kind, what)
        if key in seen:
            return
        seen.add(key)
        dt, ins = row[0], row[1]
        case = {"default_truth": "%d/%d" % (dt, U), "inputs": [dict(sel=bool(i[0]), truth=_show(i[1], i[2]), imp=i[3], value=("x" if i[4] == STR else i[5])) for i in ins],
                "flavour": flavour}
        if exc is not None:
            divs.append(dict(kind="exception", action=kind, where=innermost_ioflo_frame(exc.__traceback__),
                             detail="update raised %s" % type(exc).__name__, expected=row[2 + KINDS.index(kind)],
                             actual=repr(exc), extra=case))
        else:
            divs.append(dict(kind="table-mismatch", action=kind, where="output", detail=what,
                             expected=row[2 + KINDS.index(kind)], actual=repr(got), extra=case))

    for row in rows:
        dt, ins = row[0], row[1]
        n = len(ins)
        st["maxlen"] = max(st["maxlen"], n)
        fixed = [U if i[1] == NONE else (i[2] * U if i[1] == BOOL else min(U, max(0, i[2]))) for i in ins]
        if len({(f, i[3]) for f, i in zip(fixed, ins) if i[0]}) < sum(1 for i in ins if i[0]):
            st["ties"] += 1
        for flavour in flavours:
            for ki, kind in enumerate(KINDS):
                arb, shares = bench.arbs[(kind, n)]
                vals = []
                for k, i in enumerate(ins):
                    v = _py_val(i[4], i[5], flavour)
                    vals.append(v)
                    shares[k].value = v
                    shares[k].truth = _py_truth(i[1], i[2], flavour)
                    arb.insels.update(**{"t%d" % k: _py_sel(i[0], flavour)})
                    arb.inimps.update(**{"t%d" % k: _py_imp(i[3], flavour)})
                arb.default.value = float(DEFVAL)
                arb.default.truth = dt / U
                arb.output.value = -99.0
                arb.output.truth = -99.0
                st["evals"] += 1
                try:
                    arb.action()
                except Exception as ex:      # "never raising"
                    bad(kind, "raised", row, flavour, exc=ex)
                    continue
                gv, gt = arb.output.value, arb.output.truth
                admitted = row[2 + ki]
                ok = False
                for out in admitted:
                    m = _match(gv, gt, out, exact=(kind != "weighted"))
                    if m is None:       # the value that is not a number must be passed on as the same object
                        m = any(gv is v for v, i in zip(vals, ins) if i[4] == STR and i[0]) and \
                            _match(0.0, gt, [NUM, 0, 1] + list(out[3:]), True)
                    if m:
                        ok = True
                        break
                if not ok:
                    bad(kind, "output (value, truth) is none of the admitted outputs", row, flavour, got=(gv, gt))
            if flavour == flavours[0]:
                for ki, kind in enumerate(KINDS):
                    adm = row[2 + ki]
                    if len(adm) == 1 and adm[0][:3] == [NUM, DEFVAL, 1]:
                        st["default"] += 1
                    else:
                        st["found"] += 1
                    if len(adm) == 2:
                        st["two_readings"] += 1
                if row[5][0][:3] != [NUM, DEFVAL, 1]:
                    st["weighted_avg"] += 1
                if any(i[4] == STR for i in ins):
                    st["nonnumber"] += 1
    sample = None
    if rows:
        r = rows[len(rows) // 2]
        sample = {"default_truth": "%d/%d" % (r[0], U), "inputs": r[1], "switch": r[2], "priority": r[3], "trusted": r[4], "weighted": r[5]}
    return st, divs, sample


def _show(tk, tn):
    return "None" if tk == NONE else (str(bool(tn)) if tk == BOOL else "%d/%d" % (tn, U))


def _model(ctx, name, grid, maxin, deftruths, nshards, only, deep):
    prefix = os.path.join(env.subdir("c45"), name)
    res = tlc.run("Arbiter", _cfg(grid, maxin, deftruths, nshards, only, deep), spec_dir=SPEC_DIR,
                  extra_env={"TABLE_OUT": prefix}, deadlock=False, coverage=False, tag="c45" + name)
    ctx.add_model(res, "Arbiter/" + name, {"Grid": grid, "MaxIn": maxin, "DefTruths": list(deftruths), "shards": "%d of %d" % (len(only), nshards)})
    if not res.ok:
        ctx.diverge(Divergence("C45", "model", res.error_name or res.error, "Arbiter/" + name,
                               "lemma violated in the specification itself", steps=[{"action": a, "state": s} for a, s in res.trace]))
        return None
    files = ["%s-%d-%d.json" % (prefix, k, n) for k in only for n in range(maxin + 1)]
    missing = [f for f in files if not os.path.exists(f)]
    if missing:     # Emit was not taken for some shard
        raise tlc.TlcError("no table written for %s" % missing[:3])
    return files


def run_c45(ctx):
    env.use_repo()
    os.environ.setdefault("JAVA_TOOL_OPTIONS", "-Xmx3g")     # see polygon.py
    rng = random.Random(ctx.seed)
    ncpu = env.NCPU
    nfull, nred = 110, 26        # inputs of the two grids (checked against the tables below)
    jobs = []
    groups = []
    # full value sets, every list of up to 2 inputs, default truth 0 / 1/2 / 1, with the costly lemmas
    groups.append(("full2", _model(ctx, "full2", "full", 2, (0, 2, 4), 2 * ncpu, range(2 * ncpu), True), 2, (0, 1, 2)))
    if ctx.quick:
        # reduced value sets, every list of up to 3 inputs
        groups.append(("red3", _model(ctx, "red3", "reduced", 3, (0, 2), 2 * ncpu, range(2 * ncpu), False), 3, (0, 1)))
    else:
        # reduced value sets up to 4 inputs; full value sets with 3 inputs for a seeded sample of first inputs
        groups.append(("red4", _model(ctx, "red4", "reduced", 4, (0, 2), nred, range(nred), False), 4, (0, 1)))
        only = sorted(rng.sample(range(nfull), 10))
        groups.append(("full3", _model(ctx, "full3", "full", 3, (0, 2), nfull, only, False), 3, (0, 2)))
    if any(files is None for _, files, _, _ in groups):
        return
    for name, files, maxin, flavours in groups:
        for f in files:
            jobs.append((f, flavours, maxin))
    with ProcessPoolExecutor(max_workers=ncpu) as ex:
        results = list(ex.map(_replay_file, jobs, chunksize=1))
    tot = {}
    for k, (st, divs, sample) in enumerate(results):
        for a, b in st.items():
            tot[a] = max(tot.get(a, 0), b) if a == "maxlen" else tot.get(a, 0) + b
        for d in divs:
            ctx.diverge(Divergence("C45", d["kind"], d["action"], d["where"], d["detail"], expected=d["expected"],
                                   actual=d["actual"], extra=d["extra"]))
        if sample and k % max(1, len(results) // 5) == 0:
            ctx.sample(sample)
    ctx.validated += tot.get("rows", 0)
    # vacuity guards
    want_full2 = 3 * (1 + nfull + nfull * nfull)
    got_full2 = sum(st["rows"] for (f, _, _), (st, _, _) in zip(jobs, results) if os.path.basename(f).startswith("full2-"))
    if got_full2 != want_full2:
        raise tlc.TlcError("full grid, up to 2 inputs: %d rows, expected %d" % (got_full2, want_full2))
    for k in ("default", "found", "two_readings", "ties", "weighted_avg", "nonnumber"):
        if not tot.get(k):
            raise tlc.TlcError("vacuous table: no case with %s" % k)
    ctx.exhaustive = True
    ctx.rule = ("rows = (default truth, list of inputs): every list of up to 2 inputs over the full value sets (selection; truth None, "
                "True, False, -1/2, 0, 1/4, 1/2, 1, 3/2; importance 0, 1, 2; value -1, 0, 2, not-a-number; unselected inputs by two "
                "representatives) x default truth 0, 1/2, 1; quick: every list of up to 3 inputs over reduced sets; thorough: up to 4 "
                "inputs over reduced sets and 3 inputs over the full sets for a seeded sample of first inputs; every row replayed on "
                "the four real deeds with 2-3 argument flavours (float / int / other truthy-falsy selections, importances halved)")
    ctx.extra.update({"evaluations": tot.get("evals", 0), "distinct_nontrivial": tot.get("rows", 0),
                      "rows_with_ties": tot.get("ties"), "outputs_default": tot.get("default"), "outputs_found": tot.get("found"),
                      "weighted_averages": tot.get("weighted_avg"), "rows_with_non_number": tot.get("nonnumber"), "max_inputs": tot.get("maxlen")})
    ctx.assume("switch / priority / trusted outputs are compared exactly; the weighted arbiter's quotients with the exact fraction from "
               "the specification up to 2^-48 relative (float division of exactly known sums)")
    ctx.assume("the deeds are constructed directly (name, store, output, group, inputs) as their docstring describes - they have no "
               "ioinits and cannot be built from FloScript; default truth is set on the group's default share")


PROPERTIES = {"C45": run_c45}
