"""Doubles for the extra check X-uxdwire (vf/families/uxdwire.py); not a family itself.

  World       what the kernel knows about one datagram address: a tiny file system (directories, socket files and who is
              bound to them), a udp port (free / held by a socket double / taken by another process), the umask of the process
  DgSocket    datagram socket double built on doubles_net.ScriptedSocket whose bind() answers from the World (ENOENT when
              the directory of a uxd file is missing, EADDRINUSE when the file exists / the port is held), whose close()
              releases a udp port but - like the kernel - leaves the uxd file, and whose sendto can accept a prefix
  FakeOs      stands in for `os` inside ioflo.aio.uxd.uxding: umask / makedirs / unlink / path.exists act on the World
  FakeTime    stands in for `time` inside ioflo.aio.wiring: time() is the model's clock
"""
import errno
import os as _os
import socket as _socket
import time as _time

from .. import doubles_net as dn

ORIG_UMASK = 0o022
SOCK_UMASK = 0o077


class World(object):
    def __init__(self, dirs=()):
        self.dirs = set(dirs)
        self.files = {}          # path -> DgSocket bound to it | "stale"
        self.umask = ORIG_UMASK
        self.taken = False       # udp: another process holds the port
        self.port = None         # udp: the DgSocket that holds the port
        self.unlinked = []

    def file_state(self, path):
        f = self.files.get(path)
        if f is None:
            return "free"
        if isinstance(f, DgSocket) and not f.closed:
            return "ours"
        return "stale"

    def port_state(self):
        if self.port is not None and not self.port.closed:
            return "ours"
        return "taken" if self.taken else "free"


class DgSocket(dn.ScriptedSocket):
    def __init__(self, world, **kw):
        kw.setdefault("type", _socket.SOCK_DGRAM)
        super(DgSocket, self).__init__(**kw)
        self.world = world
        self.um_at_bind = None
        self.recv_sizes = []

    def bind(self, address):
        self._alive("bind")
        r = self._next("bind")
        self._fail("bind", r, reading=False)
        w = self.world
        if self.family == _socket.AF_UNIX:
            if _os.path.dirname(address) not in w.dirs:
                self._log("bind", "raise", "ENOENT")
                raise dn.os_error(errno.ENOENT)
            if address in w.files:
                self._log("bind", "raise", "EADDRINUSE")
                raise dn.os_error(errno.EADDRINUSE)
            w.files[address] = self
            self.um_at_bind = w.umask
            self.bound = address
            self.sockname = address
        else:
            if w.port_state() != "free":
                self._log("bind", "raise", "EADDRINUSE")
                raise dn.os_error(errno.EADDRINUSE)
            w.port = self
            self.bound = address
            self.sockname = (address[0] or "0.0.0.0", address[1])
        self._log("bind", "ok")

    def sendto(self, data, *args):
        q = self.script.get("sendto")
        if q and q[0][0] == "partial":
            self._alive("sendto")
            r = q.popleft()
            k = min(r[1], len(data))
            self.dgrams_sent.append((bytes(data[:k]), args[-1]))
            self._log("sendto", "part", k)
            return k
        return super(DgSocket, self).sendto(data, *args)

    def recvfrom(self, bufsize, flags=0):
        self.recv_sizes.append(bufsize)
        return super(DgSocket, self).recvfrom(bufsize, flags)


class _FakePath(object):
    def __init__(self, world):
        self._w = world

    def exists(self, p):
        return p in self._w.files or p in self._w.dirs

    lexists = exists

    def isdir(self, p):
        return p in self._w.dirs

    def isfile(self, p):
        return False

    def __getattr__(self, name):
        return getattr(_os.path, name)


class FakeOs(object):
    def __init__(self, world):
        self._w = world
        self.path = _FakePath(world)

    def umask(self, new):
        old = self._w.umask
        self._w.umask = new
        return old

    def makedirs(self, p, mode=0o777, exist_ok=False):
        if p in self._w.dirs:
            if exist_ok:
                return
            raise FileExistsError(errno.EEXIST, _os.strerror(errno.EEXIST), p)
        if not p:
            raise FileNotFoundError(errno.ENOENT, _os.strerror(errno.ENOENT), p)
        while p and p != "/":
            self._w.dirs.add(p)
            p = _os.path.dirname(p)

    mkdir = makedirs

    def unlink(self, p):
        if p not in self._w.files:
            raise FileNotFoundError(errno.ENOENT, _os.strerror(errno.ENOENT), p)
        del self._w.files[p]
        self._w.unlinked.append(p)

    remove = unlink

    def __getattr__(self, name):
        return getattr(_os, name)


class FakeTime(object):
    """time() = base + the model's clock (whole seconds); everything else is the real module's"""

    BASE = 1600000000

    def __init__(self):
        self.clock = 1

    def time(self):
        return float(self.BASE + self.clock)

    def __getattr__(self, name):
        return getattr(_time, name)
