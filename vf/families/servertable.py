"""C26 - a TCP server keeps one live connection entry per peer address (specs/net/ServerTable.tla).

The complete state graph (arrivals from fresh and repeated addresses, peer closes, shutdownIx / closeIx / removeIx,
serviceConnects / serviceAll with TLC-chosen TLS handshake answers) is replayed on real tcp.Server and tcp.ServerTls
objects whose listening socket and accepted sockets are ScriptedSocket doubles (no port is bound; ServerTls runs over a
FakeTlsContext).
"""
import errno
import socket
from concurrent.futures import ThreadPoolExecutor

from .. import doubles_net as dn
from .. import env, graph, replay, tlc
from ..replay import Divergence
from ._net import jvm_env

SPEC_DIR = env.SPECS + "/net"
LOCAL = ("127.0.0.1", 6101)
ADDRS = {"a1": ("10.0.0.1", 5001), "a2": ("10.0.0.2", 5002), "a3": ("10.0.0.3", 5003)}
NAMES = {v: k for k, v in ADDRS.items()}
LOSS = (errno.ECONNRESET, errno.ENETRESET, errno.ENETUNREACH, errno.EHOSTUNREACH, errno.ENETDOWN, errno.EHOSTDOWN,
        errno.ETIMEDOUT, errno.ECONNREFUSED)


def cfg_text(kinds, addrs, maxconns):
    return ('SPECIFICATION Spec\nCONSTANTS\n  Kinds = {%s}\n  Addrs = {%s}\n  MaxConns = %d\n'
            'INVARIANT OnePerAddress\nINVARIANT ReplacedIsShutDown\nINVARIANT RemoveCloses\nPROPERTY NeverRaises\n'
            % (", ".join('"%s"' % k for k in kinds), ", ".join('"%s"' % a for a in addrs), maxconns))


def shut_answer(sd):
    if sd == "noerrno":
        return dn.exc(socket.error("shutdown failed (scripted, no errno)"))
    return dn.err(getattr(errno, sd))


class ServerAdapter:
    def __init__(self, init):
        env.use_repo()
        from ioflo.aio.tcp import serving
        self.kind = str(init["kind"])
        self.fake = dn.FakeSocketModule()
        self.undo = [dn.install(serving, "socket", self.fake)]
        if self.kind == "plain":
            self.srv = serving.Server(ha=LOCAL)
        else:
            self.srv = serving.ServerTls(context=dn.FakeTlsContext(), ha=LOCAL)
        if not self.srv.reopen():
            raise AssertionError("server did not open over the listening double")
        self.listen = self.fake.last
        if len(self.fake.created) != 1 or not self.listen.listening:
            raise AssertionError("expected exactly one listening socket double")
        self.socks = {}        # connection id -> ScriptedSocket
        self.addr = {}         # connection id -> address name
        self.waiting = []      # [(id, address name)] still in the listen double's accept script
        self.peerclosed = set()
        self.nlost = 0
        self._ready = set()    # id(Incomer) of entries seen in .ixes
        self.names = sorted(str(a) for a in init["ixes"].keys())
        self._known = {}       # id(Incomer) -> connection id
        self._keep = []        # the Incomers themselves (keeps id() stable, remembers entries that left the table)

    def close(self):
        for u in reversed(self.undo):
            u()
        self.undo = []

    def _id_of(self, incomer, hint=None):
        """connection number of an Incomer: by its socket double (a closed Incomer has dropped its socket: remembered)"""
        key = id(incomer)
        if key not in self._known:
            cs = incomer.cs
            inner = getattr(cs, "inner", cs)
            for cid, s in self.socks.items():
                if s is inner:
                    self._known[key] = cid
                    self._keep.append(incomer)
                    break
            else:
                raise AssertionError("table entry %r does not hold an accepted socket" % (incomer,))
        return self._known[key]

    def project(self, res=None, expected=None):
        srv = self.srv
        names = self.names
        out = {}
        tab = {}
        for ca, ix in srv.ixes.items():
            if ca not in NAMES:
                raise AssertionError("unknown address %r in .ixes" % (ca,))
            tab[NAMES[ca]] = self._id_of(ix)
            self._ready.add(id(ix))
            if ix.ca != ca:
                raise AssertionError("entry keyed %r holds the connection of %r" % (ca, ix.ca))
        out["ixes"] = {a: tab.get(a, 0) for a in names}
        if self.kind == "tls":
            ctab = {}
            for ca, cx in srv.cxes.items():
                ctab[NAMES[ca]] = self._id_of(cx)
            out["cxes"] = {a: ctab.get(a, 0) for a in names}
        replaced = set(expected["replaced"]) if expected is not None else set()
        out["down"] = frozenset(cid for cid, s in self.socks.items() if s.shut)
        # whether a replaced stale connection is also closed is not specified
        want = set(expected["closed"]) if expected is not None else set()
        out["closed"] = frozenset(cid for cid, s in self.socks.items() if s.closed and (cid not in replaced or cid in want))
        out["cut"] = frozenset(self._id_of(ix) for ix in srv.ixes.values() if ix.cutoff) | (self._cut_gone())
        out["pending"] = tuple((cid, a) for (cid, a) in self.waiting)
        if res is not None:
            out["res"] = res
        return out

    def _cut_gone(self):
        # connections no longer in the table that were seen cut off while they were
        gone = set()
        live = {id(ix) for ix in self.srv.ixes.values()}
        for ix in self._keep:
            if id(ix) not in live and id(ix) in self._ready and ix.cutoff:
                gone.add(self._known[id(ix)])
        return frozenset(gone)

    def step(self, name, args, expected):
        srv = self.srv
        ca = ADDRS.get(str(args[0])) if name not in ("ServiceConnects", "ServiceAll") else None
        sd = str(args[1]) if name in ("ServiceConnects", "ServiceAll", "Remove") else "ok"
        if sd != "ok":
            # the answer every open accepted socket gives to a shutdown() during this step
            for s in self.socks.values():
                if not s.closed:
                    s.push("shutdown", shut_answer(sd))
        res = "none"
        if name == "Arrive":
            cid = len(self.socks) + 1
            s = dn.ScriptedSocket(name="c%d" % cid, peer=ca, sockname=srv.eha, connected=True)
            self.socks[cid] = s
            self.addr[cid] = str(args[0])
            self.waiting.append((cid, str(args[0])))
            self.listen.push("accept", dn.conn(s, ca))
        elif name == "PeerClose":
            cid = self._id_of(srv.ixes[ca])
            self.peerclosed.add(cid)
        elif name in ("ServiceConnects", "ServiceAll"):
            h = args[0]
            if self.kind == "tls":
                # answers of the TLS layer to the handshakes this call will attempt
                for cid, s in self.socks.items():
                    a = self.addr[cid]
                    if s.closed or cid in {self._known.get(id(ix)) for ix in srv.ixes.values()}:
                        continue
                    if h[a] == "lost":
                        self.nlost += 1
                        s.push("do_handshake", dn.TLS_EOF if self.nlost % 3 == 0 else dn.err(LOSS[self.nlost % len(LOSS)]))
                    elif h[a] in ("ok", "want"):
                        s.push("do_handshake", dn.OK if h[a] == "ok" else dn.WANT_READ)
            if name == "ServiceAll":
                for cid in self.peerclosed:
                    if not self.socks[cid].closed:
                        self.socks[cid].push("recv", dn.CLOSED)
            if name == "ServiceConnects":
                srv.serviceConnects()
            else:
                srv.serviceAll()
            res = "served"
            if self.listen.pending("accept"):
                raise AssertionError("the server left connections waiting at the listen socket")
            self.waiting = []
            for s in self.socks.values():
                s.clear("do_handshake")
                s.clear("recv")
        elif name in ("ShutdownIx", "CloseIx", "Remove"):
            fn = {"ShutdownIx": srv.shutdownIx, "CloseIx": srv.closeIx, "Remove": srv.removeIx}[name]
            try:
                fn(ca)
                res = "ok"
            except ValueError:          # documented: "Invalid connection address"
                res = "ValueError"
        else:
            raise NotImplementedError(name)
        for s in self.socks.values():
            s.clear("shutdown")
        return self.project(res, expected)


ACTIONS = ["Arrive", "PeerClose", "ServiceConnects", "ServiceAll", "ShutdownIx", "CloseIx", "Remove"]


def run_c26(ctx):
    ctx.rule = ("complete state graph of ServerTable.tla for Server (plain) and ServerTls: arrivals from fresh and repeated peer "
                "addresses, peer closes, shutdownIx / closeIx / removeIx (also of absent addresses), serviceConnects / serviceAll with "
                "every combination of TLS handshake answers; every edge replayed on real Server / ServerTls objects over socket "
                "doubles, the tables and the state of every socket double compared; distinct = graph edges")
    ctx.assume("TLC, vf/doubles_net.py and the projection functions are trusted")
    ctx.assume("ssl is not modelled: ServerTls / IncomerTls run over a FakeTlsContext; the double answers each handshake with ok, want-read, or a connection-loss error")
    configs = ctx.pick([(["a1", "a2"], 2), (["a1"], 3)], [(["a1", "a2"], 3), (["a1"], 4)])
    kinds = ["plain", "tls"]
    dots = [env.subdir("c26") + "/servertable%d.dot" % i for i in range(len(configs))]

    def model(i):
        addrs, maxconns = configs[i]
        return tlc.run("ServerTable", cfg_text(kinds, addrs, maxconns), spec_dir=SPEC_DIR, dump_dot=dots[i], deadlock=False,
                       tag="c26_%d" % i, extra_env=jvm_env(ctx.quick), workers=max(1, env.NCPU // len(configs)))

    with ThreadPoolExecutor(max_workers=len(configs)) as ex:
        results = list(ex.map(model, range(len(configs))))
    total = cov = nsteps = 0
    for i, ((addrs, maxconns), res) in enumerate(zip(configs, results)):
        name = "ServerTable/%dx%d" % (len(addrs), maxconns)
        ctx.add_model(res, name, {"Kinds": kinds, "Addrs": addrs, "MaxConns": maxconns})
        if not res.ok:
            ctx.diverge(Divergence("C26", "model", res.error_name or res.error, name, "specification property violated in the model",
                                   steps=[{"action": a, "state": s} for a, s in res.trace]))
            continue
        tlc.require_coverage(res, ACTIONS, name)
        g = graph.load_dot(dots[i])
        nrepl = {"plain": 0, "tls": 0}
        nlost = 0
        for st in g.states.values():
            if st["replaced"]:
                nrepl[str(st["kind"])] += 1
            if st["lost"]:
                nlost += 1
        missing = ["%s/replacement of a stale entry" % k for k in nrepl if not nrepl[k]]
        if not nlost:
            missing.append("tls/connection lost during its handshake")
        if missing:
            raise tlc.TlcError("vacuous model run (%s): never reached: %s" % (name, ", ".join(missing)))
        paths = graph.edge_cover(g, max_len=40)
        traces = replay.graph_paths_to_traces(g, paths)
        n, divs = replay.replay("C26", traces, ServerAdapter)
        for d in divs:
            st = d.steps[0]["state"] if d.steps else {}
            d.where = "%s:%s" % (st.get("kind", "?"), d.where)
        ctx.diverge(divs)
        total += g.nedges
        cov += graph.covered_edges(paths)
        nsteps += n
        for k in kinds:
            ex = [t for t in traces if t[0][2]["kind"] == k]
            ctx.sample({"kind": k, "addresses": addrs, "path": [s[0] for s in ex[len(ex) // 2]][:30]})
        ctx.add_validated(len(traces))
    ctx.exhaustive = (cov == total)
    ctx.extra.update({"graph_edges": total, "edges_replayed": cov, "distinct_nontrivial": cov, "evaluations": nsteps,
                      "configurations": [{"Addrs": a, "MaxConns": m} for a, m in configs]})


PROPERTIES = {"C26": run_c26}
