"""C23 - log rotation and flushing (specs/log/LogRotate.tla, which extends LogRules.tla).

Binding A only, in two forms:
  * no-crash behaviours (complete graph for the `always` log over all rotation configurations; -simulate behaviours for
    the bursty `streak` log and for both logs together) run in process on a real Logger; after EVERY step the files on
    disk are read WITHOUT flushing: each must extend the durable prefix the specification guarantees and be a prefix of
    what the specification says was written (exactly equal once closed / rotated);
  * behaviours that end in the model's Crash action run in a child process (a fork server started with env.PYTHON /
    env.child_env(); every scenario is a fresh process that builds the logger, performs the steps and dies with
    os._exit at the TLC-chosen point - buffers unflushed, nothing closed); the parent then reads the files.
Two points the documentation leaves open (retry of a rotation refused for size; rotation at STOP) are model parameters
determined by probing the implementation (see calibrate()).
"""
import glob
import json
import os
import shutil
import subprocess
import sys

from .. import env, graph, replay, tlc
from ..replay import Divergence
from . import logrules as LR

SPEC_DIR = LR.SPEC_DIR
HSIZE = len(LR.header_text("always", "one"))
RSIZE = len("0.5\t1\n")
assert HSIZE == len(LR.header_text("streak", "one"))
SMALL = HSIZE + 2 * RSIZE          # reached exactly by a file with two records
LARGE = 5000                       # never reached
TLC_TIMEOUT = 8 * 3600             # slowness of a loaded machine must never become a verdict


def log_dir(root, reuse):
    """the logger's directory under root (documented: <prefix>/<house>/<logger> when reused, else <logger>_<timestamp>)"""
    if reuse:
        d = os.path.join(root, "hs", "lg")
        return d if os.path.isdir(d) else None
    ds = glob.glob(os.path.join(root, "hs", "lg_*"))
    return ds[0] if ds else None


def disk_files(d, rule, sel, nfiles):
    """entries of <rule>.txt, <rule>01.txt, ... as found on disk now (no flushing); files beyond nfiles are appended"""
    hdr = LR.header_text(rule, sel)
    out = []
    names = ["%s.txt" % rule] + ["%s%02d.txt" % (rule, k) for k in range(1, nfiles)]
    present = set(os.listdir(d)) if d else set()
    for n in names:
        if n in present:
            with open(os.path.join(d, n)) as f:
                ents, torn = LR.parse_log(f.read(), hdr)
            out.append(tuple(ents))
        else:
            out.append(())
    for n in sorted(present):
        if n.startswith(rule) and n not in names and n != "error.txt":
            out.append(({"h": False, "t": -3, "v": ("unexpected file", n)},))
    return out


def bounded(lower, upper, disk):
    """lower is a prefix of disk and disk is a prefix of upper"""
    n = len(disk)
    return len(lower) <= n <= len(upper) and tuple(upper[:n]) == tuple(disk)


def check_ret(d, rules, sel, upper_ret, lower_ret):
    """projection of `ret`: the specification's files where the disk lies between the durable prefix and what was
    written, the disk's own content where it does not"""
    out = {}
    for r in rules:
        up = [replay.norm(f) for f in upper_ret[r]]
        lo = [replay.norm(f) for f in lower_ret[r]]
        disk = [replay.norm(f) for f in disk_files(d, r, sel, len(up))]
        if len(disk) == len(up) and all(bounded(lo[k], up[k], disk[k]) for k in range(len(up))):
            out[r] = tuple(up)
        else:
            out[r] = tuple(disk)
    return out


def durable(st):
    return {r: tuple(tuple(f[:st["dur"][r][k]]) for k, f in enumerate(st["ret"][r])) for r in st["ret"]}


def same_files(a, b):
    return [replay.norm(f) for f in a] == [replay.norm(f) for f in b]


class RotAdapter:
    """in-process behaviours: projection = public logger state + files on disk (never flushed by the harness).
    NewSession (after the logger stopped): the world is dropped without touching its files and a new one - fresh store,
    Logger and Log objects - is built over the same prefix, as a new process would."""

    def __init__(self, init):
        self.init = init
        self.exp = init
        self.root = LR.new_root("c23")
        self.dirs = []
        self.olddir = self.oldseen = None
        self.w = self.world(True)

    def world(self, fresh):
        c, r = self.init["cfg"], self.init["rcfg"]
        return LR.LogWorld(set(c["logs"]), c["sel"], c["period"], self.root, keep=r["keep"], cycle=r["cycle"],
                           size=r["size"], flush=r["flush"], reuse=r["reuse"], fresh=fresh)

    def directory(self):
        d = self.w.logger.path or None
        if d is None and self.init["rcfg"]["reuse"] and self.dirs:
            d = self.dirs[-1]          # the new process has not started its logger yet: the reused directory is still there
        return d

    def project(self, expected=None):
        exp = expected or self.exp
        w = self.w
        q = w.store.stamp / LR.TICK
        status, desire = w.names()
        out = {"now": int(q) if q == int(q) else repr(w.store.stamp), "sq": tuple(w.q[w.qfield]),
               "status": status, "desire": desire,
               "ret": check_ret(self.directory(), w.rules, w.sel, exp["ret"], durable(exp))}
        if self.olddir:
            now = {r: disk_files(self.olddir, r, w.sel, len(exp["old"][r])) for r in w.rules}
            out["old"] = exp["old"] if all(same_files(now[r], self.oldseen[r]) for r in w.rules) else {r: tuple(now[r]) for r in now}
        return out

    def step(self, name, args, expected):
        if name == "NewSession":
            w = self.w
            d = w.logger.path
            w.logger.close()
            if d:
                self.dirs.append(d)
                if not self.init["rcfg"]["reuse"]:
                    self.olddir = d
                    self.oldseen = {r: disk_files(d, r, w.sel, len(expected["old"][r])) for r in w.rules}
                    if not all(same_files(self.oldseen[r], expected["old"][r]) for r in w.rules):
                        return {"old": {r: tuple(self.oldseen[r]) for r in w.rules}}
            self.w = self.world(False)
            return self.project(expected)
        if name.startswith("R"):
            name = name[1:]
        if name == "PushS":
            args = (expected["sq"][-1],)
        self.w.perform(name, args)
        return self.project(expected)

    def close(self):
        self.w.close()
        for d in self.dirs:
            if d.startswith(self.root):
                LR.clear_dir(d)
                if not self.init["rcfg"]["reuse"]:
                    try:
                        os.rmdir(d)
                    except OSError:
                        pass


_SERVER = {}


def server():
    """the fork server of this process (started on first use)"""
    p = _SERVER.get(os.getpid())
    if p is None or p.poll() is not None:
        code = ("import sys; sys.path.insert(0, %r); import collections.abc; from vf.families import logrotate; "
                "logrotate.crash_server()" % env.VERIF)
        p = subprocess.Popen([env.PYTHON, "-B", "-W", "ignore", "-c", code], stdin=subprocess.PIPE, stdout=subprocess.PIPE,
                             env=env.child_env(), text=True, bufsize=1)
        _SERVER.clear()
        _SERVER[os.getpid()] = p
    return p


def crash_server():
    """child process: for every job line fork a process that runs the scenario on a real Logger and dies with os._exit"""
    LR.ioflo()
    for line in sys.stdin:
        job = json.loads(line)
        pid = os.fork()
        if pid == 0:
            code = 18
            try:
                if not job.get("fsync"):
                    LR.no_fsync()
                w = LR.LogWorld(set(job["logs"]), job["sel"], job["period"], job["root"], fresh=job.get("fresh", True), **job["rot"])
                for name, args in job["actions"]:
                    w.perform(name, tuple(args))
                code = 17
            except BaseException:
                import traceback
                with open(os.path.join(job["root"], "error.txt"), "w") as f:
                    f.write(traceback.format_exc())
            finally:
                os._exit(code)        # the death of the process: no flush, no close, no atexit
        _, st = os.waitpid(pid, 0)
        sys.stdout.write("%d\n" % os.waitstatus_to_exitcode(st))
        sys.stdout.flush()


class CrashAdapter:
    """behaviours in which processes die: the steps of a session are collected and executed in a process that is killed
    after the last one (Crash, or the end of the behaviour) or simply ends (logger stopped, NewSession follows); the next
    session runs in another process over the same prefix.  The files are read between the processes and at the end."""

    def __init__(self, init):
        self.init = init
        self.prev = init
        self.actions = []
        self.nrun = 0
        self.pending = True          # the current session has not been executed yet
        self.detached = False        # more survived a crash than the model keeps: the continuation is not comparable
        self.upper = None
        self.known = []
        self.olddir = self.oldseen = None
        self.root = os.path.join(LR.new_root("c23x"), "s%d" % next(LR._count))
        c = init["cfg"]
        self.rules = [x for x in LR.RULE_ORDER if x in c["logs"]]
        self.sel = c["sel"]
        self.reuse = init["rcfg"]["reuse"]

    def run(self):
        c, r = self.init["cfg"], self.init["rcfg"]
        os.makedirs(self.root, exist_ok=True)
        # os.fsync costs tens of milliseconds on a busy disk and cannot be told from a plain flush by killing a process:
        # it is the real one in every 16th scenario only
        job = {"logs": sorted(c["logs"]), "sel": c["sel"], "period": c["period"], "root": self.root, "actions": self.actions,
               "fsync": next(LR._count) % 16 == 0, "fresh": self.nrun == 0,
               "rot": {"keep": r["keep"], "cycle": r["cycle"], "size": r["size"], "flush": r["flush"], "reuse": r["reuse"]}}
        p = server()
        p.stdin.write(json.dumps(job) + "\n")
        p.stdin.flush()
        rc = p.stdout.readline().strip()
        if rc != "17":
            err = ""
            try:
                with open(os.path.join(self.root, "error.txt")) as f:
                    err = f.read()
            except OSError:
                pass
            raise RuntimeError("scenario process ended with %r instead of dying at the chosen point\n%s" % (rc, err[-1500:]))
        self.nrun += 1
        self.actions = []
        self.pending = False

    def directory(self):
        """the directory of the session that ran last (None when its logger never started)"""
        if self.reuse:
            d = os.path.join(self.root, "hs", "lg")
            return d if os.path.isdir(d) else None
        ds = [d for d in sorted(glob.glob(os.path.join(self.root, "hs", "lg_*"))) if d not in self.known]
        return ds[-1] if ds else None

    def disk(self, d, like):
        return {r: disk_files(d, r, self.sel, len(like[r])) for r in self.rules}

    def between(self, d, upper, lower):
        """`ret` as the specification has it (lower) when the disk lies between lower and upper, else the disk"""
        got = check_ret(d, self.rules, self.sel, upper, lower)
        return {r: (replay.norm(lower[r]) if got[r] == tuple(replay.norm(f) for f in upper[r]) else got[r]) for r in got}

    def old_check(self, expected):
        if not self.olddir:
            return {}
        now = self.disk(self.olddir, expected["old"])
        if all(same_files(now[r], self.oldseen[r]) for r in self.rules):
            return {"old": expected["old"]}
        return {"old": {r: tuple(now[r]) for r in now}}

    def step(self, name, args, expected):
        if name == "Crash":
            self.run()
            d = self.directory()
            self.upper = self.prev["ret"]
            out = {"crashed": True, "ret": self.between(d, self.prev["ret"], expected["ret"])}
            # the model goes on from the durable prefixes; if more survived (an extra flush is allowed) the next session
            # appends to something else than the model's files (a main file with only its header counts as the empty one)
            disk = self.disk(d, expected["ret"])
            for r in self.rules:
                for k, f in enumerate(expected["ret"][r]):
                    a, b = replay.norm(disk[r][k]), replay.norm(f)
                    if a != b and not (k == 0 and b == () and a == (replay.norm(LR.HDR),)):
                        self.detached = True
            out.update(self.old_check(expected))
            self.prev = expected
            return out
        if name == "NewSession":
            if self.pending:              # the logger stopped and the process ends: everything is closed
                self.run()
                self.upper = self.prev["ret"]
            d = self.directory()
            out = {}
            if self.reuse:
                if not self.detached:
                    out["ret"] = self.between(d, self.upper, expected["ret"])
            else:
                if d:
                    self.known.append(d)
                    self.olddir = d
                    self.oldseen = self.disk(d, expected["old"])
                    up = [replay.norm(f) for r in self.rules for f in self.upper[r]]
                    lo = [replay.norm(f) for r in self.rules for f in expected["old"][r]]
                    got = [replay.norm(f) for r in self.rules for f in self.oldseen[r]]
                    if not all(bounded(lo[k], up[k], got[k]) for k in range(len(up))):
                        out["old"] = {r: tuple(self.oldseen[r]) for r in self.rules}
            self.prev = expected
            self.pending = True
            return out
        if name == "End":
            if not self.pending or (self.nrun > 0 and not self.actions):
                return self.old_check(expected) if self.nrun else None
            self.run()
            out = {}
            if not (self.reuse and self.detached):
                low = durable(expected)
                got = self.between(self.directory(), expected["ret"], low)
                out["ret"] = {r: (expected["ret"][r] if got[r] == replay.norm(low[r]) else got[r]) for r in got}
            out.update(self.old_check(expected))
            return out
        if name.startswith("R"):
            name = name[1:]
        if name == "PushS":
            args = (expected["sq"][-1],)
        self.actions.append([name, list(args)])
        self.prev = expected
        return None

    def close(self):
        shutil.rmtree(self.root, ignore_errors=True)


def annotate(d):
    """say what the bounds were when the files on disk are not between them"""
    if d.kind == "state-mismatch" and str(d.where).startswith("ret") and d.steps:
        st = d.steps[-1]["state"]
        try:
            if d.action == "Crash":
                d.detail = ("after the death of the process the files must hold at least %r (flushed before) and at most what "
                            "was written; found %r" % (replay.norm(st["ret"]), replay.norm(d.actual["ret"])))
            else:
                d.detail = ("files on disk must hold at least the prefixes of lengths %r of %r and at most all of it; found %r"
                            % (replay.norm(st["dur"]), replay.norm(st["ret"]), replay.norm(d.actual["ret"])))
        except Exception:
            pass
    return d


def _mk_rot(init):
    LR.no_fsync()
    return RotAdapter(init)


def _mk_crash(init):
    return CrashAdapter(init)


# ------------------------------------------------------------------ the two open points: probe the implementation
def calibrate():
    """(RetryRefused, StopCycles) as the implementation under test behaves (documentation silent on both)"""
    LR.no_fsync()

    def copy1(w):
        ents = disk_files(w.logger.path, "always", "one", 2)
        return bool(ents[1])

    # a rotation is due at tick 2 but the file reaches the size only at tick 3: retried at once, or at tick 4?
    w = LR.LogWorld({"always"}, "one", 1, LR.new_root("c23cal"), keep=1, cycle=2, size=HSIZE + 4 * RSIZE, flush=120, reuse=True)
    try:
        w.slot()
        seen = None
        for t in (1, 2, 3, 4):
            w.tick()
            w.slot()
            if seen is None and copy1(w):
                seen = t
        retry = (seen == 3)
    finally:
        w.close()
    stops = {}
    for reuse in (False, True):
        w = LR.LogWorld({"always"}, "one", 1, LR.new_root("c23cal"), keep=1, cycle=4, size=0, flush=120, reuse=reuse)
        try:
            w.slot()
            w.bid("stop")
            w.tick()
            w.slot()
            stops[reuse] = copy1(w)
        finally:
            w.close()
    stop = "always" if stops[False] and stops[True] else "reuse" if stops[True] else "never"
    return retry, stop


# ------------------------------------------------------------------ configurations
def cfg_text(rulesets, maxtime, maxenv, keeps, cycles, sizes, flushes, reuses, retry, stop, crashes, restart=True, history=False,
             props=False, maxq=2, sessions=1):
    def s(x):
        return "{" + ", ".join(str(i) for i in x) + "}"
    t = LR.cfg_text(rulesets, ["one"], [1], maxtime, maxenv, maxq=maxq, restart=restart, serial=True, history=history)
    t = t.replace("SPECIFICATION Spec", "SPECIFICATION RSpec")
    t += ("  Keeps = %s\n  Cycles = %s\n  Sizes = %s\n  Flushes = %s\n  Reuses = %s\n  HSize = %d\n  RSize = %d\n"
          "  RetryRefused = %s\n  StopCycles = \"%s\"\n  Crashes = \"%s\"\n  Sessions = %d\n" % (
              s(keeps), s(cycles), s(sizes), s(flushes), s(str(b).upper() for b in reuses), HSIZE, RSIZE,
              str(retry).upper(), stop, crashes, sessions))
    if props:
        for p in ("TypeOK", "RTypeOK", "Contiguous", "NewestComplete", "HeaderFirst", "RotateOnlyAtSize", "DurableAfterCrash"):
            t += "INVARIANT %s\n" % p
        t += "PROPERTY RotateOnlyWhenDue\n"
    return t


RACTIONS = ["RPushS", "RBid", "RSlot", "RTick", "Crash"]


def guard_graph(g, what):
    """vacuity: rotations, refusals, flushes, unflushed data and dropped copies all occur in the behaviours replayed"""
    seen = set()
    for st in g.states.values():
        if st["rotated"] > 0:
            seen.add("rotated")
        if st["rotated"] > 1:
            seen.add("rotated twice in one stop")
        if st["refused"]:
            seen.add("refused")
        if st["flushed"]:
            seen.add("flushed")
        for r, fs in st["ret"].items():
            if st["dur"][r][0] < len(fs[0]):
                seen.add("unflushed")
            if len(fs) > 2 and fs[-1]:
                seen.add("oldest copy filled")
    need = {"rotated", "refused", "flushed", "unflushed", "oldest copy filled"}
    if need - seen:
        raise tlc.TlcError("vacuous graph (%s): never %s" % (what, ", ".join(sorted(need - seen))))


def run_c23(ctx):
    from concurrent.futures import ThreadPoolExecutor
    import warnings
    warnings.filterwarnings("ignore", message=".*multi-threaded.*fork.*")
    ctx.rule = ("A: complete state graph of LogRotate.tla for an `always` log over every rotation configuration (keep, cycle "
                "period, size threshold, flush interval, reuse; stop / restart), every edge replayed in process with the files "
                "on disk read unflushed after every step; -simulate behaviours for the `streak` log and both logs; behaviours "
                "ending in Crash executed in a child process killed with os._exit, files read by the parent; "
                "distinct = graph edges replayed + simulated behaviours (with and without crash)")
    ctx.assume("TLC, the TLA+ value parser, the log file parser and the skedder emulation are trusted; a file's content after "
               "os._exit stands for what survives the death of the process (power loss / fsync semantics are not exercised); "
               "os.fsync is a no-op inside ioflo.base.logging in the in-process replays and in 15 of 16 killed processes")
    LR.ioflo()
    laps = LR.Laps()
    retry, stop = calibrate()
    ctx.extra["calibrated"] = {"RetryRefused": retry, "StopCycles": stop}
    ncpu = env.NCPU
    A, S = {"always"}, {"streak"}
    full = dict(keeps=[0, 1, 2, 3], cycles=[0, 1, 2], sizes=[0, SMALL, LARGE], flushes=[2, 4], reuses=[False, True])
    mid = dict(keeps=[0, 1, 2], cycles=[0, 1, 2], sizes=[0, SMALL, LARGE], flushes=[2, 4], reuses=[False, True])
    small = dict(keeps=[0, 2], cycles=[0, 1], sizes=[0, SMALL], flushes=[2], reuses=[False, True])
    pol = dict(retry=retry, stop=stop)
    # model checking of the properties (history kept, the process may die anywhere)
    mcs = [("always", cfg_text([A], ctx.pick(4, 6), 1, crashes="any", history=True, props=True, **pol, **ctx.pick(mid, full))),
           ("streak", cfg_text([S], ctx.pick(3, 4), 2, crashes="any", history=True, props=True, **pol, **small)),
           ("sessions", cfg_text([A], ctx.pick(3, 4), 1, crashes="any", history=True, props=True, sessions=2, restart=False, **pol, **small))]
    # graphs to replay
    graphs = [("always", cfg_text([A], ctx.pick(5, 6), 1, crashes="never", restart=not ctx.quick, **pol, **ctx.pick(mid, full)))]
    if not ctx.quick:
        graphs.append(("streak", cfg_text([S], 3, 2, crashes="never", **pol, **small)))
        graphs.append(("always-crash", cfg_text([A], 5, 1, crashes="any", restart=False, **pol, **small)))
    nsim, ncr = ctx.pick(150, 2000), ctx.pick(120, 1000)
    pref = env.subdir("c23sim") + "/sim"
    prefc = env.subdir("c23simc") + "/sim"
    # two processes one after the other: the second starts after the first one's logger stopped / after it was killed
    scfg = cfg_text([A, S, A | S], ctx.pick(6, 8), 2, crashes="never", sessions=2, **pol, **full)
    ccfg = cfg_text([A, S, A | S], ctx.pick(6, 8), 2, crashes="point", sessions=2, **pol, **full)
    # idle logs: a `once` log writes at its first run and is then quiet through every later flush; alone and next to a busy log
    # (size thresholds 0 / never only: HSize is the header size of the `always` log, the `once` header is shorter)
    O = {"once"}
    idle = dict(keeps=[0, 1, 2], cycles=[0, 1, 2], sizes=[0, LARGE], flushes=[2, 4], reuses=[False, True])
    nidle = ctx.pick(80, 600)
    prefo = env.subdir("c23simo") + "/sim"
    # no environment steps (MaxEnv 0): nobody bids the logger to stop, so only the periodic flush makes the record durable
    ocfg = cfg_text([O, O | A], ctx.pick(6, 8), 0, crashes="point", sessions=1, **pol, **idle)
    total = covered = steps = ncrash = 0
    with ThreadPoolExecutor(max_workers=7) as tp:
        f_mc = [(n, tp.submit(tlc.run, "LogRotate", c, spec_dir=SPEC_DIR, deadlock=False, tag="c23mc" + n, workers=max(1, ncpu // 4), timeout=TLC_TIMEOUT))
                for n, c in mcs]
        dots = {n: env.subdir("c23") + "/%s.dot" % n for n, _ in graphs}
        f_g = [(n, tp.submit(tlc.run, "LogRotate", c, spec_dir=SPEC_DIR, deadlock=False, dump_dot=dots[n], tag="c23g" + n,
                             coverage=False, workers=max(1, ncpu // 4), timeout=TLC_TIMEOUT)) for n, c in graphs]
        f_sim = tp.submit(tlc.run, "LogRotate", scfg, spec_dir=SPEC_DIR, deadlock=False, workers=1,
                          simulate={"num": nsim, "depth": ctx.pick(150, 180), "file": pref}, seed=ctx.seed + 3, tag="c23sim", timeout=TLC_TIMEOUT)
        f_simc = tp.submit(tlc.run, "LogRotate", ccfg, spec_dir=SPEC_DIR, deadlock=False, workers=1,
                           simulate={"num": ncr, "depth": ctx.pick(150, 180), "file": prefc}, seed=ctx.seed + 4, tag="c23simc", timeout=TLC_TIMEOUT)
        f_simo = tp.submit(tlc.run, "LogRotate", ocfg, spec_dir=SPEC_DIR, deadlock=False, workers=1,
                           simulate={"num": nidle, "depth": ctx.pick(150, 180), "file": prefo}, seed=ctx.seed + 5, tag="c23simo", timeout=TLC_TIMEOUT)
        for n, f in f_g:
            res = f.result()
            laps.lap("graph-tlc")
            ctx.add_model(res, "LogRotate/graph-" + n)
            g = graph.load_dot(dots[n])
            os.unlink(dots[n])
            if n == "always":
                guard_graph(g, n)
            paths = graph.edge_cover(g, max_len=80)
            total += g.nedges
            covered += graph.covered_edges(paths)
            traces = replay.graph_paths_to_traces(g, paths)
            laps.lap("graph-cover")
            plain = [t for t in traces if t[-1][1][0] != "Crash"]
            crash = [t for t in traces if t[-1][1][0] == "Crash"]
            k, divs = LR.preplay("C23", plain, _mk_rot, post=annotate)
            steps += k
            ctx.diverge(divs)
            k, divs = LR.preplay("C23", crash, _mk_crash, post=annotate)
            steps += k
            ncrash += len(crash)
            ctx.diverge(divs)
            ctx.add_validated(len(traces), {"graph": n, "path": [s[0] for s in traces[len(traces) // 2]][:40]})
            laps.lap("graph-replay")
        res = f_sim.result()
        ctx.add_model(res, "LogRotate/simulate", {"num": nsim})
        res = f_simc.result()
        ctx.add_model(res, "LogRotate/simulate-crash", {"num": ncr})
        res = f_simo.result()
        ctx.add_model(res, "LogRotate/simulate-crash-idle", {"num": nidle})
        laps.lap("simulate-tlc")

        def load():
            a = replay.load_sim_traces(pref)
            b = replay.load_sim_traces(prefc) + replay.load_sim_traces(prefo)
            return (a + [t for t in b if not has(t, "Crash")],          # (a new session may begin before the crash point)
                    [t for t in b if has(t, "Crash")])

        def has(t, name):
            return any(s[1][0] == name for s in t)

        def kinds(sims, crash):
            """what the simulated behaviours exercise (vacuity guards: counts of behaviours, independent of speed)"""
            pre = [t[i - 1][2] for t in crash for i in range(1, len(t)) if t[i][1][0] == "Crash"]
            nobid = [t[i - 1][2] for t in crash for i in range(1, len(t)) if t[i][1][0] == "Crash" and not has(t[:i], "RBid")]
            return {"behaviours without crash": len(sims), "behaviours with crash": len(crash),
                    "second session rotating over reused files": sum(
                        1 for t in sims + crash if any(s[2]["session"] == 2 and s[2]["rotated"] > 0 and s[2]["rcfg"]["reuse"] for s in t[1:])),
                    "second session in a fresh directory": sum(
                        1 for t in sims + crash if any(s[2]["session"] == 2 and not s[2]["rcfg"]["reuse"] and s[2]["status"] != "stopped" for s in t[1:])),
                    "crash with unflushed data": sum(1 for st in pre if any(st["dur"][r][0] < len(st["ret"][r][0]) for r in st["ret"])),
                    "crash after a rotation": sum(1 for st in pre if any(len(f) > 0 for r in st["ret"] for f in st["ret"][r][1:])),
                    # the `once` record is durable at the crash and nobody ever bid the logger to stop: a periodic flush came after
                    # the run that wrote it, and the log was idle since
                    "crash with a flushed idle log": sum(1 for st in nobid if "once" in st["ret"] and any(
                        not e["h"] for e in st["ret"]["once"][0][:st["dur"]["once"][0]]))}

        want = {"behaviours without crash": nsim // 2, "behaviours with crash": ncr // 5, "second session rotating over reused files": 5,
                "second session in a fresh directory": 5, "crash with unflushed data": 5, "crash after a rotation": 5,
                "crash with a flushed idle log": 5}
        sims, crash = load()
        have = kinds(sims, crash)
        if any(have[k] < want[k] for k in want):
            # too few of some kind (an unlucky seed, or TLC wrote fewer files than asked): simulate once more, add to what there is
            for cfgx, px, sd, tg in ((scfg, pref + "b", ctx.seed + 1003, "c23simb"), (ccfg, prefc + "b", ctx.seed + 1004, "c23simcb"),
                                     (ocfg, prefo + "b", ctx.seed + 1005, "c23simob")):
                res = tlc.run("LogRotate", cfgx, spec_dir=SPEC_DIR, deadlock=False, workers=1, seed=sd, tag=tg, timeout=TLC_TIMEOUT,
                              simulate={"num": max(nsim, ncr), "depth": ctx.pick(150, 180), "file": px})
                ctx.add_model(res, "LogRotate/simulate-again")
            sims, crash = load()
            have = kinds(sims, crash)
            laps.lap("simulate-tlc")
        shutil.rmtree(os.path.dirname(pref), ignore_errors=True)
        shutil.rmtree(os.path.dirname(prefc), ignore_errors=True)
        shutil.rmtree(os.path.dirname(prefo), ignore_errors=True)
        short = {k: have[k] for k in want if have[k] < want[k]}
        if any(v == 0 for v in short.values()):
            raise tlc.TlcError("vacuous simulation (after a second attempt): %r" % have)
        if short:
            ctx.note("simulation yielded fewer behaviours of some kinds than intended (went on with them): %r" % short)
        second, fresh = have["second session rotating over reused files"], have["second session in a fresh directory"]
        lost, rot = have["crash with unflushed data"], have["crash after a rotation"]
        # every third behaviour in which a stopped logger is followed by a new session also runs as separate processes
        moved = [t for i, t in enumerate(t for t in sims if has(t, "NewSession")) if i % 3 == 0]
        sims = [t for t in sims if not any(t is m for m in moved)]
        crash = [t + [("End", ("End", ()), t[-1][2])] for t in crash + moved]
        k, divs = LR.preplay("C23", sims, _mk_rot, post=annotate)
        steps += k
        ctx.diverge(divs)
        ctx.add_validated(len(sims), {"simulated": [s[0] for s in sims[0]][:40]})
        laps.lap("simulate-replay")
        k, divs = LR.preplay("C23", crash, _mk_crash, post=annotate)
        steps += k
        ctx.diverge(divs)
        ctx.add_validated(len(crash), {"crash behaviour": [s[0] for s in crash[len(crash) // 2]][:40]})
        laps.lap("crash-replay")
        for n, f in f_mc:
            res = f.result()
            ctx.add_model(res, "LogRotate/history-" + n)
            if not res.ok:
                LR.model_error(ctx, "C23", res, "LogRotate/" + n)
            else:
                tlc.require_coverage(res, (RACTIONS if n == "streak" else [a for a in RACTIONS if a != "RPushS"])
                                     + (["NewSession"] if n == "sessions" else []), "LogRotate/" + n)
        laps.lap("model-wait")
    ctx.exhaustive = (covered == total)
    ctx.extra.update({"graph_edges": total, "edges_replayed": covered, "steps_replayed": steps, "simulated_behaviours": len(sims),
                      "crash_scenarios_in_child_processes": ncrash + len(crash), "crash_scenarios_with_unflushed_data": lost,
                      "crash_scenarios_after_rotation": rot, "second_sessions_rotating_over_reused_files": second,
                      "second_sessions_in_fresh_directory": fresh,
                      "crash_scenarios_with_flushed_idle_log": have["crash with a flushed idle log"], "phase_wall_s": laps.d,
                      "distinct_nontrivial": covered + len(sims) + len(crash), "evaluations": steps})


PROPERTIES = {"C23": run_c23}
