"""C32 - malformed HTTP input only affects its own connection (specs/http/Malformed.tla, MalformedTrace.tla).

TLC -simulate produces behaviours of Malformed.tla: three connections with scripts of well-formed requests (or one
client connection with responses), the bytes of one of them tampered with (structured breakage of start line / header /
chunk size / chunk terminator / length, byte flips, drops, insertions, junk, truncation), an arrival schedule in
pieces, peers hanging up, service passes.  Each behaviour's inputs are delivered to a real `Valet` holding three
connections over in-memory sockets (vf/doubles_http.py), or to a real `Patron`; what the harness sees after every
service pass is recorded and TLC decides (MalformedTrace.tla) whether the recorded execution is a behaviour of the
specification: never an exception out of the service loop, untampered connections served exactly as if alone,
a tampered connection either answered, waiting, or failed-and-closed.  In addition the bytes received by the
untampered connections are compared with a run of the same schedule without the tampered connection.
"""
import contextlib
import glob
import io
import json
import os
import re
import sys

from .. import doubles_http as D
from .. import env, replay, tlc, trace
from ..graph import parse_action
from ..replay import Divergence
from ..tlaval import parse_state
from .httpparse import to_bytes, to_syms

SPEC_DIR = env.SPECS + "/http"
os.environ.setdefault("MALFORMED_TABLE", "")
DATE = "Thu, 01 Jan 2026 00:00:00 GMT"

SIM_CFG = """SPECIFICATION Spec
CONSTANTS
  MaxMut = 2
  MaxPieces = 3
  MaxClose = 1
  KSet = {1, 2, 3, 5, 8, 13, 21, 34, 55}
  MaxPos = 70
  MaxDepth = 100
  Level = 2
  Kinds = {"%s"}
  PlanSet = %s
  MinMut = %d
INVARIANT NeverRaisesOutOfService
INVARIANT OthersUndisturbed
INVARIANT FailedMeansClosed
"""

TRACE_CFG = """SPECIFICATION TraceSpec
CONSTANTS
  MaxMut = 2
  MaxPieces = 1000
  MaxClose = 3
  KSet = {1}
  MaxPos = 1
  MaxDepth = 100
  Level = 2
  Kinds = {"server", "client"}
  PlanSet = {}
  MinMut = 0
CONSTRAINT TraceOK
INVARIANT NeverRaisesOutOfService
INVARIANT OthersUndisturbed
INVARIANT FailedMeansClosed
CHECK_DEADLOCK FALSE
"""

ACTIONS = ["Plan", "MutMsg", "MutNum", "MutTok", "MutFlip", "MutDrop", "MutInsert", "MutJunk", "MutTruncate", "Start", "Deliver", "PeerClose",
           "Service", "Settle"]
_STEP = re.compile(r"\\\* <(.*?) line \d+, col \d+ to line \d+, col \d+ of module \w+>\nSTATE_\d+ ==\s*\n(.*?)\n\n", re.S)


def load_behaviours(prefix):
    """simulated behaviours -> [{kind, script, wire (bytes per connection), mutated, muts, steps [(name, args)]}]"""
    out = []
    for fn in sorted(glob.glob(prefix + "*")):
        with open(fn) as f:
            txt = f.read()
        steps = []
        muts = []
        before = None
        prev_state = None
        sent = (0, 0, 0)
        b = None
        for m in _STEP.finditer(txt):
            name, args = parse_action(m.group(1).strip())
            if name == "Start":
                st = prev_state
                b = {"kind": st["kind"], "script": [list(s) for s in st["script"]],
                     "wire": [to_bytes(w) for w in st["wire"]], "mutated": list(st["mutated"]), "muts": muts, "steps": steps}
                prev_state = None
                continue
            if b is None:
                prev_state = parse_state(m.group(2))     # planning phase: keep the latest state (it holds the bytes)
                if name.startswith("Mut"):
                    muts.append("%s%r" % (name, tuple(args)))
                continue
            if name == "Deliver":
                ns = tuple(parse_state(m.group(2))["sent"])
                c = [i for i in range(3) if ns[i] != sent[i]][0]
                steps.append(("Deliver", (c + 1, ns[c] - sent[c])))
                sent = ns
            elif name in ("PeerClose", "Service", "Settle"):
                steps.append((name, tuple(args)))
        if b is not None:
            out.append(b)
    return out


def action_counts(prefix):
    counts = {}
    kinds = {}
    for fn in glob.glob(prefix + "*"):
        with open(fn) as f:
            for ln in f:
                if ln.startswith("\\* <"):
                    lab = ln[4:].split(" line ")[0]
                    name = lab.split("(")[0]
                    counts[name] = counts.get(name, 0) + 1
                    if name == "MutMsg":
                        k = lab.split('"')[1]
                        kinds[k] = kinds.get(k, 0) + 1
    return counts, kinds


def num_counts(prefix):
    """how often each numeric field was broken (MutNum(c, field, j))"""
    out = {}
    for fn in glob.glob(prefix + "*"):
        with open(fn) as f:
            for ln in f:
                if ln.startswith("\\* <MutNum("):
                    k = ln.split('"')[1]
                    out[k] = out.get(k, 0) + 1
    return out


# ---------------------------------------------------------------- the programs under test on in-memory sockets

def echo_app(environ, start_response):
    body = environ["wsgi.input"].read()
    out = b"M=" + environ["REQUEST_METHOD"].encode("iso-8859-1") + b" P=" + environ["PATH_INFO"].encode("iso-8859-1") + b" B=" + body
    start_response("200 OK", [("Content-Type", "text/plain"), ("Content-Length", str(len(out))), ("Date", DATE)])
    return [out]


def split_responses(data):
    """complete HTTP responses (head + Content-Length body) at the front of data -> [body bytes]"""
    out = []
    while True:
        i = data.find(b"\r\n\r\n")
        if i < 0:
            return out
        head = data[:i].decode("iso-8859-1").split("\r\n")
        n = None
        for ln in head[1:]:
            k, _, v = ln.partition(":")
            if k.strip().lower() == "content-length":
                try:
                    n = int(v.strip())
                except ValueError:
                    n = None
        if n is None or len(data) < i + 4 + n:
            return out
        out.append(data[i + 4:i + 4 + n])
        data = data[i + 4 + n:]


def lazy_echo_app(environ, start_response):
    """the same echo, produced the way Responder.start documents for asynchronous applications: the iterator first
    yields empty bytes ("not ready yet") and calls start_response only on a later pass"""
    body = environ["wsgi.input"].read()
    out = b"M=" + environ["REQUEST_METHOD"].encode("iso-8859-1") + b" P=" + environ["PATH_INFO"].encode("iso-8859-1") + b" B=" + body

    def gen():
        yield b""
        start_response("200 OK", [("Content-Type", "text/plain"), ("Content-Length", str(len(out))), ("Date", DATE)])
        yield out
    return gen()


@contextlib.contextmanager
def quiet():
    """the server reports parse errors on sys.stderr: keep them out of the check's output"""
    saved = sys.stderr
    sys.stderr = io.StringIO()
    try:
        yield
    finally:
        sys.stderr = saved


class ServerRun:
    """a real Valet with three connections"""

    def __init__(self, table, lazy=False):
        env.use_repo()
        from ioflo.aid.consoling import getConsole
        from ioflo.aio.http import serving
        from ioflo.base import storing
        getConsole().reinit(verbosity=0)
        self.net = D.Net()
        self.echo = {}
        for i, r in enumerate(table["reqs"]):
            self.echo[b"M=" + to_bytes(r["start"][0]) + b" P=" + to_bytes(r["start"][1]) + b" B=" + to_bytes(r["body"])] = i + 1
        with D.patched(self.net):
            self.valet = serving.Valet(port=8101, store=storing.Store(stamp=0.0), app=lazy_echo_app if lazy else echo_app)
            if not self.valet.open():
                raise RuntimeError("Valet did not open on the socket double")
            self.peers = [self.net.connect(("127.0.0.1", 8101)) for _ in range(3)]
            self.valet.serviceAll()
        if len(self.valet.servant.ixes) != 3:
            raise RuntimeError("the three connections were not accepted")
        self.cas = [p.addr for p in self.peers]

    def deliver(self, c, data):
        self.peers[c].send(data)

    def peer_close(self, c):
        self.peers[c].close()

    def service(self):
        reqs = {ca: self.valet.reqs.get(ca) for ca in self.cas}
        self.watch = getattr(self, "watch", {})
        for ca, r in reqs.items():
            if r is not None:
                self.watch[ca] = r
        with D.patched(self.net), quiet():
            self.valet.serviceAll()

    def snapshot(self):
        return tuple((len(p.rx), p.eof, ca in self.valet.servant.ixes) for p, ca in zip(self.peers, self.cas))

    def observe(self):
        out = []
        for p, ca in zip(self.peers, self.cas):
            is_open = ca in self.valet.servant.ixes and ca in self.valet.reqs and not p.eof
            r = getattr(self, "watch", {}).get(ca)
            failed = bool(r is not None and r.errored)
            resp = [{"id": self.echo.get(b, 0), "err": False} for b in split_responses(p.received())]
            out.append({"open": is_open, "failed": failed, "resp": resp})
        return out

    def received(self, c):
        return self.peers[c].received()


class ClientRun:
    """a real Patron whose server is the harness"""

    def __init__(self, table, nreq):
        env.use_repo()
        from ioflo.aid.consoling import getConsole
        from ioflo.aio.http import clienting
        from ioflo.base import storing
        getConsole().reinit(verbosity=0)
        self.net = D.Net()
        self.bodies = {to_bytes(r["body"]): i + 1 for i, r in enumerate(table["resps"])}
        self.listener = self.net.listen(("127.0.0.1", 8102))
        with D.patched(self.net):
            self.patron = clienting.Patron(hostname="127.0.0.1", port=8102, store=storing.Store(stamp=0.0), path="/")
            self.patron.open()
            for i in range(nreq):
                self.patron.request(method="GET", path="/r%d" % (i + 1))
            for _ in range(3):
                self.patron.serviceAll()
        self.srv, _ = self.listener.accept()
        if not self.srv.received().startswith(b"GET /r1 HTTP/1.1\r\n"):
            raise RuntimeError("the Patron did not send its first request over the socket double")

    def deliver(self, c, data):
        self.srv.send(data)

    def peer_close(self, c):
        self.srv.close()

    def service(self):
        with D.patched(self.net), quiet():
            self.patron.serviceAll()

    def snapshot(self):
        return (len(self.patron.responses), len(self.srv.rx), bool(self.patron.connector.cutoff), bool(self.patron.waited),
                len(self.patron.connector.rxbs))

    def observe(self):
        resp = []
        for r in self.patron.responses:
            ok = (not r["errored"]) and r["status"] == 200
            resp.append({"id": self.bodies.get(bytes(r["body"]), 0) if ok else 0, "err": bool(r["errored"])})
        me = {"open": not self.patron.connector.cutoff, "failed": False, "resp": resp}
        idle = {"open": True, "failed": False, "resp": []}
        return [me, idle, idle]

    def received(self, c):
        return b""


def execute(b, table, skip=None, lazy=False):
    """drive one behaviour's inputs into the real program; -> (events, exception or None, run)"""
    if b["kind"] == "server":
        run = ServerRun(table, lazy=lazy)
    else:
        run = ClientRun(table, len(b["script"][0]))
    evs = [{"ev": "Init", "kind": b["kind"], "script": b["script"], "wire": [list(to_syms(w)) for w in b["wire"]],
            "mutated": b["mutated"]}]
    sent = [0, 0, 0]
    steps = list(b["steps"]) + [("Settle", ())]
    for name, args in steps:
        try:
            if name == "Deliver":
                c, k = args[0] - 1, args[1]
                if c != skip:
                    run.deliver(c, b["wire"][c][sent[c]:sent[c] + k])
                sent[c] += k
                evs.append({"ev": "Deliver", "c": c + 1, "k": k})
            elif name == "PeerClose":
                c = args[0] - 1
                if c != skip:
                    run.peer_close(c)
                evs.append({"ev": "PeerClose", "c": c + 1})
            elif name == "Service":
                run.service()
                evs.append({"ev": "Service", "raised": False, "conns": run.observe()})
            elif name == "Settle":
                same = 0
                for _ in range(60):
                    before = run.snapshot()
                    run.service()
                    same = same + 1 if run.snapshot() == before else 0
                    if same >= 3:
                        break
                else:
                    evs.append({"ev": "Settle", "raised": False, "conns": run.observe(), "unsettled": True})
                    return evs, "nontermination", run
                evs.append({"ev": "Settle", "raised": False, "conns": run.observe()})
        except Exception as ex:   # nothing may leave the service loop
            evs.append({"ev": name, "raised": True, "conns": []})
            return evs, ex, run
    return evs, None, run


def _short(evs):
    out = []
    for e in evs:
        e = dict(e)
        if "wire" in e:
            e["wire"] = [repr(to_bytes(w)) for w in e["wire"]]
        out.append(e)
    return out


def run_c32(ctx):
    ctx.rule = ("behaviours of Malformed.tla drawn by TLC -simulate (scripts of well-formed requests on three connections / "
                "responses to a client; one connection tampered with by structured breakage, byte flips/drops/insertions, "
                "junk or truncation; arrival in pieces, hang-ups, service passes); each executed on a real Valet with three "
                "in-memory connections or a real Patron; recorded executions validated by TLC against MalformedTrace.tla; "
                "plus byte comparison of the untampered connections with a run without the tampered one; "
                "distinct = distinct (inputs, schedule) behaviours executed")
    work = env.subdir("c32")
    table_path = work + "/table.json"
    prefix = work + "/sim/b"
    os.makedirs(work + "/sim")
    nbeh = int(os.environ.get("VF_C32_N", 0)) or ctx.pick(600, 18000)
    workers = env.NCPU
    # three quarters of the behaviours exercise the server, one quarter the client (separate simulations: TLC draws
    # initial states uniformly and the server has far more of them); a further quarter as many behaviours per side
    # tamper only with numeric fields (Content-Length, chunk size, status, version x byte classes) or inject
    # format / escape metacharacters into the parts an error report echoes
    all_plans = '{"msg", "num", "tok", "flip", "drop", "insert", "junk", "truncate"}'
    runs = [("server", "s", all_plans, 0, 3 * nbeh // 4), ("client", "c", all_plans, 0, nbeh // 4),
            ("server", "n", '{"num", "tok"}', 1, nbeh // 3), ("client", "m", '{"num", "tok"}', 1, nbeh // 6)]
    for kd, tag, plans, minmut, n in runs:
        res = tlc.run("Malformed", SIM_CFG % (kd, plans, minmut), spec_dir=SPEC_DIR,
                      simulate={"num": max(1, n // workers), "depth": 26, "file": prefix + tag},
                      seed=ctx.seed + 1, deadlock=False, workers=workers, extra_env={"MALFORMED_TABLE": table_path},
                      tag="c32sim", timeout=40000)
        ctx.add_model(res, "Malformed-simulate/%s/%s" % (kd, "num" if minmut else "all"),
                      {"behaviours": n, "depth": 26, "MaxMut": 2, "MaxPieces": 3})
        if not res.ok:
            ctx.diverge(Divergence("C32", "model", res.error_name or res.error, "Malformed", "specification property violated in the model",
                                   steps=[{"action": a, "state": s} for a, s in res.trace]))
            return
    counts, kinds = action_counts(prefix)
    missing = [a for a in ACTIONS if not counts.get(a)]
    if missing or len(kinds) < (10 if nbeh >= 500 else 3):
        raise tlc.TlcError("vacuous simulation: actions never taken: %s; structured breakages seen: %s" % (missing, sorted(kinds)))
    nums = num_counts(prefix)
    if nbeh >= 500 and not all(nums.get(f) for f in ("length", "chunksize", "status", "version")):
        raise tlc.TlcError("vacuous simulation: numeric fields never broken: %r" % nums)
    for a, n in counts.items():
        ctx.actions.setdefault(a, [0, 0])[1] += n
    table = json.load(open(table_path))
    behs = load_behaviours(prefix)
    seen = set()
    trs = []
    nexec = nref = 0
    by_kind = {"server": 0, "client": 0}
    tampered = 0
    for b in behs:
        key = (b["kind"], tuple(b["wire"]), tuple(b["steps"]))
        if key in seen:
            continue
        seen.add(key)
        by_kind[b["kind"]] += 1
        tampered += any(b["mutated"])
        lazy = (by_kind["server"] % 2 == 0)      # every other server behaviour runs the asynchronous style application
        evs, ex, run = execute(b, table, lazy=lazy)
        nexec += 1
        if ex == "nontermination":
            ctx.diverge(Divergence("C32", "nontermination", "Settle", b["kind"], "service passes keep changing the connections after 60 passes",
                                   steps=_short(evs), extra={"muts": b["muts"]}))
            continue
        if ex is not None:
            ctx.diverge(Divergence("C32", "exception", evs[-1]["ev"], "%s:%s" % (b["kind"], replay.innermost_ioflo_frame(ex.__traceback__)),
                                   "%s: %s" % (type(ex).__name__, str(ex)[:160]), steps=_short(evs),
                                   extra={"muts": b["muts"], "wire": [repr(w) for w in b["wire"]], "lazy_app": lazy}))
            continue
        trs.append((b, evs))
        # the same schedule without the tampered connection: the others must receive the same bytes
        if b["kind"] == "server" and any(b["mutated"]):
            bad = b["mutated"].index(True)
            evs2, ex2, run2 = execute(b, table, skip=bad, lazy=lazy)
            nref += 1
            if ex2 is None:
                closed = {e["c"] - 1 for e in evs if e["ev"] == "PeerClose"}
                for c in range(3):
                    if c != bad and c not in closed and run.received(c) != run2.received(c):
                        ctx.diverge(Divergence("C32", "state-mismatch", "Settle", "server:others-bytes",
                                               "connection %d received different bytes than in a run without the tampered connection" % (c + 1),
                                               steps=_short(evs), expected=repr(run2.received(c)), actual=repr(run.received(c)),
                                               extra={"muts": b["muts"]}))
    out = trace.validate("MalformedTrace", TRACE_CFG, SPEC_DIR, [e for _, e in trs], batch=ctx.pick(300, 600), timeout=40000)
    ctx.states += out.states
    ctx.transitions += out.generated
    if trs:
        b0, e0 = trs[len(trs) // 2]
        ctx.add_validated(len(out.accepted), {"kind": b0["kind"], "tampering": b0["muts"], "wire": [repr(w) for w in b0["wire"]],
                                              "events": [e["ev"] + (str((e.get("c"), e.get("k"))) if e["ev"] == "Deliver" else "") for e in e0[1:14]]})
    for i, pref in sorted(out.rejected.items())[:12]:
        b, evs = trs[i]
        ev = evs[pref] if 0 <= pref < len(evs) else {}
        seen_c = [(j + 1, c) for j, c in enumerate(ev.get("conns", []))]
        ctx.diverge(Divergence("C32", "rejected", ev.get("ev", "?"), "%s:trace" % b["kind"],
                               "recorded execution is not a behaviour of Malformed.tla at event %d: mutated=%s seen=%s" % (
                                   pref + 1, b["mutated"], json.dumps(seen_c)[:300]),
                               steps=_short(evs[:pref + 1]), extra={"muts": b["muts"], "wire": [repr(w) for w in b["wire"]]}))
    for (i, err, name, tr) in out.model_errors[:5]:
        ctx.diverge(Divergence("C32", "rejected", name or err, "trace-invariant", "invariant %s violated on a recorded execution" % name,
                               steps=_short(trs[i][1]), extra={"muts": trs[i][0]["muts"]}))
    ctx.exhaustive = False
    ctx.extra.update({"behaviours_simulated": len(behs), "behaviours_executed": nexec, "reference_runs": nref,
                      "server_behaviours": by_kind["server"], "client_behaviours": by_kind["client"], "tampered": tampered,
                      "structured_breakages": kinds, "numeric_breakages": nums, "traces_accepted": len(out.accepted),
                      "distinct_nontrivial": nexec, "evaluations": sum(len(e) for _, e in trs)})


PROPERTIES = {"C32": run_c32}
