"""C37 - a stack's remote indexes stay mutually consistent (specs/proto/Remotes.tla, RemotesTrace.tla).

A. TLC checks the consistency invariants on the complete state graph of the model and dumps it; every edge is
   replayed on a real ioflo.aio.proto.stacking.RemoteStack (projection: the three index odicts as (key, object identity)
   sequences, the member objects' own uid/name/ha, the uid counter, the result / exception type).
B. Seeded random long operation sequences over a larger universe (members, re-added members, stale removed objects,
   twins, strangers, automatic uids) are executed on the real stack, logged, and validated by TLC against RemotesTrace.tla.
"""
import random
from concurrent.futures import ThreadPoolExecutor

from .. import env, graph, replay, tlc, trace
from ..replay import Divergence

SPEC_DIR = env.SPECS + "/proto"
PROPS = ["SameMembers", "SameOrder", "KeysCurrent", "NoLocalCollision"]
APROPS = ["RejectedUnchanged", "PositionKept", "AddLastRemoveStable", "AutoUidFresh"]


def _set(xs):
    return "{" + ", ".join(('"%s"' % x) if isinstance(x, str) else str(x) for x in xs) + "}"


def cfg_text(uids, names, has, maxrem, maxpuid, auto, props=True, spec="Spec"):
    s = ("SPECIFICATION %s\nCONSTANTS\n  Uids = %s\n  Names = %s\n  Has = %s\n  LocalUid = %s\n  LocalName = \"%s\"\n"
         "  LocalHa = \"%s\"\n  MaxRemotes = %d\n  MaxPuid = %d\n  AutoUid = %s\n"
         % (spec, _set(uids), _set(names), _set(has), uids[0], names[0], has[0], maxrem, maxpuid, "TRUE" if auto else "FALSE"))
    if spec == "Spec":
        s += "CONSTRAINT Bound\n"
    if props:
        s += "".join("INVARIANT %s\n" % p for p in PROPS) + "".join("PROPERTY %s\n" % p for p in APROPS)
    return s


class Conc:
    """Concretisation of the model's abstract keys.  The model only needs keys to be equal or different; the real
    stacks use names and addresses with structure: path-like strings that contain one another (uxd addresses, dotted
    names) and (host, port) duples (every IP stack).  An equality test written as containment behaves differently on
    exactly those, so every replay / history runs under one of these concretisations; keys the map does not know
    (the model's fresh keys) stand for themselves."""

    def __init__(self, label, names, has, name_vals, ha_vals):
        self.label = label
        self.enc_map = [{}, dict(zip(names, name_vals)), dict(zip(has, ha_vals))]
        self.dec_map = [{}, {v: k for k, v in self.enc_map[1].items()}, {v: k for k, v in self.enc_map[2].items()}]
        assert all(len(self.enc_map[i]) == len(self.dec_map[i]) for i in (1, 2))
        if "fh" not in self.enc_map[2] and any(isinstance(v, tuple) for v in ha_vals):
            self.enc_map[2]["fh"] = ("198.51.100.9", 9)
            self.dec_map[2][("198.51.100.9", 9)] = "fh"

    def enc(self, dim, k):
        return self.enc_map[dim].get(k, k)

    def dec(self, dim, v):
        try:
            return self.dec_map[dim].get(v, v if not self.dec_map[dim] or v in ("fn", "fh") else ("?", repr(v)))
        except TypeError:
            return ("?", repr(v))


NESTED_NAMES = ["stack.alpha.main", "stack.alpha", "alpha", "main", "stack", "a", "beta"]
NESTED_HAS = ["/tmp/uxd/main", "/tmp/uxd", "/tmp", "uxd", "main", "/tmp/uxd/main/x", "/var/run"]
DUPLE_HAS = [("127.0.0.1", 7000), ("127.0.0.1", 7001), ("127.0.0.2", 7000), ("localhost", 7000), ("::1", 7000),
             ("127.0.0.1", 700), ("10.0.0.1", 7001)]


def concretisations(names, has):
    """local key first in each list: every other value of the nested lists is contained in, or contains, the local one"""
    return [Conc("nested-strings", names, has, NESTED_NAMES[:len(names)], NESTED_HAS[:len(has)]),
            Conc("ip-duples", names, has, NESTED_NAMES[:len(names)], DUPLE_HAS[:len(has)])]


IDENT = Conc("atomic", [], [], [], [])


class StackAdapter:
    """drives one real RemoteStack; objects are known to the harness by the model's identities; keys go in and come
    out in the model's abstract form, the stack sees their concretisation"""

    def __init__(self, local, puid, conc=IDENT):
        env.use_repo()
        from ioflo.aio.proto import stacking, devicing
        self.devicing = devicing
        self.local = local
        self.conc = conc
        self.stack = stacking.RemoteStack(uid=local[0], name=conc.enc(1, local[1]), ha=conc.enc(2, local[2]), puid=puid)
        self.objs = {}          # identity -> member object

    # -- projection
    def ident(self, obj):
        for i, o in self.objs.items():
            if o is obj:
                return i
        return 0                # an object the harness never saw added

    def attrs(self, o):
        return (o.uid, self.conc.dec(1, o.name), self.conc.dec(2, o.ha))

    def project(self, res=None):
        st = self.stack
        assert st.remotes is st.uidRemotes
        c = self.conc
        out = {"uidIx": tuple((k, self.ident(o)) for k, o in st.uidRemotes.items()),
               "nameIx": tuple((c.dec(1, k), self.ident(o)) for k, o in st.nameRemotes.items()),
               "haIx": tuple((c.dec(2, k), self.ident(o)) for k, o in st.haRemotes.items()),
               "attr": {i: self.attrs(o) for i, o in self.objs.items()},
               "puid": st.puid}
        # the local device is untouched by operations on remotes
        assert (st.local.uid, c.dec(1, st.local.name), c.dec(2, st.local.ha)) == tuple(self.local)
        if res is not None:
            out["res"] = res
        return out

    def free_id(self):
        i = 1
        while i in self.objs:
            i += 1
        return i

    # -- operations
    def _guard(self, obj, fn, *a, same=False):
        """run a stack operation on obj; ValueError is the documented rejection"""
        before = self.attrs(obj)
        try:
            fn(obj, *a)
        except ValueError:
            if same:
                return {"t": "noop"}
            return {"t": "err", "e": "ValueError", "intact": self.attrs(obj) == before}
        return {"t": "noop"} if same else {"t": "ok"}

    def foreign(self, u, n, h):
        return self.devicing.RemoteDevice(stack=self.stack, uid=u, name=self.conc.enc(1, n), ha=self.conc.enc(2, h))

    def add_obj(self, obj):
        i = self.free_id()
        r = self._guard(obj, self.stack.addRemote)
        if r["t"] == "ok":
            self.objs[i] = obj
        return r

    def call(self, name, args, obj=None):
        st = self.stack
        if name == "Add":
            return self.add_obj(obj if obj is not None else self.foreign(*args))
        if name == "AddAuto":
            return self.add_obj(self.devicing.RemoteDevice(stack=st, name=self.conc.enc(1, args[0]), ha=self.conc.enc(2, args[1])))
        if name == "AddAgain":
            return self._guard(self.objs[args[0]], st.addRemote)
        if name in ("Move", "Rename", "Reha"):
            o = self.objs[args[0]]
            fn = {"Move": st.moveRemote, "Rename": st.renameRemote, "Reha": st.rehaRemote}[name]
            dim = ("Move", "Rename", "Reha").index(name)
            cur = self.attrs(o)[dim]
            return self._guard(o, fn, self.conc.enc(dim, args[1]), same=(args[1] == cur))
        if name == "Remove":
            r = self._guard(self.objs[args[0]], st.removeRemote)
            if r["t"] == "ok":
                del self.objs[args[0]]
            return r
        if name == "RemoveAll":
            st.removeAllRemotes()
            self.objs.clear()
            return {"t": "ok"}
        if name in ("MoveF", "RenameF", "RehaF"):
            o = obj if obj is not None else self.foreign(*args[:3])
            fn = {"MoveF": st.moveRemote, "RenameF": st.renameRemote, "RehaF": st.rehaRemote}[name]
            dim = ("MoveF", "RenameF", "RehaF").index(name)
            cur = self.attrs(o)[dim]
            return self._guard(o, fn, self.conc.enc(dim, args[3]), same=(args[3] == cur))
        if name == "RemoveF":
            o = obj if obj is not None else self.foreign(*args[:3])
            return self._guard(o, st.removeRemote)
        if name in ("MoveT", "RenameT", "RehaT", "RemoveT"):
            # the model's Twin(dim, k): a copy of the member holding key k in that dimension, else a stranger with k
            dim, k = (args[0], args[1]) if name == "RemoveT" else (("MoveT", "RenameT", "RehaT").index(name) + 1, args[0])
            ix = (st.uidRemotes, st.nameRemotes, st.haRemotes)[dim - 1]
            if self.conc.enc(dim - 1, k) in ix:
                keys = self.attrs(ix[self.conc.enc(dim - 1, k)])
            else:
                keys = [0, "fn", "fh"]
                keys[dim - 1] = k
            if name == "RemoveT":
                return self.call("RemoveF", tuple(keys))
            return self.call(name[:-1] + "F", tuple(keys) + (args[1],))
        raise NotImplementedError(name)

    def step(self, name, args, expected):
        return self.project(self.call(name, args))


# ---------------------------------------------------------------- binding B
def _random_trace(rng, uids, names, has, n, conc=IDENT):
    local = (uids[0], names[0], has[0])
    ad = StackAdapter(local, local[0], conc)
    evs = [{"ev": "Init", "puid": local[0], "conc": conc.label}]
    stale = []          # objects outside the stack: removed members, rejected additions

    def log(name, argd, res):
        p = ad.project()
        e = {"ev": name, "res": res}
        e.update(argd)
        e.update({"uidIx": [list(x) for x in p["uidIx"]], "nameIx": [list(x) for x in p["nameIx"]],
                  "haIx": [list(x) for x in p["haIx"]], "puid": p["puid"],
                  "attr": [[i, list(a)] for i, a in sorted(p["attr"].items())]})
        evs.append(e)

    for _ in range(n):
        try:
            _random_step(rng, ad, uids, names, has, stale, log)
        except Exception as ex:      # not a documented rejection: the history ends here and is reported
            evs.append({"ev": "EXCEPTION", "op": _random_step.last, "where": replay.innermost_ioflo_frame(ex.__traceback__),
                        "detail": "%s: %s" % (type(ex).__name__, str(ex)[:200])})
            break
    return evs


def conc_of(ad):
    return ad.conc


def _random_step(rng, ad, uids, names, has, stale, log):
    if True:
        c = rng.random()
        members = sorted(ad.objs)
        _random_step.last = "Add"
        if c < 0.22 or not members:
            u, nm, h = rng.choice(uids), rng.choice(names), rng.choice(has)
            if rng.random() < 0.25:
                if ad.stack.puid >= uids[-1] + 40:
                    return
                o = ad.devicing.RemoteDevice(stack=ad.stack, name=conc_of(ad).enc(1, nm), ha=conc_of(ad).enc(2, h))
                r = ad.add_obj(o)
                log("AddAuto", {"n": nm, "h": h}, r)
            elif stale and rng.random() < 0.3:
                o = rng.choice(stale)
                u, nm, h = ad.attrs(o)
                r = ad.add_obj(o)
                log("Add", {"u": u, "n": nm, "h": h}, r)
                if r["t"] == "ok":
                    stale.remove(o)
                return
            else:
                o = ad.foreign(u, nm, h)
                r = ad.add_obj(o)
                log("Add", {"u": u, "n": nm, "h": h}, r)
            if r["t"] != "ok":
                stale.append(o)
                del stale[:-6]
        elif c < 0.27:
            i = rng.choice(members)
            _random_step.last = "AddAgain"
            log("AddAgain", {"id": i}, ad.call("AddAgain", (i,)))
        elif c < 0.60:
            i = rng.choice(members)
            op = rng.choice(["Move", "Rename", "Reha"])
            new = rng.choice({"Move": uids, "Rename": names, "Reha": has}[op])
            _random_step.last = op
            log(op, {"id": i, "new": new}, ad.call(op, (i, new)))
        elif c < 0.72:
            i = rng.choice(members)
            o = ad.objs[i]
            _random_step.last = "Remove"
            r = ad.call("Remove", (i,))
            log("Remove", {"id": i}, r)
            if r["t"] == "ok":
                stale.append(o)
                del stale[:-6]
        elif c < 0.74:
            stale.extend(ad.objs.values())
            del stale[:-6]
            _random_step.last = "RemoveAll"
            log("RemoveAll", {}, ad.call("RemoveAll", ()))
        else:
            # a foreign object: stale, a twin of a member, or a stranger with arbitrary keys
            k = rng.random()
            if stale and k < 0.4:
                o = rng.choice(stale)
            elif members and k < 0.7:
                o = ad.foreign(*ad.attrs(ad.objs[rng.choice(members)]))
            else:
                o = ad.foreign(rng.choice(uids), rng.choice(names), rng.choice(has))
            u, nm, h = ad.attrs(o)
            op = rng.choice(["MoveF", "RenameF", "RehaF", "RemoveF"])
            _random_step.last = op
            if op == "RemoveF":
                log(op, {"u": u, "n": nm, "h": h}, ad.call(op, (u, nm, h), obj=o))
            else:
                new = rng.choice({"MoveF": uids, "RenameF": names, "RehaF": has}[op])
                log(op, {"u": u, "n": nm, "h": h, "new": new}, ad.call(op, (u, nm, h, new), obj=o))


def run_c37(ctx):
    ctx.rule = ("A: complete state graph of Remotes.tla (local keys + 3 usable uids x names x addresses; members, re-adds, "
                "twins and strangers; a second graph with automatically assigned uids), every edge replayed on a real "
                "RemoteStack with the abstract keys concretised as nested path-like strings / (host, port) duples; B: seeded random "
                "long operation sequences (same concretisations, alternating) on the real stack validated by TLC against "
                "RemotesTrace.tla; distinct = graph edges + accepted traces")
    ctx.assume("TLC, the TLA+ value parser and the adapter in vf/families/remotes.py (object identities, projection of the "
               "three odicts) are trusted")
    uids, names, has = [1, 2, 3, 4], ["a", "b", "c", "d"], ["w", "x", "y", "z"]
    graphs = [
        ("explicit", uids, names, has, ctx.pick(2, 3), 1, False),
        ("autouid", uids, names[:3], has[:3], 2, ctx.pick(3, 4), True),
    ]
    total = cov = 0

    def model(gr):
        (label, U, N, H, maxrem, maxpuid, auto) = gr
        dot = env.subdir("c37") + "/%s.dot" % label
        return dot, tlc.run("Remotes", cfg_text(U, N, H, maxrem, maxpuid, auto), spec_dir=SPEC_DIR, dump_dot=dot,
                            tag="c37" + label, workers=max(1, env.NCPU // 2))

    with ThreadPoolExecutor(max_workers=2) as ex:
        ran = list(ex.map(model, graphs))
    for (label, U, N, H, maxrem, maxpuid, auto), (dot, res) in zip(graphs, ran):
        ctx.add_model(res, "Remotes/" + label, {"Uids": U, "Names": N, "Has": H, "MaxRemotes": maxrem, "AutoUid": auto})
        if not res.ok:
            ctx.diverge(Divergence("C37", "model", res.error_name or res.error, "Remotes/" + label,
                                   "specification property violated in the model",
                                   steps=[{"action": a, "state": s} for a, s in res.trace]))
            continue
        need = ["Add", "AddAgain", "Move", "Rename", "Reha", "Remove", "RemoveAll", "MoveT", "RenameT", "RehaT", "RemoveT"]
        tlc.require_coverage(res, need + (["AddAuto"] if auto else []), "Remotes/" + label)
        g = graph.load_dot(dot)
        # vacuity: the graph must contain accepted, rejected and same-key outcomes of the in-place operations
        kinds = {(act[0], g.states[v]["res"]["t"]) for u, es in g.out.items() for (lab, act, v) in es}
        for op in ("Move", "Rename", "Reha"):
            for t in ("ok", "err", "noop"):
                if (op, t) not in kinds:
                    raise tlc.TlcError("vacuous graph %s: no %s step with outcome %s" % (label, op, t))
        paths = graph.edge_cover(g, max_len=120)
        traces = replay.graph_paths_to_traces(g, paths)
        local = (U[0], N[0], H[0])
        # every edge under a concretisation of the keys: quick = one per graph (nested strings on the explicit graph,
        # (host, port) duples on the automatic-uid graph), thorough = both on both
        concs = concretisations(N, H)
        if ctx.quick:
            concs = [concs[1 if auto else 0]]
        n = 0
        for ci, conc in enumerate(concs):
            # (thorough, large graph: the second concretisation replays every other path to stay within the budget)
            sub = traces[::2] if (ci == 1 and not auto and len(traces) > 5000) else traces
            k, divs = replay.replay("C37", sub, lambda init, local=local, conc=conc: StackAdapter(local, init["puid"], conc))
            n += k
            for d in divs:
                d.extra["graph"] = label
                d.extra["keys"] = conc.label
                d.where = "%s:%s" % (conc.label, d.where)
            ctx.diverge(divs)
        ctx.extra.setdefault("concretisations", {})[label] = [c.label for c in concs]
        total += g.nedges
        cov += graph.covered_edges(paths)
        ctx.add_validated(len(traces), {"graph": label, "path": [s[0] for s in traces[len(traces) // 2]][:25]})
        ctx.extra["replay_steps_" + label] = n
    # binding B
    rng = random.Random(ctx.seed)
    ntr = ctx.pick(150, 1500)
    U = list(range(1, 8))
    N = ["n%d" % i for i in range(1, 8)]
    H = ["h%d" % i for i in range(1, 8)]
    concs = concretisations(N, H)
    trs = [_random_trace(rng, U, N, H, rng.randint(60, 200), concs[i % 2]) for i in range(ntr)]
    broken = [t for t in trs if t[-1]["ev"] == "EXCEPTION"]
    for t in broken[:10]:
        e = t[-1]
        ctx.diverge(Divergence("C37", "exception", e["op"], e["where"], e["detail"], steps=t))
    trs = [t for t in trs if t[-1]["ev"] != "EXCEPTION"]
    cfg = cfg_text(U, N, H, 60, 1000, True, spec="TraceSpec") + "CONSTRAINT TraceOK\nCHECK_DEADLOCK FALSE\n"
    out = trace.validate("RemotesTrace", cfg, SPEC_DIR, trs, batch=ctx.pick(75, 125))
    ctx.states += out.states
    ctx.transitions += out.generated
    ctx.add_validated(len(out.accepted), {"trace": [{k: e[k] for k in e if k in ("ev", "id", "u", "n", "h", "new", "res")}
                                                   for e in trs[0][:12]]})
    nev = sum(len(t) - 1 for t in trs)
    outcomes = {}
    for t in trs:
        for e in t[1:]:
            k = (e["ev"], e["res"]["t"])
            outcomes[k] = outcomes.get(k, 0) + 1
    for op in ("Add", "AddAuto", "Move", "Rename", "Reha", "Remove"):
        if (op, "ok") not in outcomes and not ctx.divs:
            raise tlc.TlcError("vacuous random histories: no successful %s" % op)
    for op in ("Add", "Move", "Rename", "Reha", "MoveF", "RenameF", "RehaF", "RemoveF", "AddAgain"):
        if (op, "err") not in outcomes and not ctx.divs:
            raise tlc.TlcError("vacuous random histories: no rejected %s" % op)
    for i, pref in sorted(out.rejected.items())[:10]:
        ev = trs[i][pref] if 0 <= pref < len(trs[i]) else {}
        ctx.diverge(Divergence("C37", "rejected", ev.get("ev", "?"), "trace",
                               "recorded history is not a behaviour of Remotes.tla at event %d: %s res=%r" % (
                                   pref + 1, {k: ev.get(k) for k in ("id", "u", "n", "h", "new") if k in ev}, ev.get("res")),
                               steps=trs[i][:pref + 1]))
    for (i, err, name, tr) in out.model_errors[:5]:
        ctx.diverge(Divergence("C37", "rejected", name or err, "trace-invariant",
                               "invariant %s violated on a recorded history" % name, steps=trs[i]))
    ctx.exhaustive = (cov == total and total > 0)
    ctx.extra.update({"graph_edges": total, "edges_replayed": cov, "random_traces": ntr, "random_traces_accepted": len(out.accepted),
                      "random_events": nev, "random_outcomes": {"%s/%s" % k: v for k, v in sorted(outcomes.items())},
                      "distinct_nontrivial": cov + len(out.accepted), "evaluations": cov + nev})


PROPERTIES = {"C37": run_c37}
