"""X-skedreal - the Skedder outside what C02 covers, and the generic tasker protocol (extra check).

Three specifications under specs/sked/, bound to the code in three ways:

  a. SkedReal.tla (+ SkedRealTrace.tla): pacing of Skedder.run against the wall clock.  The wall clock is an environment
     of the model (how long a tick's work takes, how long a sleep really lasts, clock set back, cntl-c while sleeping).
     Binding A: every edge of the complete TLC graph is replayed on the unmodified Skedder.run() under scripted doubles
     for time.time / time.monotonic / time.sleep (installed from outside into ioflo.aid.timing, ioflo.base.skedding and
     ioflo.base.storing).  Binding B: seeded random long runs of the real Skedder are logged and validated by TLC.
  b. TaskerProto.tla: control x status -> status / desire / done / hooks called, for the taskers that are not framers.
     Binding A with an on-line walk (the specification leaves open what the documentation leaves open) over the complete
     graph on a plain tasking.Tasker, a serving.Server (socket double) and a logging.Logger (real files in scratch).
  c. HouseOrder.tla: which taskers a house schedules, and in which order, as a function of the declarations
     (verb x `be` clause x `in` clause).  Binding C: TLC checks the algebra of the function and emits the table; every
     row is built with the real Builder from FloScript text and run through Skedder.run() with recording runners.
"""
import json
import os
import random
from fractions import Fraction

from .. import env, graph, replay, tlc, trace
from ..replay import Divergence
from . import _walk

PROP = "X-skedreal"
SPEC_DIR = env.SPECS + "/sked"

# ============================================================================================================
# part a: real-time pacing
# ============================================================================================================

QUANTUM = Fraction(1, 64)          # seconds per model quantum: binary exact
EPOCH = 1700000000.0               # the wall clock of a run starts here (epoch-like, exactly representable)
WALL0 = 100                        # SkedReal!Wall0


class _EndOfScript(BaseException):
    """raised inside Skedder.run by the doubles when the scripted environment has nothing more to offer;
    not an Exception, so the skedder's own handlers do not see it (only its finally clause runs)"""


class FakeTimeModule:
    """stands in for the `time` module inside ioflo.aid.timing, ioflo.base.skedding and ioflo.base.storing"""

    def __init__(self, player):
        self._p = player

    def time(self):
        return self._p.now

    def monotonic(self):
        return self._p.now

    def perf_counter(self):
        return self._p.now

    def sleep(self, secs):
        self._p.on_sleep(secs)

    def __getattr__(self, name):      # anything else (strftime ...) comes from the real module
        import time as _t
        return getattr(_t, name)


def _q(x):
    """seconds -> quanta, exact or a sentinel no specification value equals"""
    try:
        f = Fraction(x) / QUANTUM
    except (TypeError, ValueError):
        return "<%r>" % (x,)
    return int(f) if f.denominator == 1 else "<off-grid %r>" % (x,)


class Player:
    """plays the environment of one run of the real Skedder and records what the skedder does.

    script: [(name, args)] with Work(d, more), Sleep(a), SleepIntr, Tick.  The skedder is run in lock step with the
    script: the events it produces (a tick's work being started, a sleep being asked for, the stores being stamped)
    must be of the kind the script has next; otherwise the run is cut and the event is recorded as it was, for the
    comparison to report.  With policy = callable(kind, player, req) instead of a script the environment is drawn
    on the fly (binding B) and remembered in the events.
    """

    def __init__(self, mode, period, uper, script=None, policy=None):
        self.mode = mode
        self.period = period
        self.uper = uper
        self.script = list(script) if script is not None else None
        self.policy = policy
        self.ptr = 0
        self.now = EPOCH
        self.events = []           # [(name, observation dict)]
        self.stamps = []           # pending changeStamp calls of the current boundary
        self.u_sends = []
        self.aborts = []
        self.cut = None            # why the run was cut (script exhausted / unexpected event)
        self.started = False
        self.nstores = 2

    # ---- helpers
    def wall(self):
        w = _q(self.now - EPOCH)
        return w + WALL0 if isinstance(w, int) else w

    def _next(self, kind, req=None):
        """the environment's next choice, if the script continues with an item of this kind"""
        if self.script is None:
            return self.policy(kind, self, req)
        if self.ptr >= len(self.script):
            self.cut = "script exhausted"
            raise _EndOfScript()
        name, args = self.script[self.ptr]
        if name != kind and not (kind == "Sleep" and name == "SleepIntr"):
            self.cut = "unexpected %s (the specification's behaviour continues with %s)" % (kind, name)
            return None
        self.ptr += 1
        return name, args

    def flush_ranu(self):
        for name, ob in reversed(self.events):
            if name == "Work":
                if "ranu" not in ob:
                    ob["ranu"] = bool(self.u_sends)
                break
        self.u_sends = []

    # ---- called by the doubles
    def on_work(self, tasker, control):
        """the env tasker is run by the skedder in tick k: the tick's work"""
        self.flush_ranu()
        item = self._next("Work")
        if item is None:
            self.events.append(("Work", {"wall": self.wall()}))
            raise _EndOfScript()
        d, more = item[1]
        self.now += float(d * QUANTUM)
        ob = {"wall": self.wall(), "stamp": _q(tasker.store.stamp), "req": 0, "d": d, "more": bool(more)}
        self.events.append(("Work", ob))
        return more

    def on_sleep(self, secs):
        self.flush_ranu()
        ob = {"req": _q(secs)}
        item = self._next("Sleep", ob["req"])
        if item is None:
            ob["wall"] = self.wall()
            self.events.append(("Sleep", ob))
            raise _EndOfScript()
        name, args = item
        if name == "SleepIntr":
            ob["wall"] = self.wall()
            self.events.append(("SleepIntr", ob))
            raise KeyboardInterrupt()
        self.now += float(args[0] * QUANTUM)
        ob["wall"] = self.wall()
        ob["a"] = args[0]
        self.events.append(("Sleep", ob))

    def on_stamp(self, store, stamp):
        """Store.changeStamp returned: one Tick once every store of the skedder has been stamped"""
        self.stamps.append((store.name, _q(stamp), _q(store.fetch(".time").value),
                            _q(store.fetch(".realtime").value - EPOCH)))
        if len(self.stamps) < self.nstores:
            return
        group, self.stamps = self.stamps, []
        names = sorted(n for n, _, _, _ in group)
        vals = {s for _, s, _, _ in group}
        times = {t for _, _, t, _ in group}
        rts = {r for _, _, _, r in group}
        ob = {"stores": names, "stamp": vals.pop() if len(vals) == 1 else "<differ %r>" % sorted(map(str, vals)),
              "time_share": times.pop() if len(times) == 1 else "<differ>",
              "rt": rts.pop() if len(rts) == 1 else "<differ>"}
        if isinstance(ob["rt"], int):
            ob["rt"] += WALL0
        if not self.started:
            self.started = True
            self.events.append(("Init", ob))
            return
        self.flush_ranu()
        item = self._next("Tick")
        ob["wall"] = self.wall()
        ob["req"] = 0
        self.events.append(("Tick", ob))
        if item is None:
            raise _EndOfScript()


def _make_run(mode, period, uper, script=None, policy=None):
    """build two houses by hand (the documented constructor parameters of Skedder), run the real Skedder.run()"""
    env.use_repo()
    from ioflo.aid import consoling, timing
    consoling.getConsole().reinit(verbosity=0)
    from ioflo.base import excepting, housing, skedding, storing, tasking
    from ioflo.base import globaling as G

    player = Player(mode, period, uper, script, policy)

    class EnvTasker(tasking.Tasker):
        """the work of a tick: lets scripted wall time pass, stays running or stops as scripted"""

        def makeRunner(self):
            self.status = G.STOPPED
            self.desire = G.STOP
            self.done = True
            while True:
                control = (yield self.status)
                if control == G.ABORT:
                    player.aborts.append(self.name)
                    self.status = G.ABORTED
                    self.desire = G.ABORT
                    continue
                more = player.on_work(self, control)
                if more:
                    self.status = G.STARTED if control == G.START else G.RUNNING
                    self.desire = G.RUN
                else:
                    self.status = G.STOPPED
                    self.desire = G.STOP

    class SlowTasker(tasking.Tasker):
        """never started (inactive): only records when the skedder considers it due"""

        def makeRunner(self):
            self.status = G.STOPPED
            self.desire = G.STOP
            while True:
                control = (yield self.status)
                if control == G.ABORT:
                    player.aborts.append(self.name)
                    self.status = G.ABORTED
                    continue
                player.u_sends.append(_q(self.store.stamp))

    housing.House.Clear()
    housing.ClearRegistries()
    fake = FakeTimeModule(player)
    saved = (timing.time, skedding.time, storing.time, storing.Store.changeStamp)
    timing.time = skedding.time = storing.time = fake
    orig = saved[3]

    def change_stamp(self, stamp):
        orig(self, stamp)
        player.on_stamp(self, stamp)

    out = {"out": None, "error": None}
    try:
        h1 = housing.House(name="h1")
        h1.assignRegistries()
        t = EnvTasker(name="t", store=h1.store, schedule=G.ACTIVE)
        h1.taskers.append(t)
        h1.fronts.append(t)
        h1.orderTaskables()
        h2 = housing.House(name="h2")
        h2.assignRegistries()
        u = SlowTasker(name="u", store=h2.store, schedule=G.INACTIVE, period=float(uper * period * QUANTUM))
        h2.taskers.append(u)
        h2.mids.append(u)
        h2.orderTaskables()
        player.now = EPOCH - float(7 * QUANTUM)      # the skedder is made some time before it is run
        sk = skedding.Skedder(name="vf", period=float(period * QUANTUM), stamp=float(mode["s0"] * QUANTUM),
                              real=mode["real"], retro=mode["retro"], houses=[h1, h2])
        player.now = EPOCH
        storing.Store.changeStamp = change_stamp
        try:
            sk.run()
            out["out"] = "ended"
        except _EndOfScript:
            out["out"] = "cut"
        except excepting.TimerRetroError:
            out["out"] = "retroerror"
        player.flush_ranu()      # what is left over from the last tick
        out["skedder_stamp"] = _q(sk.stamp)
    finally:
        timing.time, skedding.time, storing.time, storing.Store.changeStamp = saved
    out["events"] = player.events
    out["aborts"] = sorted(player.aborts)
    out["cut"] = player.cut
    out["consumed"] = player.ptr
    return out


def _expected(name, st):
    """projection of a specification state that the event `name` must show"""
    e = {"wall": st["wall"], "req": st["req"]}
    if name in ("Work",):
        e["stamp"] = st["stamp"]
        e["ranu"] = st["ranu"]
    if name in ("Tick", "Init"):
        e["stamp"] = st["stamp"]
        e["time_share"] = st["stamp"]
        e["rt"] = st["wall"]
        e["stores"] = ["h1", "h2"]
        e.pop("req", None) if name == "Init" else None
        if name == "Init":
            e.pop("wall", None)
    return e


def run_path(tr, period, uper):
    """run one behaviour [(label, (name, args), state)] of SkedReal on the real skedder; return a Divergence or None"""
    init = tr[0][2]
    mode = {"real": bool(init["mode"]["real"]), "retro": bool(init["mode"]["retro"]), "s0": init["mode"]["s0"]}
    script = [(name, args) for (_, (name, args), _) in tr[1:]]
    steps = [{"action": "Init", "state": init}]

    def div(kind, action, where, detail, **kw):
        return Divergence(PROP, kind, action, "SkedReal:" + where, detail, steps=list(steps), **kw)

    try:
        r = _make_run(mode, period, uper, script)
    except Exception as ex:
        return div("exception", "Skedder.run", replay.innermost_ioflo_frame(ex.__traceback__),
                   "%s: %s" % (type(ex).__name__, str(ex)[:200]), extra={"mode": mode, "script": script})
    evs = r["events"]
    exp_seq = [("Init", init)] + [(name, st) for (_, (name, _), st) in tr[1:]]
    for i, (name, st) in enumerate(exp_seq):
        if i > 0:
            steps.append({"action": tr[i][0], "state": st})
        if i >= len(evs):
            how = "the run %s" % ("returned" if r["out"] == "ended" else "ended with " + str(r["out"]))
            return div("state-mismatch", name, "sequence", "expected %s next but %s" % (name, how),
                       expected=st, actual={"out": r["out"], "events": evs[-3:]})
        ename, ob = evs[i]
        if ename != name:
            return div("state-mismatch", name, "sequence", "expected %s but the skedder did %s" % (name, ename),
                       expected=st, actual=ob)
        want = _expected(name, st)
        for key, v in want.items():
            if key == "req" and name in ("Sleep", "SleepIntr"):
                # never longer than the time remaining on the timer (asking for less and sleeping again is as good)
                if isinstance(ob.get(key), int) and 0 < ob[key] <= v:
                    continue
            if key in ob and ob[key] != v:
                return div("state-mismatch", name, key, "expected %r got %r" % (v, ob[key]), expected=st, actual=ob)
    if len(evs) > len(exp_seq):
        ename, ob = evs[len(exp_seq)]
        return div("state-mismatch", ename, "sequence",
                   "the skedder went on with %s where %s" % (ename, r["cut"] or "the specification's behaviour ends"),
                   expected=exp_seq[-1][1], actual=ob)
    last = exp_seq[-1][1]
    if last["pc"] == "done":
        if r["out"] != last["out"]:
            return div("state-mismatch", "End", "out", "expected the run to end as %r, got %r" % (last["out"], r["out"]),
                       expected=last, actual={"out": r["out"]})
        if r["skedder_stamp"] != last["stamp"]:
            return div("state-mismatch", "End", "skedder.stamp", "expected %r got %r" % (last["stamp"], r["skedder_stamp"]),
                       expected=last, actual=r)
    elif r["out"] != "cut":
        return div("state-mismatch", "End", "out", "the run ended (%s) where the specification goes on" % r["out"],
                   expected=last, actual={"out": r["out"]})
    # however the run ends by itself, every tasker still scheduled is sent one abort (the finally clause of run)
    if last["pc"] == "done" and r["aborts"] != ["t", "u"]:
        return div("state-mismatch", "End", "aborts", "expected one abort each for t and u, got %r" % (r["aborts"],),
                   expected=last, actual=r["aborts"])
    return None


def _cfg_a(period, maxticks, uper, free=False, jumps=2, short=1, props=True, trace_spec=False):
    s = ("SPECIFICATION %s\nCONSTANTS\n  P = %d\n  MaxTicks = %d\n  UPer = %d\n  MaxJumps = %d\n  MaxShort = %d\n  Free = %s\n"
         % ("TraceSpec" if trace_spec else "Spec", period, maxticks, uper, jumps, short, "TRUE" if free else "FALSE"))
    if props:
        s += ("INVARIANT TypeOK\nINVARIANT StampExact\nINVARIANT NoEarlyTick\nINVARIANT NoEarlyTickWall\nINVARIANT NoDrift\n"
              "INVARIANT SleepPositive\nINVARIANT RetroOnlyUncompensated\nPROPERTY SleepBounded\nPROPERTY CatchUp\n")
    if trace_spec:
        s += "CONSTRAINT TraceOK\n"
    return s + "CHECK_DEADLOCK FALSE\n"


def _random_run(rng, period, uper):
    """one seeded run of the real skedder under a randomly drawn environment -> list of trace events"""
    real = rng.random() < 0.85
    retro = rng.random() < 0.8
    mode = {"real": real, "retro": retro, "s0": rng.choice([0, 3])}
    nticks = rng.randint(3, 40)
    backs = retro or rng.random() < 0.3      # without compensation a set-back clock ends the run at once
    state = {"k": 0}

    def policy(kind, player, req):
        if kind == "Work":
            k = state["k"]
            more = k < nticks
            c = rng.random()
            if c < 0.5:
                d = rng.randint(0, period)
            elif c < 0.75:
                d = rng.randint(period, 3 * period + 2)          # overrun
            elif c < 0.85:
                d = 0
            elif backs and (retro or (real and more)) and c < 0.93:
                d = -rng.randint(1, 2 * period)                  # clock set back while the taskers ran
            else:
                d = rng.randint(0, 5 * period)
            return "Work", (d, more)
        if kind == "Sleep":
            c = rng.random()
            if c < 0.03:
                return "SleepIntr", ()
            if c < 0.55 or not isinstance(req, int):
                return "Sleep", (req if isinstance(req, int) else 1,)
            if c < 0.75:
                return "Sleep", (req + rng.randint(1, 2),)
            if c < 0.82:
                return "Sleep", (req + rng.randint(period, 3 * period),)
            if c < 0.92:
                return "Sleep", (rng.randint(0, max(0, req - 1)),)  # cut short
            if backs:
                return "Sleep", (-rng.randint(1, period),)
            return "Sleep", (req,)
        state["k"] += 1
        return "Tick", ()

    r = _make_run(mode, period, uper, policy=policy)
    evs = []
    for name, ob in r["events"]:
        if name == "Init":
            evs.append({"ev": "Init", "real": mode["real"], "retro": mode["retro"], "s0": mode["s0"],
                        "stamp": ob["stamp"], "tshare": ob["time_share"], "rt": ob["rt"]})
        elif name == "Work":
            evs.append({"ev": "Work", "d": ob["d"], "more": ob["more"], "wall": ob["wall"], "stamp": ob["stamp"],
                        "ranu": ob.get("ranu", False)})
        elif name == "Sleep":
            evs.append({"ev": "Sleep", "a": ob["a"], "req": ob["req"], "wall": ob["wall"]})
        elif name == "SleepIntr":
            evs.append({"ev": "SleepIntr", "req": ob["req"]})
        elif name == "Tick":
            evs.append({"ev": "Tick", "stamp": ob["stamp"], "tshare": ob["time_share"], "rt": ob["rt"]})
    evs.append({"ev": "End", "out": r["out"], "stamp": r["skedder_stamp"], "aborts": r["aborts"]})
    return evs


A_UPER = 2
B_PERIOD, B_UPER = 8, 3


def configs_a(ctx):
    """constants of the SkedReal models whose complete graphs are replayed"""
    if ctx.quick:
        return [{"P": 2, "MaxTicks": 2, "UPer": A_UPER, "MaxJumps": 2, "MaxShort": 1}]
    return [{"P": 2, "MaxTicks": 4, "UPer": A_UPER, "MaxJumps": 3, "MaxShort": 2},
            {"P": 3, "MaxTicks": 3, "UPer": 3, "MaxJumps": 2, "MaxShort": 1}]


def model_a(ctx, c):
    """model checking of SkedReal and its complete graph, one TLC run"""
    dot = env.subdir("xskedreal") + "/skedreal-%d-%d.dot" % (c["P"], c["MaxTicks"])
    res = tlc.run("SkedReal", _cfg_a(c["P"], c["MaxTicks"], c["UPer"], jumps=c["MaxJumps"], short=c["MaxShort"]), spec_dir=SPEC_DIR,
                  dump_dot=dot, tag="xskr-a%d" % c["P"], timeout=3000, workers=_tlc_workers())
    return res, dot


def random_runs_a(ctx):
    """binding B, first half: seeded random runs of the real skedder -> (traces on the grid, all traces, divergences)"""
    rng = random.Random(ctx.seed + 17)
    ntr = ctx.pick(150, 3000)
    trs, divs = [], []
    for _ in range(ntr):
        try:
            trs.append(_random_run(rng, B_PERIOD, B_UPER))
        except Exception as ex:
            divs.append(Divergence(PROP, "exception", "Skedder.run", "SkedReal:" + replay.innermost_ioflo_frame(ex.__traceback__),
                                   "%s: %s" % (type(ex).__name__, str(ex)[:200])))
            break
    bad = {i for i, t in enumerate(trs) if not _jsonable(t)}
    for i in sorted(bad)[:5]:
        off = [e for e in trs[i] if any(isinstance(v, str) and v.startswith("<") for v in e.values())][:1]
        divs.append(Divergence(PROP, "rejected", off[0]["ev"] if off else "?", "SkedReal:trace",
                               "recorded run has a value off the quantum grid: %r" % (off[:1],), steps=trs[i][:40]))
    good = [t for i, t in enumerate(trs) if i not in bad]
    return good, trs, divs


def validate_a(ctx, good):
    return trace.validate("SkedRealTrace", _cfg_a(B_PERIOD, 100000, B_UPER, free=True, jumps=100000, short=100000, trace_spec=True),
                          SPEC_DIR, good, batch=ctx.pick(150, 400), procs=4, timeout=3000)


def bind_a(ctx, c, res, dot):
    ctx.add_model(res, "SkedReal/P%d" % c["P"], c)
    if not res.ok:
        ctx.diverge(Divergence(PROP, "model", res.error_name or res.error, "SkedReal", "specification property violated in the model",
                               steps=[{"action": a, "state": s} for a, s in res.trace]))
        return {}
    tlc.require_coverage(res, ["Work", "Sleep", "SleepIntr", "Tick"], "SkedReal")
    g = graph.load_dot(dot)
    paths = graph.edge_cover(g, max_len=80)
    traces = replay.graph_paths_to_traces(g, paths)
    ndiv = 0
    for tr in traces:
        d = run_path(tr, c["P"], c["UPer"])
        if d is not None:
            ctx.diverge(d)
            ndiv += 1
            if ndiv >= 12:
                break
    ctx.add_validated(len(traces), {"part": "a", "path": [s[0] for s in traces[len(traces) // 2]][:30]})
    return {"states": len(g.states), "edges": g.nedges, "covered": graph.covered_edges(paths), "paths": len(traces)}


def bind_a_traces(ctx, good, out):
    ctx.states += out.states
    ctx.transitions += out.generated
    ctx.add_validated(len(out.accepted), {"part": "a", "trace": good[0][:6] if good else []})
    for i, pref in sorted(out.rejected.items())[:8]:
        ev = good[i][pref] if 0 <= pref < len(good[i]) else {}
        ctx.diverge(Divergence(PROP, "rejected", ev.get("ev", "?"), "SkedReal:trace",
                               "recorded run of the real skedder is not a behaviour of SkedReal.tla at event %d: %r" % (pref + 1, ev),
                               steps=good[i][:pref + 1]))
    for (i, err, name, tr) in out.model_errors[:5]:
        ctx.diverge(Divergence(PROP, "rejected", name or err, "SkedReal:trace-invariant",
                               "property %s violated on a recorded run" % name, steps=good[i]))
    for i, t in enumerate(good):
        if i in out.accepted and t[-1].get("out") in ("ended", "retroerror") and t[-1].get("aborts") != ["t", "u"]:
            ctx.diverge(Divergence(PROP, "state-mismatch", "End", "SkedReal:aborts",
                                   "expected one abort each for t and u at the end of the run, got %r" % (t[-1].get("aborts"),), steps=t[-5:]))
            break
    return {"random_runs": len(good), "accepted": len(out.accepted),
            "ticks_random": sum(1 for t in good for e in t if e["ev"] == "Tick")}


def _jsonable(evs):
    """every number of a trace is on the grid (sentinels are strings starting with '<')"""
    for e in evs:
        for k, v in e.items():
            if isinstance(v, str) and v.startswith("<"):
                return False
    return True


# ============================================================================================================
# part b: the generator protocol of taskers that are not framers
# ============================================================================================================

class _Crash(Exception):
    """the scripted failure of a tasker's work"""


class SockDouble:
    """stands in for the PeerUdp of a serving.Server: opening works or not as scripted, receiving may raise"""

    def __init__(self, ha=("", 0)):
        self.ha = ha
        self.opened = False
        self.ok = True
        self.crash = False
        self.serviced = 0

    def reopen(self):
        self.close()
        return self.open()

    def open(self):
        self.opened = bool(self.ok)
        return self.opened

    def close(self):
        self.opened = False

    def receive(self):
        self.serviced += 1
        if self.crash:
            raise _Crash("scripted")
        return (b"", None)

    def send(self, data, da):
        return len(data)


class BombLog:
    """a log of a Logger whose file cannot be opened / whose logging raises when armed (a full disk ...)"""

    def __init__(self):
        self.name = "bomb"
        self.ok = True
        self.crash = False
        self.opened = False

    def reopen(self, prefix="", keep=0):
        self.opened = bool(self.ok)
        return self.opened

    def close(self):
        self.opened = False

    def flush(self):
        pass

    def cycle(self, size=0):
        pass

    def prepare(self):
        pass

    def resolve(self):
        pass

    def __call__(self, **kw):
        if self.crash:
            raise _Crash("scripted")


_CTL = {}
_STAT = {}


def _names():
    if not _CTL:
        env.use_repo()
        from ioflo.aid import consoling
        consoling.getConsole().reinit(verbosity=0)
        from ioflo.base import globaling as G
        _CTL.update({"stop": G.STOP, "start": G.START, "run": G.RUN, "abort": G.ABORT, "ready": G.READY,
                     "bad": max(G.STOP, G.START, G.RUN, G.ABORT, G.READY) + 3})
        _STAT.update({G.STOPPED: "stopped", G.STARTED: "started", G.RUNNING: "running", G.ABORTED: "aborted",
                      G.READIED: "readied"})


class TaskerAdapter:
    """one real tasker of the given kind, driven through its runner generator, hooks recorded from outside"""
    HOOKS = {"plain": (), "server": ("reopen", "close"), "logger": ("reopen", "prepare", "log", "close")}

    def __init__(self, kind, workdir):
        _names()
        from ioflo.base import housing, logging as iologging, serving, tasking
        from ioflo.base import globaling as G
        self.kind = kind
        self.calls = []
        housing.House.Clear()
        housing.ClearRegistries()
        self.house = housing.House(name="h")
        self.house.assignRegistries()
        store = self.house.store
        store.changeStamp(0.0)
        self.store = store
        self.sock = self.bomb = self.log = None
        if kind == "plain":
            self.t = tasking.Tasker(name="t", store=store)
        elif kind == "server":
            self.t = serving.Server(name="t", store=store, sha=("", 0), prefix=os.path.join(workdir, "srv"))
            self.sock = SockDouble()
            self.t.server = self.sock
        else:
            self.t = iologging.Logger(name="t", store=store, prefix=os.path.join(workdir, "log"), reuse=True)
            self.log = iologging.Log(name="lg", store=store, rule=G.ALWAYS)
            self.log.addLoggee(tag="x", loggee=store.create("a.b").update(value=1))
            self.t.addLog(self.log)
            self.bomb = BombLog()
            self.t.addLog(self.bomb)
            self.t.resolve()
        for h in self.HOOKS[kind]:
            setattr(self.t, h, self._wrap(h, getattr(self.t, h)))

    def _wrap(self, name, fn):
        def hook(*a, **kw):
            self.calls.append(name)
            return fn(*a, **kw)
        return hook

    def _alive(self):
        import inspect
        return inspect.getgeneratorstate(self.t.runner) != inspect.GEN_CLOSED

    def _open(self):
        if self.kind == "server":
            lf = self.t.logFile
            return bool(self.sock.opened or (lf is not None and not lf.closed))
        f = self.log.file
        return bool((f is not None and not f.closed) or self.bomb.opened)

    def project(self, res=None):
        t = self.t
        out = {"status": _STAT.get(t.status, repr(t.status)), "desire": _ctlname(t.desire), "done": t.done,
               "alive": self._alive(), "now": _i(self.store.stamp), "tstamp": _i(t.stamp)}
        if self.kind != "plain":
            out["open"] = self._open()
        if res is not None:
            out["res"] = res
            calls = []
            for c in self.calls:
                if not calls or calls[-1] != c:     # how often a hook is called in a row is not documented
                    calls.append(c)
            out["calls"] = tuple(calls)
        return out

    def step(self, name, args, expected=None):
        if name == "Advance":
            self.store.changeStamp(float((self.store.stamp or 0.0) + 1))
            return self.project()
        ctl = {"Ready": "ready", "Start": "start", "Run": "run", "Stop": "stop", "Abort": "abort", "Bad": "bad"}.get(name)
        if name == "Gone":
            ctl = args[0]
        ok, crash = True, False
        if name == "Start":
            ok = bool(args[0])
        if name == "Run":
            crash = bool(args[0])
        for d in (self.sock, self.bomb):
            if d is not None:
                d.ok, d.crash = ok, crash
        del self.calls[:]
        serviced = self.sock.serviced if self.sock else 0
        try:
            res = _STAT.get(self.t.runner.send(_CTL[ctl]), "?")
        except StopIteration:
            res = "StopIteration"
        except _Crash:
            res = "exception"
        finally:
            for d in (self.sock, self.bomb):
                if d is not None:
                    d.ok, d.crash = True, False
        if self.sock and self.sock.serviced > serviced:
            self.calls.insert(0, "service")
        return self.project(res)

    def close(self):
        try:
            self.t.runner.close()
        except Exception:
            pass
        try:
            self.t.close()
        except Exception:
            pass


def _ctlname(c):
    for k, v in _CTL.items():
        if v == c and k != "bad":
            return k
    return repr(c)


def _i(x):
    if isinstance(x, float) and x == int(x):
        return int(x)
    return x


def _cfg_b(kind, maxnow):
    return ('SPECIFICATION Spec\nCONSTANTS\n  Kind = "%s"\n  MaxNow = %d\n'
            "INVARIANT TypeOK\nINVARIANT YieldsStatus\nINVARIANT GoneIsAborted\nINVARIANT ActiveIsOpen\n"
            "PROPERTY ReleasedOnStop\nPROPERTY RunNeedsStart\nPROPERTY WorkOnlyActive\nCHECK_DEADLOCK FALSE\n" % (kind, maxnow))


KINDS = ("plain", "server", "logger")


def model_b(ctx, kind):
    dot = env.subdir("xskedreal") + "/proto-%s.dot" % kind
    res = tlc.run("TaskerProto", _cfg_b(kind, ctx.pick(1, 2)), spec_dir=SPEC_DIR, dump_dot=dot, tag="xskr-b" + kind, timeout=3000,
                  workers=_tlc_workers())
    return res, dot


def bind_b(ctx, kind, res, dot):
    ctx.add_model(res, "TaskerProto/" + kind, {"Kind": kind, "MaxNow": ctx.pick(1, 2)})
    if not res.ok:
        ctx.diverge(Divergence(PROP, "model", res.error_name or res.error, "TaskerProto/" + kind,
                               "specification property violated in the model",
                               steps=[{"action": a, "state": s} for a, s in res.trace]))
        return {}
    tlc.require_coverage(res, ["Advance", "Gone", "Ready", "Start", "Run", "Stop", "Abort", "Bad"], "TaskerProto/" + kind)
    workdir = env.subdir("xskedreal-b")
    g = graph.load_dot(dot)
    w = _walk.Walker(PROP, g, lambda init, kind=kind: TaskerAdapter(kind, workdir), seed=ctx.seed, max_len=60)
    w.run(max_steps=ctx.pick(40000, 200000))
    for d in w.divs:
        d.where = "TaskerProto/%s:%s" % (kind, d.where)
    ctx.diverge(w.divs)
    ctx.add_validated(w.traces, {"part": "b", "kind": kind, "walk": w.sample})
    return {"states": len(g.states), "edges": g.nedges, "pairs": w.pairs_total, "pairs_done": w.pairs_done,
            "complete": w.complete(), "steps": w.steps, "edges_seen": len(w.edges)}


def probe_classes(ctx):
    """every tasker class of ioflo.base that is not a framer: can be made, starts out stopped, readies, and an unknown
    control aborts it (the generator returning, or - Logger - staying, as TaskerProto!Bad allows)"""
    _names()
    from ioflo.base import housing, logging as iologging, monitoring, serving, tasking
    n = 0
    for cls in (tasking.Tasker, serving.Server, iologging.Logger, monitoring.Monitor, monitoring.MonitorOut):
        housing.House.Clear()
        housing.ClearRegistries()
        house = housing.House(name="h")
        house.assignRegistries()
        house.store.changeStamp(0.0)
        where = "TaskerProto/probe:%s" % cls.__name__
        steps = []
        t = None
        try:
            t = cls(name="t", store=house.store)
            obs = [("made", _STAT.get(t.status), True)]
            for ctl in ("ready", "bad"):
                try:
                    r = _STAT.get(t.runner.send(_CTL[ctl]), "?")
                except StopIteration:
                    r = "StopIteration"
                obs.append((ctl, _STAT.get(t.status), r))
            n += 1
        except Exception as ex:
            ctx.diverge(Divergence(PROP, "exception", "probe", where + ":" + replay.innermost_ioflo_frame(ex.__traceback__),
                                   "%s: %s" % (type(ex).__name__, str(ex)[:200]), steps=steps))
            continue
        finally:
            if t is not None:
                try:
                    t.runner.close()
                except Exception:
                    pass
        want = [("made", "stopped", True), ("ready", "readied", "readied")]
        if obs[:2] != want or obs[2][1] != "aborted" or obs[2][2] not in ("StopIteration", "aborted"):
            ctx.diverge(Divergence(PROP, "state-mismatch", "probe", where, "expected stopped, readied, aborted; observed %r" % (obs,),
                                   expected=want, actual=obs))
    return n


# ============================================================================================================
# part c: which taskers a house schedules and in which order
# ============================================================================================================

def _cfg_c(maxdecl, defaults):
    return ("SPECIFICATION Spec\nCONSTANTS\n  MaxDecl = %d\n  WithDefaults = %s\n"
            "INVARIANT Partition\nINVARIANT Ordered\nINVARIANT DefaultsExplicit\nINVARIANT OnlyFramers\nINVARIANT SendsTaskables\n"
            "CHECK_DEADLOCK FALSE\n" % (maxdecl, "TRUE" if defaults else "FALSE"))


def _decl_name(i, d):
    return "%s%d" % (d[0][0], i)


def _script_c(decls, variant):
    """FloScript text of one house with the declarations of a table row (clauses in either order)"""
    lines = ["house h", ""]
    for i, (verb, be, order) in enumerate(decls, 1):
        name = _decl_name(i, (verb,))
        clauses = []
        if be != "none":
            clauses.append("be " + be)
        if order != "none":
            clauses.append("in " + order)
        if (variant + i) % 2:
            clauses.reverse()
        if verb == "framer":
            clauses.append("first a")
            if (variant + i) % 3 == 0:
                clauses.reverse()
        lines.append(" ".join([verb, name] + clauses))
        if verb == "framer":
            lines.append("  frame a")
        lines.append("")
    return "\n".join(lines) + "\n"


def _stub_runner(tasker, log, stopped):
    """a runner that only records the controls the skedder sends and never starts"""
    def gen():
        while True:
            control = (yield stopped)
            log.append((tasker.name, _ctlname(control)))
    g = gen()
    next(g)
    return g


def _build_and_first_tick(text, path):
    """build the script with the real Builder (through Skedder.build) and let the real Skedder.run() do its first tick"""
    _names()
    from ioflo.base import skedding
    from ioflo.base import globaling as G
    with open(path, "w") as f:
        f.write(text)
    sk = skedding.Skedder(name="vf", period=0.125, real=False, filepath=path)
    if not sk.build():
        return {"error": "build returned False"}
    house = sk.houses[0]
    proj = {"taskables": [t.name for t in house.taskables], "slaves": [t.name for t in house.slaves],
            "auxes": [t.name for t in house.auxes], "moots": [t.name for t in house.moots],
            "framers": [t.name for t in house.framers], "taskers": [t.name for t in house.taskers],
            "resolved": [t.name for t in house.framers if t.resolved]}
    log = []
    for t in house.taskers:
        t.runner = _stub_runner(t, log, G.STOPPED)
    sk.run()
    proj["sends"] = [list(x) for x in log if x[1] != "abort"]
    proj["aborts"] = sorted(n for n, c in log if c == "abort")
    return proj


def configs_c(ctx):
    return [(2, True)] if ctx.quick else [(2, True), (3, False)]


def model_c(ctx, maxdecl, defaults):
    out = env.subdir("xskedreal") + "/house-%d.json" % maxdecl
    res = tlc.run("HouseOrder", _cfg_c(maxdecl, defaults), spec_dir=SPEC_DIR, extra_env={"TABLE_OUT": out},
                  tag="xskr-c%d" % maxdecl, timeout=3000, workers=_tlc_workers(), coverage=False)
    return res, out


def bind_c(ctx, maxdecl, defaults, res, out):
    ctx.add_model(res, "HouseOrder/%d" % maxdecl, {"MaxDecl": maxdecl, "WithDefaults": defaults})
    if not res.ok:
        ctx.diverge(Divergence(PROP, "model", res.error_name or res.error, "HouseOrder", "lemma about the placement function violated in the model",
                               steps=[{"action": a, "state": s} for a, s in res.trace]))
        return 0
    if res.distinct < 50:
        raise tlc.TlcError("vacuous model run (HouseOrder): %d cases" % res.distinct)
    path = os.path.join(env.subdir("xskedreal-c"), "house.flo")
    table = json.load(open(out))
    ndiv = rows = 0
    for n, row in enumerate(table):
        decls = [tuple(d) for d in row["decls"]]
        names = {i: _decl_name(i, d) for i, d in enumerate(decls, 1)}
        text = _script_c(decls, n)
        want = {k: [names[i] for i in row[k]] for k in ("taskables", "slaves", "auxes", "moots", "framers", "resolved")}
        want["taskers"] = [names[i] for i in range(1, len(decls) + 1)]
        want["sends"] = [[names[i], c] for i, c in row["sends"]]
        want["aborts"] = sorted(want["taskables"])
        try:
            got = _build_and_first_tick(text, path)
        except Exception as ex:
            ctx.diverge(Divergence(PROP, "exception", "build+run", "HouseOrder:" + replay.innermost_ioflo_frame(ex.__traceback__),
                                   "%s: %s" % (type(ex).__name__, str(ex)[:200]), steps=[{"script": text}], expected=want))
            ndiv += 1
            if ndiv >= 10:
                break
            continue
        rows += 1
        if "error" in got:
            ctx.diverge(Divergence(PROP, "table-mismatch", "build", "HouseOrder:build", got["error"], steps=[{"script": text}], expected=want))
            ndiv += 1
        else:
            for k in ("taskables", "sends", "slaves", "auxes", "moots", "framers", "taskers", "resolved", "aborts"):
                if got[k] != want[k]:
                    ctx.diverge(Divergence(PROP, "table-mismatch", k, "HouseOrder:" + k,
                                           "declarations %r: expected %r got %r" % (decls, want[k], got[k]),
                                           steps=[{"script": text}], expected=want, actual=got))
                    ndiv += 1
                    break
        if ndiv >= 10:
            break
    ctx.add_validated(rows, {"part": "c", "row": table[len(table) // 3]})
    return rows


# ============================================================================================================
# the check
# ============================================================================================================

def _tlc_workers():
    return max(1, min(4, env.NCPU // 2))


def run(ctx):
    from concurrent.futures import ThreadPoolExecutor
    ctx.rule = ("a: every edge of the complete graph of SkedReal.tla (wall clock = environment) replayed on the real Skedder.run under "
                "scripted time doubles, plus seeded random runs validated by TLC against SkedRealTrace.tla; b: on-line walk of the complete "
                "graph of TaskerProto.tla on a real Tasker, Server and Logger (distinct = (state, action) pairs performed); c: every row of "
                "the table TLC emits from HouseOrder.tla built from FloScript text with the real Builder and run for one tick by the real "
                "Skedder; distinct = graph edges + pairs + accepted runs + rows")
    ctx.assume("TLC, the projection functions and the doubles of the harness (scripted time module, socket double, failing log) are trusted")
    ctx.assume("the skedder's own bookkeeping takes no wall time: the scripted clock only moves while taskers run and while the skedder sleeps")
    ctx.assume("a framer declared without `be` is inactive, a server or logger without `be` is active, no `in` clause means mid "
               "(defaults of the builder; the documentation only lists the options)")
    extra = {}
    import time as _time
    t0 = _time.time()
    laps = {}

    def lap(name):
        laps[name] = round(_time.time() - t0, 1)
    # all TLC model runs side by side (JVM start dominates on the shared machine); the bindings run in this thread
    with ThreadPoolExecutor(max_workers=8) as pool:
        fa = [(c, pool.submit(model_a, ctx, c)) for c in configs_a(ctx)]
        fb = {k: pool.submit(model_b, ctx, k) for k in KINDS}
        fc = {cfg: pool.submit(model_c, ctx, *cfg) for cfg in configs_c(ctx)}
        good, allruns, divs = random_runs_a(ctx)
        ctx.diverge(divs)
        lap("random-runs")
        extra["classes_probed"] = probe_classes(ctx)
        pg = {"states": 0, "edges": 0, "covered": 0, "paths": 0}
        for c, f in fa:
            res, dot = f.result()
            lap("tlc-pacing-P%d" % c["P"])
            for k, v in bind_a(ctx, c, res, dot).items():
                pg[k] += v
            lap("replay-pacing-P%d" % c["P"])
        extra["pacing_graph"] = pg
        # when the graph replay already diverged a few recorded runs are enough (every rejected run is diagnosed by a JVM of its own)
        sent = good if not ctx.divs else good[:6]
        fv = pool.submit(validate_a, ctx, sent)
        for k in KINDS:
            res, dot = fb[k].result()
            lap("tlc-proto-" + k)
            extra["proto_" + k] = bind_b(ctx, k, res, dot)
            lap("walk-" + k)
        rows = 0
        for cfg, f in fc.items():
            res, out = f.result()
            lap("tlc-house-%d" % cfg[0])
            rows += bind_c(ctx, cfg[0], cfg[1], res, out)
            lap("rows-%d" % cfg[0])
        extra["house_rows"] = rows
        extra["pacing_runs"] = bind_a_traces(ctx, sent, fv.result())
        lap("validated-pacing")
    extra["laps_s"] = laps
    walks = [extra.get("proto_" + k) or {} for k in KINDS]
    ctx.exhaustive = pg["edges"] > 0 and pg["covered"] == pg["edges"] and all(w.get("complete") for w in walks) and not ctx.divs
    distinct = pg.get("covered", 0) + sum(w.get("pairs_done", 0) for w in walks) + extra["pacing_runs"].get("accepted", 0) + rows
    extra["distinct_nontrivial"] = distinct
    extra["evaluations"] = pg.get("paths", 0) + sum(w.get("steps", 0) for w in walks) + len(allruns) + rows
    ctx.extra.update(extra)


EXTRAS = {"skedreal": run}
