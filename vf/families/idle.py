"""C28 - idle timeouts drop only idle connections (specs/net/Idle.tla).

  model  Idle.tla model checked: NoEarlyDrop, ActivityRestarts (action properties), PersistentNeverIdleDropped,
         ClosedForAReason (invariants) for one and two connections;
  A      the complete state graph is walked together with a real http.Valet over tcp.Server (plain) and over tcp.ServerTls
         (TLS: over a FakeTlsContext; ssl itself is not modelled) whose listening and accepted sockets are doubles
         (vf/families/_netstacks.conform).  Environment steps: a connection arrives, the peer sends a fragment / a persistent /
         a non persistent request, the peer closes, the clock (the store stamp read by the connection timers) advances, and
         per service call what the application yields (data / nothing yet / end of response) and whether the socket takes all,
         some or none of the queued bytes.  Server steps are Valet's public service methods (serviceConnects, receive +
         serviceReqs, serviceReps, transmit, serviceAll).  After every step, per connection: open / closed (socket double
         closed, table entry gone), bytes still queued, and the cut off flag are compared.
"""
from concurrent.futures import ProcessPoolExecutor, ThreadPoolExecutor

from .. import doubles_net as dn
from .. import env, graph, replay, tlc
from ..replay import Divergence
from ._net import jvm_env
from ._netstacks import conform, quiet_console

SPEC_DIR = env.SPECS + "/net"
LOCAL = ("127.0.0.1", 8101)
KINDS = ("plain", "tls")
ACTIONS = ["Arrive", "PeerSend", "PeerSendHead", "PeerSendBody", "PeerClose", "Advance", "ServiceConnects", "ServiceReceives", "ServiceReps",
           "ServiceTransmits", "ServiceAll"]
REQ = {"P": b"GET /a HTTP/1.1\r\nHost: h\r\n\r\n",
       "N": b"GET /b HTTP/1.1\r\nHost: h\r\nConnection: close\r\n\r\n"}
# heads of requests that announce a body which arrives later (the body is BODY)
HEAD = {"P": b"GET /c HTTP/1.1\r\nHost: h\r\nContent-Length: 2\r\n\r\n",
        "N": b"GET /d HTTP/1.1\r\nHost: h\r\nConnection: close\r\nContent-Length: 2\r\n\r\n"}
BODY = b"ab"


def addr(c):
    return ("10.0.2.%d" % c, 6000 + c)


def cfg_text(k, props=True):
    s = ("SPECIFICATION Spec\nCONSTANTS\n  NConns = %(NConns)d\n  Timeout = %(Timeout)d\n  MaxAdv = %(MaxAdv)d\n"
         "  MaxFrag = %(MaxFrag)d\n  MaxReq = %(MaxReq)d\n  MaxSteps = %(MaxSteps)d\n" % k)
    s += "  Bodies = %s\n  Porter = %s\n" % ("TRUE" if k.get("Bodies") else "FALSE", "TRUE" if k.get("Server") == "porter" else "FALSE")
    if props:
        s += ("INVARIANT TypeOK\nINVARIANT PersistentNeverIdleDropped\nINVARIANT HeadOfPersistentExempts\nINVARIANT ClosedForAReason\n"
              "PROPERTY NoEarlyDrop\nPROPERTY ActivityRestarts\n")
    return s


def _at(f, c):
    return f[c] if isinstance(f, dict) else f[c - 1]


class IdleAdapter:
    def __init__(self, kind, init, k):
        env.use_repo()
        from ioflo.aio.http import serving as hserving
        from ioflo.aio.tcp import serving
        from ioflo.base import storing
        quiet_console()
        self.kind = kind
        self.n = int(k["NConns"])
        self.undo = []
        self.fake = dn.FakeSocketModule()
        self.undo.append(dn.install(serving, "socket", self.fake))
        self.store = storing.Store(stamp=0.0)
        self.now = 0
        self.yields = {}
        kw = {}
        if kind == "tls":
            kw = {"scheme": u"https", "context": dn.FakeTlsContext()}
        self.porter = k.get("Server") == "porter"
        if k.get("Explicit", True):
            kw["timeout"] = float(k["Timeout"])        # else: the timeout is left to the class default
        try:
            if self.porter:
                self.valet = hserving.Porter(store=self.store, ha=LOCAL, **kw)
                if not self.valet.servant.reopen():
                    raise AssertionError("the server did not open over the listening double")
            else:
                self.valet = hserving.Valet(store=self.store, app=self.app, ha=LOCAL, **kw)
                if not self.valet.open():
                    raise AssertionError("the server did not open over the listening double")
        except Exception:
            self.close()
            raise
        # the reference for the idle timeout is the server object's own public .timeout ("timeout in seconds for dropping
        # idle connections"; the class default when none is given), never what the servant or a connection carries:
        # one quantum of the model is that timeout divided by the model's Timeout
        self.quantum = 1.0
        if not k.get("Explicit", True):
            if self.valet.timeout != type(self.valet).Timeout:
                raise AssertionError("no timeout given but .timeout is not the class default")
            self.quantum = float(self.valet.timeout) / float(k["Timeout"])
        self.listen = self.fake.last
        if len(self.fake.created) != 1 or not self.listen.listening:
            raise AssertionError("expected exactly one listening socket double")
        self.socks = {}
        self.fpos = {}
        self.bpos = {}

    def close(self):
        for u in reversed(self.undo):
            u()
        self.undo = []

    # ---- the application: yields what the model chose for this service call
    def app(self, environ, start_response):
        ca = environ["REMOTE_ADDR"]
        start_response("200 OK", [("Content-Type", "text/plain")])
        return self._body(ca)

    def _body(self, ca):
        while True:
            y = self.yields.get(ca)
            if y == "data":
                yield b"x"
            elif y == "end":
                return
            else:
                yield b""

    # ---- projection
    def project(self):
        srv = self.valet.servant
        st, out, cut = {}, {}, {}
        for c in range(1, self.n + 1):
            s = self.socks.get(c)
            a = addr(c)
            if s is None:
                st[c] = "none"
            elif a in srv.ixes:
                ix = srv.ixes[a]
                st[c] = "open" if not s.closed else "closed but still in the table"
                out[c] = bool(ix.txes)
                cut[c] = bool(ix.cutoff)
            elif a in getattr(srv, "cxes", {}):
                st[c] = "handshaking"
            elif s.closed:
                st[c] = "closed"
            elif any(r[0] == "conn" and r[1] is s for r in self.listen.pending("accept")):
                st[c] = "wait"
            else:
                st[c] = "dropped without close"
            if a in (self.valet.stewards if self.porter else self.valet.reqs) and a not in srv.ixes:
                st[c] = "requestant left behind"
        return {"st": st, "out": out, "cut": cut}

    def fingerprint(self):
        """hidden state for the walk only (never compared): time left on each connection's timer, its timeout, whether a
        response is in progress"""
        out = []
        for a, ix in self.valet.servant.ixes.items():
            if self.porter:
                stw = self.valet.stewards.get(a)
                out.append((a, ix.timeout, max(-4.0 * ix.timeout, ix.timer.stop - self.store.stamp),
                            stw is not None and bool(getattr(stw.requestant, "headed", False))))
                continue
            rep = self.valet.reps.get(a)
            req = self.valet.reqs.get(a)
            out.append((a, ix.timeout, max(-4.0 * ix.timeout, ix.timer.stop - self.store.stamp), rep is not None and bool(rep.ended),
                        req is not None and bool(getattr(req, "headed", False))))
        return tuple(out)

    # ---- steps
    def _tx(self, b):
        for c, s in self.socks.items():
            m = str(_at(b, c))
            s.clear("send")
            s.defaults["send"] = dn.FULL if m == "all" else dn.BLOCK
            if m == "some":
                s.push("send", dn.partial(1))

    def _tx_done(self):
        for s in self.socks.values():
            s.clear("send")
            s.defaults["send"] = dn.BLOCK

    def _ys(self, y):
        self.yields = {addr(c): str(_at(y, c)) for c in range(1, self.n + 1)}

    def step(self, name, key, cands):
        args = key[1]
        v = self.valet
        if name == "Arrive":
            c = int(args[0])
            s = dn.ScriptedSocket(name="c%d" % c, peer=addr(c), sockname=v.servant.eha, connected=True)
            self.socks[c] = s
            self.fpos[c] = 0
            self.listen.push("accept", dn.conn(s, addr(c)))
        elif name == "PeerSend":
            c, k = int(args[0]), str(args[1])
            pos = self.fpos[c]
            if k == "frag":
                self.socks[c].push("recv", dn.data(REQ["P"][pos:pos + 1]))      # both requests start alike
                self.fpos[c] = pos + 1
            else:
                self.socks[c].push("recv", dn.data(REQ[k][pos:]))
                self.fpos[c] = 0
        elif name == "PeerSendHead":
            c, k = int(args[0]), str(args[1])
            pos = self.fpos[c]
            self.socks[c].push("recv", dn.data(HEAD[k][pos:]))
            self.fpos[c] = 0
            self.bpos[c] = 0
        elif name == "PeerSendBody":
            c, k = int(args[0]), str(args[1])
            pos = self.bpos.get(c, 0)
            if k == "bpart":
                self.socks[c].push("recv", dn.data(BODY[pos:pos + 1]))
                self.bpos[c] = pos + 1
            else:
                self.socks[c].push("recv", dn.data(BODY[pos:]))
                self.bpos[c] = len(BODY)
        elif name == "PeerClose":
            self.socks[int(args[0])].push("recv", dn.CLOSED)
        elif name == "Advance":
            self.now += int(args[0])
            self.store.stamp = float(self.now) * self.quantum
        elif name == "ServiceConnects":
            v.serviceConnects()
        elif name == "ServiceReceives":
            v.servant.serviceReceivesAllIx()
            if self.porter:
                v.serviceStewards()
            else:
                v.serviceReqs()
        elif name == "ServiceReps":
            self._ys(args[0])
            if self.porter:
                v.serviceStewards()
            else:
                v.serviceReps()
        elif name == "ServiceTransmits":
            self._tx(args[0])
            try:
                v.servant.serviceTxesAllIx()
            finally:
                self._tx_done()
        elif name == "ServiceAll":
            self._ys(args[0])
            self._tx(args[1])
            try:
                v.serviceAll()
            finally:
                self._tx_done()
        else:
            raise NotImplementedError(name)
        return self.project()


def env_key(name, args):
    if name == "ServiceReps":
        return (name, (args[0],))
    if name == "ServiceAll":
        return (name, (args[0], args[1]))
    return (name, tuple(args))


def match(spec, actual):
    """st of every connection; queued bytes and cut off flag of the connections that are open"""
    view = {"st": actual["st"]}
    if replay._compare(spec, view, None) is not None:
        return False
    for c, st in actual["st"].items():
        if st == "open":
            if bool(_at(spec["out"], c)) != actual["out"][c] or bool(_at(spec["cut"], c)) != actual["cut"][c]:
                return False
    return True


def _whys(st):
    return {str(x) for x in (st["why"].values() if isinstance(st["why"], dict) else st["why"])}


def _walk(job):
    """one walk (graph file, kind, constants) in a worker process; returns plain data"""
    dot, kind, k = job
    g = graph.load_dot(dot)
    where = "%s%s%s:" % (kind, "/porter" if k.get("Server") == "porter" else "", "" if k.get("Explicit", True) else "/default-timeout")
    w = conform("C28", g, lambda init: IdleAdapter(kind, init, k), env_key=env_key, match=match, where=where)
    whys = set()
    for u in w.states:
        whys |= _whys(g.states[u])
    return {"divergences": w.divergences, "edges": len(w.edges), "execs": w.execs, "steps": w.steps, "nodes": w.nodes,
            "states": len(w.states), "complete": w.complete, "ambiguous": w.ambiguous, "whys": whys}


def run_c28(ctx):
    ctx.rule = ("Idle.tla model checked for one and two connections (timeouts 0, 1, 2 quanta; request fragments, persistent and "
                "non persistent requests, streamed responses with empty pieces, blocked / partial / full sends, peer close); "
                "binding A: the complete state graph of every configuration walked together with a real http.Valet (and, for "
                "persistent requests, http.Porter) over tcp.Server and over tcp.ServerTls built by the server object itself, the "
                "timeout given explicitly or left to the class default (reference: the server object's own .timeout), with socket doubles (every environment / service step enabled at every "
                "state the implementation reaches); distinct = (state, step) pairs executed")
    ctx.assume("TLC, vf/doubles_net.py and the projection functions are trusted")
    ctx.assume("ssl is not modelled: ServerTls / IncomerTls run over a FakeTlsContext whose handshake succeeds at once")
    ctx.assume("activity = bytes the server's recv / send calls actually moved; reading the end of the stream is no activity")
    # "modes": how the server gets its timeout in the walks of this graph: given explicitly (one quantum = 1 s), or left
    # to the class default (Valet.Timeout / Porter.Timeout; one quantum = server.timeout / Timeout)
    main = {"NConns": 1, "Timeout": 2, "MaxAdv": 2, "MaxFrag": 1, "MaxReq": 2, "MaxSteps": 0, "Bodies": True}
    small = {"NConns": 1, "Timeout": 2, "MaxAdv": 2, "MaxFrag": 1, "MaxReq": 1, "MaxSteps": 0}
    porter = {"NConns": 1, "Timeout": 2, "MaxAdv": 2, "MaxFrag": 1, "MaxReq": 2, "MaxSteps": 0, "Server": "porter"}
    configs = ctx.pick(
        [dict(main, modes=["explicit"]),
         dict(small, modes=["default"]),
         {"NConns": 1, "Timeout": 0, "MaxAdv": 1, "MaxFrag": 1, "MaxReq": 1, "MaxSteps": 0, "Bodies": True, "modes": ["explicit"]},
         {"NConns": 2, "Timeout": 1, "MaxAdv": 1, "MaxFrag": 0, "MaxReq": 1, "MaxSteps": 6, "modes": ["explicit"]},
         dict(porter, modes=["default", "explicit"])],
        [dict(main, MaxFrag=2, modes=["explicit", "default"]),
         dict(main, Timeout=3, modes=["explicit", "default"]),
         {"NConns": 1, "Timeout": 0, "MaxAdv": 1, "MaxFrag": 1, "MaxReq": 2, "MaxSteps": 0, "Bodies": True, "modes": ["explicit"]},
         {"NConns": 2, "Timeout": 1, "MaxAdv": 1, "MaxFrag": 0, "MaxReq": 1, "MaxSteps": 9, "modes": ["explicit"]},
         dict(porter, modes=["default", "explicit"]),
         dict(porter, Timeout=3, Bodies=True, modes=["default"])])
    d = env.subdir("c28")

    def model(i):
        return tlc.run("Idle", cfg_text(configs[i]), spec_dir=SPEC_DIR, dump_dot="%s/g%d.dot" % (d, i), deadlock=False,
                       tag="c28g%d" % i, extra_env=jvm_env(ctx.quick), workers=max(1, env.NCPU // len(configs)))

    with ThreadPoolExecutor(max_workers=len(configs)) as ex:
        results = list(ex.map(model, range(len(configs))))
    total = followed = execs = nsteps = 0
    complete = True
    walks, graphs = [], {}
    for i, (k, res) in enumerate(zip(configs, results)):
        name = "Idle/%s-%dconn-timeout%d" % (k.get("Server", "valet"), k["NConns"], k["Timeout"])
        ctx.add_model(res, name, k)
        if not res.ok:
            ctx.diverge(Divergence("C28", "model", res.error_name or res.error, name, "specification property violated in the model",
                                   steps=[{"action": a, "state": st} for a, st in res.trace]))
            continue
        tlc.require_coverage(res, [a for a in ACTIONS if (a != "Advance" or k["Timeout"] > 0) and
                                   (a not in ("PeerSendHead", "PeerSendBody") or k.get("Bodies")) and
                                   (a != "PeerClose" or k.get("Server") != "porter")], name)
        g = graph.load_dot("%s/g%d.dot" % (d, i))
        whys = set()
        for st in g.states.values():
            whys |= _whys(st)
        need = (set() if k.get("Server") == "porter" else {"done", "cut"}) | ({"idle"} if k["Timeout"] > 0 else set())
        if not need <= whys:
            raise tlc.TlcError("vacuous model run (%s): closes for %s never reached" % (name, sorted(need - whys)))
        walks.extend((i, kind, mode) for kind in KINDS for mode in k["modes"])
        graphs[i] = (g, name, need)
    with ProcessPoolExecutor(max_workers=max(1, min(len(walks), env.NCPU))) as ex:
        done = list(ex.map(_walk, [("%s/g%d.dot" % (d, i), kind, dict(configs[i], Explicit=(mode == "explicit")))
                                   for (i, kind, mode) in walks]))
    for (i, kind, mode), w in zip(walks, done):
        g, name, need = graphs[i]
        k = dict(configs[i], mode=mode)
        kind = "%s/%s-timeout" % (kind, mode)
        for dv in w["divergences"]:
            dv.extra = dict(dv.extra or {}, config=k, kind=kind)
        ctx.diverge(w["divergences"])
        total += g.nedges
        followed += w["edges"]
        execs += w["execs"]
        nsteps += w["steps"]
        complete = complete and w["complete"]
        if not w["divergences"] and not need <= w["whys"]:
            raise tlc.TlcError("vacuous walk (%s, %s): closes for %s never reached by the implementation" % (name, kind, sorted(need - w["whys"])))
        ctx.add_validated(w["execs"], {"kind": kind, "config": k, "nodes": w["nodes"], "spec_states_visited": w["states"],
                                       "spec_states": len(g.states), "edges_followed": w["edges"], "ambiguous": w["ambiguous"]})
    ctx.exhaustive = complete
    ctx.extra.update({"graph_edges": total, "edges_followed": followed, "distinct_nontrivial": execs, "evaluations": nsteps,
                      "configurations": configs})


PROPERTIES = {"C28": run_c28}
