"""C14 - building any script terminates with success or a script error (specs/build/Resolve.tla, Mutate.tla).

1b. ResolveClones.tla: the same for clone records (`aux moot as mine` inside moot framers, also naming themselves or each
   other): every uses-graph on up to 3 moots is built; acyclic ones must build with the model's number of clones, a
   reachable cycle must be refused.
1. Resolve.tla: TLC checks (with fairness) that the documented link-resolution procedure (over links, then the outline
   of every frame down its primary unders) ends in "resolved" or "error" for every over-graph on up to 4 frames and, on
   the well formed over-graphs, every assignment of `under` declarations (a frame below, any other frame, itself, a
   name no frame has; all of them up to 3 frames, at most MaxUnders declarations on 4 frames), and prints each graph
   with its verdict; every graph is written as a script and built: "resolved" graphs with consistent declarations must
   build with exactly the over / under / primary-under links of the model, graphs with an ill formed over link, a
   dangling under or a loop of primary unders must be refused (Builder.build returns False for the ResolveError),
   an acyclic but inconsistent `under` may build or be refused - but every build must return.
2. Mutate.tla: every command form of the token-level grammar is built once unmutated (must succeed); TLC -simulate
   then writes scripts from the grammar and from the word streams of the example plans and damages them with the
   mutation actions; each is built and its outcome must be in the model's Allowed set.
All building happens in child processes (env.PYTHON, env.child_env()) that report script by script; a script that has
not answered after LIMIT seconds of wall clock is a `nontermination` divergence (the child is killed and the rest of
the job goes to a new child); an exception other than ParseError / ValueError escaping Builder.build (ioflo's own ParameterError, RegisterError and
CloneError included: the property allows parse, resolve and converter value errors only) is an `exception`
divergence whose `where` is the innermost ioflo function.
"""
import glob
import json
import os
import select
import subprocess
import time
from concurrent.futures import ThreadPoolExecutor

from .. import env, tlc
from ..replay import Divergence
from . import _bscript as B

SPEC_DIR = env.SPECS + "/build"
LIMIT = 10.0        # seconds of wall clock per script
MAX_TIMEOUTS = 2    # per job (shard): further scripts of the job are skipped after that many hangs
MUTATIONS = ["Delete", "Duplicate", "Swap", "ReplaceReserved", "ReplaceGarbage", "Truncate", "InsertConnective"]


# ---------------------------------------------------------------- children

def _run_job(scripts, work, tag, frames="", stats=False, retry=True):
    """build `scripts` in order in child processes; returns list of result dicts (outcome "timeout" for a hang)"""
    jobfile = os.path.join(work, "job-%s.json" % tag)
    with open(jobfile, "w") as f:
        json.dump({"scripts": scripts, "work": work, "frames": frames, "stats": stats}, f)
    results = [None] * len(scripts)
    nxt = 0
    ntimeouts = 0
    cenv = env.child_env({"PYTHONPATH": env.REPO + os.pathsep + env.VERIF, "PYTHONWARNINGS": "ignore"})
    while nxt < len(scripts):
        if ntimeouts >= MAX_TIMEOUTS:       # every hang costs LIMIT seconds: a few are enough to fail the check
            for k in range(nxt, len(scripts)):
                results[k] = {"outcome": "skipped", "etype": "", "msg": "not built after %d hangs in this job" % ntimeouts, "where": ""}
            break
        errpath = jobfile + ".err"
        errf = open(errpath, "w")
        p = subprocess.Popen([env.PYTHON, "-B", "-m", "vf.families._bchild", jobfile, str(nxt)], cwd=env.VERIF, env=cenv,
                             stdout=subprocess.PIPE, stderr=errf)
        errf.close()
        started = None          # (index, time) of the script being built
        boot = time.time()
        buf = ""
        dead = False
        while True:
            deadline = (started[1] if started else boot) + (LIMIT if started else 120.0)
            wait = deadline - time.time()
            if wait <= 0:
                break
            r, _, _ = select.select([p.stdout], [], [], min(wait, 1.0))
            if not r:
                if p.poll() is not None:
                    dead = True
                    break
                continue
            chunk = os.read(p.stdout.fileno(), 65536).decode("utf-8", "replace")
            if chunk == "":
                dead = True
                break
            buf += chunk
            while "\n" in buf:
                line, buf = buf.split("\n", 1)
                if line.startswith("S "):
                    started = (int(line[2:]), time.time())
                elif line.startswith("R "):
                    _, idx, js = line.split(" ", 2)
                    results[int(idx)] = json.loads(js)
                    nxt = int(idx) + 1
                    started = None
                    boot = time.time()
                elif line == "E":
                    nxt = len(scripts)
            if nxt >= len(scripts):
                break
        if nxt >= len(scripts):
            try:
                p.wait(timeout=10)
            except subprocess.TimeoutExpired:
                p.kill()
            continue
        # hang or crash of the child on script `started`
        err = ""
        if dead:
            try:
                err = open(errpath).read()[-1500:]
            except Exception:
                pass
        p.kill()
        p.wait()
        k = started[0] if started else nxt
        if dead:
            results[k] = {"outcome": "crash", "etype": "ChildDied", "msg": "child process ended while building (rc=%s) %s" % (p.returncode, err[-400:]),
                          "where": "child"}
        else:
            # a starved machine can delay an innocent child: the script is built once more on its own before the hang counts
            again = _run_job([scripts[k]], work, tag + "r", frames, stats, retry=False) if retry else [None]
            if again[0] is not None and again[0]["outcome"] != "timeout":
                results[k] = again[0]
            else:
                results[k] = {"outcome": "timeout", "etype": "", "msg": "no answer after %.0f s (twice)" % LIMIT, "where": "Builder.build"}
                ntimeouts += 1
        nxt = k + 1
    for f in (jobfile, jobfile + ".err"):
        try:
            os.unlink(f)
        except OSError:
            pass
    return results


def build_all(scripts, work, nproc, tag, frames="", stats=False):
    """shard over nproc children; order of results = order of scripts"""
    if not scripts:
        return []
    nproc = max(1, min(nproc, (len(scripts) + 49) // 50))
    shards = [scripts[i::nproc] for i in range(nproc)]
    with ThreadPoolExecutor(max_workers=nproc) as ex:
        parts = list(ex.map(lambda a: _run_job(a[1], work, "%s%d" % (tag, a[0]), frames, stats), enumerate(shards)))
    out = [None] * len(scripts)
    for k, part in enumerate(parts):
        out[k::nproc] = part
    return out


def text_of(script, logdir):
    return "\n".join(" ".join(w.replace("LOGDIR", logdir) for w in cmd) for cmd in script) + "\n"


FORMAT_ERRORS = ("expected '}' before end of string", "Single '}' encountered in format string", "Single '{' encountered",
                 "unmatched '{' in format", "cannot switch from", "Invalid format specifier", "unsupported format character",
                 "incomplete format", "Unknown format code", "Replacement index", "not all arguments converted",
                 "not enough arguments for format string")


def label_of(r):
    if r["outcome"] == "error":
        if r["etype"] == "ValueError" and any(m in r["msg"] for m in FORMAT_ERRORS):
            return "ValueError(message formatting)"      # raised by a broken error message, not by a converter
        return r["etype"]
    return r["outcome"]


def judge(ctx, action, allowed, r, steps, extra=None):
    """outcome of one build against the model's allowed set; returns True when fine"""
    lab = label_of(r)
    if lab in allowed:
        return True
    if r["outcome"] == "skipped":
        return False
    if r["outcome"] == "timeout":
        ctx.diverge(Divergence("C14", "nontermination", action, "building.py:Builder.build", "building did not return within %.0f s" % LIMIT,
                               steps=steps, expected=sorted(allowed), actual="timeout", extra=extra))
    elif r["outcome"] in ("error", "crash") and lab not in B.SCRIPT_ERRORS:
        ctx.diverge(Divergence("C14", "exception", action, r["where"], "%s: %s" % (lab, r["msg"][:200]), steps=steps,
                               expected=sorted(allowed), actual=r["etype"], extra=dict(extra or {}, traceback=r.get("traceback", ""))))
    else:
        ctx.diverge(Divergence("C14", "state-mismatch", action, "outcome", "outcome %s (%s) not among %s" % (lab, r["msg"][:160], sorted(allowed)),
                               steps=steps, expected=sorted(allowed), actual=lab, extra=extra))
    return False


# ---------------------------------------------------------------- part 1: link resolution

def graph_script(g):
    names = ["f%d" % i for i in range(1, g["nf"] + 1)]
    lines = ["house hr", "framer fg be active first f1"]
    for i, o in enumerate(g["over"]):
        s = "frame %s" % names[i]
        if o == g["nf"] + 1:
            s += " in nowhere"
        elif o:
            s += " in %s" % names[o - 1]
        lines.append(s)
        lines.append("print %s" % names[i])
        u = (g.get("under") or [0] * g["nf"])[i]
        if u:
            lines.append("under %s" % ("nowhere" if u == g["nf"] + 1 else names[u - 1]))
    return "\n".join(lines) + "\n"


def emitted(res):
    return B.emitted_json(res.out)


def n_over_graphs(maxframes, maxunderframes, maxunders):
    """number of (over, under) graphs Resolve.tla starts from, counted independently of TLC's output"""
    from itertools import product
    from math import comb
    total = 0
    for n in range(1, maxframes + 1):
        for ov in product(range(0, n + 2), repeat=n):
            wf = all(o != n + 1 for o in ov)
            if wf:
                for f in range(1, n + 1):
                    g, k = ov[f - 1], 0
                    while g and k <= n:
                        if g == f:
                            wf = False
                            break
                        g, k = ov[g - 1], k + 1
                    if not wf:
                        break
            if not wf or (n > maxunderframes and maxunders == 0):
                total += 1
            elif n <= maxunderframes:
                total += (n + 2) ** n
            else:
                total += sum(comb(n, k) * (n + 1) ** k for k in range(0, maxunders + 1))
    return total


def part_resolve(ctx, work, nproc):
    consts = {"MaxFrames": 4, "MaxUnderFrames": 3, "MaxUnders": ctx.pick(0, 2)}

    def cfg(name):
        return open(SPEC_DIR + "/" + name).read().replace("MaxUnders = 0", "MaxUnders = %d" % consts["MaxUnders"])

    # one run: LiveSpec (weak fairness) with the liveness property Termination, the invariants, and the verdicts printed
    ngraphs = n_over_graphs(consts["MaxFrames"], consts["MaxUnderFrames"], consts["MaxUnders"])
    res, graphs = B.run_emitting(lambda w: tlc.run("Resolve", cfg("Resolve.cfg"), spec_dir=SPEC_DIR, tag="c14res",
                                                   workers=w or max(1, env.NCPU // 2)),
                                 lambda r: ngraphs, "Resolve")
    consts["specification"] = "LiveSpec = Spec /\\ WF_vars(Next); PROPERTY Termination"
    if not res.ok and res.error == "temporal":
        ctx.add_model(res, "Resolve", consts)
        ctx.diverge(Divergence("C14", "model", "Termination", "Resolve", "the documented resolution procedure does not terminate in the model",
                               steps=[{"action": a, "state": s} for a, s in res.trace]))
        return 0
    ctx.add_model(res, "Resolve", consts)
    if not res.ok:
        ctx.diverge(Divergence("C14", "model", res.error_name or res.error, "Resolve", "specification property violated in the model",
                               steps=[{"action": a, "state": s} for a, s in res.trace]))
        return 0
    tlc.require_coverage(res, ["Start", "NextFrame", "Fail", "Climb", "EndOvers", "TraceStart", "Descend", "TraceFail", "TraceEnd", "Finish"], "Resolve")
    if len(set(json.dumps([g["nf"], g["over"], g["under"]]) for g in graphs)) != ngraphs:
        raise tlc.TlcError("Resolve: the %d verdicts are not one per graph" % len(graphs))
    kinds = {}
    for g in graphs:
        kinds[g["kind"]] = kinds.get(g["kind"], 0) + 1
    for k in ("tree", "dangling", "self", "cycle-through-start", "cycle-not-through-start", "under-dangling", "under-loop",
              "under-consistent", "under-inconsistent"):
        if not kinds.get(k):
            raise tlc.TlcError("Resolve vacuous: no graph of kind %s" % k)
    scripts = [graph_script(g) for g in graphs]
    results = build_all(scripts, work, nproc, "res", frames="fg")
    for g, s, r in zip(graphs, scripts, results):
        steps = [{"graph": {"over": g["over"], "under": g["under"], "kind": g["kind"]}, "script": s}]
        action = "resolve:" + g["kind"]
        if g["result"] == "resolved" and not g["consistent"]:
            # an `under` naming a frame that is not below: the documentation does not say whether that is an error,
            # only that building ends
            judge(ctx, action, {"built", "refused"}, r, steps)
        elif g["result"] == "resolved":
            if judge(ctx, action, {"built"}, r, steps):
                n = g["nf"]
                exp = {"f%d" % (i + 1): ["f%d" % g["over"][i] if g["over"][i] else None, sorted("f%d" % u for u in g["unders"][i]),
                                         "f%d" % g["primary"][i] if g["primary"][i] else None] for i in range(n)}
                act = {k: [v[0], sorted(set(v[1])), v[1][0] if v[1] else None] for k, v in (r.get("frames") or {}).items()}
                if exp != act:
                    ctx.diverge(Divergence("C14", "state-mismatch", action, "frames.over/unders/primary", "resolved links differ: expected %r got %r" % (exp, act),
                                           steps=steps, expected=exp, actual=act))
        else:
            judge(ctx, action, {"refused"}, r, steps)
    ctx.add_validated(len(graphs), {"graph": graphs[len(graphs) // 2], "outcome": label_of(results[len(graphs) // 2])})
    ctx.extra["over_graphs"] = kinds
    return len(graphs)


# ---------------------------------------------------------------- part 1b: clone records

def clone_script(g):
    lines = ["house hk"]
    for m in range(g["nm"]):
        lines += ["framer m%d be moot" % (m + 1), "frame m%da" % (m + 1), "print m%d" % (m + 1)]
        lines += ["aux m%d as mine" % (u + 1) for u in range(g["nm"]) if g["uses"][m][u]]
    lines += ["framer top be active", "frame t1", "print top"]
    lines += ["aux m%d as mine" % (u + 1) for u in range(g["nm"]) if g["root"][u]]
    return "\n".join(lines) + "\n"


def clones_model(ctx):
    maxmoots = ctx.pick(2, 3)
    cfg = open(SPEC_DIR + "/ResolveClones.cfg").read().replace("MaxMoots = 2", "MaxMoots = %d" % maxmoots)
    return maxmoots, tlc.run("ResolveClones", cfg, spec_dir=SPEC_DIR, tag="c14clones", workers=1)   # small; one worker: output intact


def part_clones(ctx, work, nproc, model):
    maxmoots, res = model.result()
    ctx.add_model(res, "ResolveClones", {"MaxMoots": maxmoots, "fairness": "WF_vars(Next)"})
    if not res.ok:
        ctx.diverge(Divergence("C14", "model", res.error_name or res.error, "ResolveClones", "specification property violated in the model",
                               steps=[{"action": a, "state": s} for a, s in res.trace]))
        return 0
    tlc.require_coverage(res, ["AnyPresolve", "AnyFail", "Finish"], "ResolveClones")
    graphs = {}
    for g in emitted(res):
        k = json.dumps([g["nm"], g["uses"], g["root"]])
        if k in graphs and graphs[k]["result"] != g["result"]:
            raise tlc.TlcError("ResolveClones: two verdicts for one graph %s" % k)
        graphs[k] = g
    graphs = list(graphs.values())
    ngraphs = sum(2 ** (m * m) * 2 ** m for m in range(1, maxmoots + 1))     # uses-graphs x root sets, counted independently
    if len(graphs) != ngraphs:
        raise tlc.TlcError("ResolveClones: %d verdicts for %d graphs" % (len(graphs), ngraphs))
    kinds = {}
    for g in graphs:
        kinds[g["kind"]] = kinds.get(g["kind"], 0) + 1
    for k in ("acyclic", "self", "mutual"):
        if not kinds.get(k):
            raise tlc.TlcError("ResolveClones vacuous: no graph of kind %s" % k)
    scripts = [clone_script(g) for g in graphs]
    results = build_all(scripts, work, nproc, "clo", stats=True)
    for g, s, r in zip(graphs, scripts, results):
        steps = [{"graph": {"uses": g["uses"], "root": g["root"], "kind": g["kind"]}, "script": s}]
        action = "clones:" + g["kind"]
        if g["result"] == "resolved":
            if judge(ctx, action, {"built"}, r, steps) and r.get("nclones") != g["clones"]:
                ctx.diverge(Divergence("C14", "state-mismatch", action, "clones", "expected %d clones, built %r" % (g["clones"], r.get("nclones")),
                                       steps=steps, expected=g["clones"], actual=r.get("nclones")))
        else:
            judge(ctx, action, {"refused"}, r, steps)
    ctx.add_validated(len(graphs), {"clone_graph": graphs[len(graphs) // 2], "outcome": label_of(results[len(graphs) // 2])})
    ctx.extra["clone_graphs"] = kinds
    return len(graphs)


# ---------------------------------------------------------------- part 2: grammar and mutations

def plan_streams(ctx, work):
    """word streams of the example plans that are complete scripts (as the real Builder dispatches them)"""
    B.install()
    out = []
    for p in sorted(glob.glob(os.path.join(env.REPO, "ioflo", "app", "plan", "*.flo"))):
        text = open(p).read()
        firsts = [l.split()[0] for l in text.splitlines() if l.split() and not l.lstrip().startswith("#")]
        if "load" in firsts or "house" not in firsts:
            continue        # loads another file relative to its own directory / is a fragment loaded by others
        r = B.build(text, want_pre=False, want_post=False, want_dispatch=True)
        if r["outcome"] == "built":
            out.append((os.path.basename(p), r["dispatch"]))
        else:
            judge(ctx, "unmutated", {"built"}, r, [{"base": os.path.basename(p), "mutations": [], "script": text[:4000]}],
                  extra={"base": os.path.basename(p)})
    return out


def mutate_cfg(maxadd, maxmut, bases="both"):
    s = open(SPEC_DIR + "/Mutate.cfg").read()
    return s.replace("MaxAdd = 1", "MaxAdd = %d" % maxadd).replace("MaxMut = 0", "MaxMut = %d" % maxmut).replace('Bases = "both"', 'Bases = "%s"' % bases)


def part_mutate(ctx, work, nproc):
    logdir = os.path.join(work, "logs")
    plans = plan_streams(ctx, work)
    if len(plans) < 20 and not ctx.divs:
        raise tlc.TlcError("C14 vacuous: only %d example plans build stand-alone" % len(plans))
    inp = os.path.join(work, "mutate.json")
    with open(inp, "w") as f:
        json.dump({"plans": [p[1] for p in plans]}, f)
    # (a) the grammar itself: the skeleton, every command form once, every plan - unmutated
    # (b) damaged scripts: behaviours from the grammar and from the plans (two simulations so that both are well represented)
    nsim = ctx.pick(100, 2500)

    def gram():
        return tlc.run("Mutate", mutate_cfg(1, 0), spec_dir=SPEC_DIR, extra_env={"MUTATE_INPUT": inp}, tag="c14gram",
                       workers=max(1, env.NCPU // 3))

    def simul(bases):
        return tlc.run("Mutate", mutate_cfg(5, 4, bases), spec_dir=SPEC_DIR, extra_env={"MUTATE_INPUT": inp}, workers=2,
                       simulate={"num": nsim, "depth": 26}, seed=ctx.seed, tag="c14sim" + bases, coverage=False)

    with ThreadPoolExecutor(max_workers=3) as ex:
        futs = [ex.submit(gram), ex.submit(simul, "grammar")] + ([ex.submit(simul, "plans")] if plans else [])
        done = [f.result() for f in futs]
        res, sim1, sim2 = done[0], done[1], (done[2] if plans else None)
    ctx.add_model(res, "Mutate-grammar", {"MaxAdd": 1, "MaxMut": 0})
    if not res.ok:
        ctx.diverge(Divergence("C14", "model", res.error_name or res.error, "Mutate", "specification property violated in the model",
                               steps=[{"action": a, "state": s} for a, s in res.trace]))
        return 0
    forms = emitted(res)
    if len(forms) < 300:
        raise tlc.TlcError("Mutate grammar run printed only %d scripts" % len(forms))
    muts = []
    for bases, sim in (("grammar", sim1), ("plans", sim2)):
        if sim is None:
            continue
        ctx.add_model(sim, "Mutate-simulate/" + bases, {"MaxAdd": 5, "MaxMut": 4, "behaviours_per_worker": nsim, "workers": 2})
        if not sim.ok:
            ctx.diverge(Divergence("C14", "model", sim.error_name or sim.error, "Mutate", "specification property violated in the model (simulation)",
                                   steps=[{"action": a, "state": s} for a, s in sim.trace]))
            return 0
        muts.extend(emitted(sim))
    seen = set()
    rows = []
    for r in forms + muts:
        k = json.dumps(r["script"])
        if k not in seen:
            seen.add(k)
            rows.append(r)
    kinds_seen = set(m[0] for r in rows for m in r["log"])
    missing = [m for m in ("delete", "duplicate", "swap", "reserved", "garbage", "truncate", "insert") if m not in kinds_seen]
    if missing:
        raise tlc.TlcError("Mutate vacuous: mutations never applied: %s" % missing)
    if (not any(r["base"] > 0 and r["nmut"] > 0 for r in rows) or not any(r["base"] == 0 and r["nmut"] > 0 for r in rows)) and not ctx.divs:
        raise tlc.TlcError("Mutate vacuous: no mutated plan / no mutated grammar script")
    scripts = [text_of(r["script"], logdir) for r in rows]
    results = build_all(scripts, work, nproc, "mut")
    tally = {}
    for r, s, b in zip(rows, scripts, results):
        base = "grammar" if r["base"] == 0 else plans[r["base"] - 1][0]
        action = "+".join(m[0] for m in r["log"]) or "unmutated"
        steps = [{"base": base, "mutations": r["log"], "script": s if len(s) < 6000 else s[:6000] + "..."}]
        judge(ctx, action, set(r["allowed"]), b, steps, extra={"base": base})
        lab = label_of(b)
        tally[lab] = tally.get(lab, 0) + 1
    for need in ("built", "ParseError", "refused"):
        if not tally.get(need) and not ctx.divs:
            raise tlc.TlcError("C14 vacuous: no script with outcome %s (%r)" % (need, tally))
    mid = len(rows) // 2
    ctx.add_validated(len(rows), {"base": rows[mid]["base"], "mutations": rows[mid]["log"], "outcome": label_of(results[mid])})
    ctx.sample({"mutations": rows[-1]["log"], "outcome": label_of(results[-1]), "script_tail": scripts[-1][-300:]})
    ctx.extra.update({"outcomes": tally, "command_forms_unmutated": len(forms), "mutated_scripts": sum(1 for r in rows if r["nmut"] > 0),
                      })
    return len(rows)


def run_c14(ctx):
    ctx.rule = ("1: all over-graphs on 1..4 frames (none / frame / self / dangling per frame) and all clone-record graphs on 1..MaxMoots moot framers, each built; 2: every command form of "
                "the grammar unmutated, plus TLC -simulate behaviours: a grammar script (0..5 body commands) or an example plan, "
                "damaged by 0..4 token mutations; distinct = distinct scripts built in child processes")
    work = env.subdir("c14")
    nproc = min(env.NCPU, 8)
    with ThreadPoolExecutor(max_workers=1) as ex:
        model = ex.submit(clones_model, ctx)        # TLC on the clone graphs runs beside the over-graph part
        n1 = part_resolve(ctx, work, nproc)
        n1 += part_clones(ctx, work, nproc, model)
    n2 = part_mutate(ctx, work, nproc)
    ctx.exhaustive = False
    ctx.extra.update({"evaluations": n1 + n2, "distinct_nontrivial": n1 + n2, "wall_clock_limit_s": LIMIT})
    ctx.assume("a child process that has not answered %.0f s after starting on a script is taken as non-terminating" % LIMIT)


PROPERTIES = {"C14": run_c14}
