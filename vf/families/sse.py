"""C33 - server-sent events parse the same for any split and any mix of CR / LF / CRLF line endings
(specs/http/Sse.tla, SseMC.tla, SseTrace.tla).

Binding A: the complete state graph of SseMC.tla (rule streams x uniform and mixed endings, short streams x every
           assignment of endings, every split into <= 3 pieces); every edge replayed on a real httping.EventSource
           and on a real clienting.Respondent receiving `text/event-stream` (body until close, and chunked with one
           chunk per piece).
Binding B: seeded random longer streams / endings / splits run through the same three set-ups, recorded, and
           validated by TLC against SseTrace.tla.
"""
import json
import os
import random

from .. import env, graph, replay, tlc, trace
from ..replay import Divergence
from .httpparse import to_bytes, to_syms

SPEC_DIR = env.SPECS + "/http"
os.environ.setdefault("VF_LENIENT", "0")
FLAVORS = ("source", "close", "chunked")
NO_RETRY = 999983       # initial reconnection time given to a Respondent: "no retry field seen yet"


def _text(s):
    if s is None:
        return ()
    if isinstance(s, (bytes, bytearray)):
        return to_syms(s)
    return to_syms(s.encode("utf-8"))


class SseAdapter:
    """a real event stream parser fed through the bytearray it reads from"""

    def __init__(self, flavor, wire):
        env.use_repo()
        from ioflo.aio.http import clienting, httping
        self.flavor = flavor
        self.wire = to_bytes(wire)
        self.sent = 0
        self.buf = bytearray()
        if flavor == "source":
            self.es = httping.EventSource(raw=self.buf)
            self.rsp = None
        else:
            self.rsp = clienting.Respondent(msg=self.buf, method="GET", retry=NO_RETRY)
            head = b"HTTP/1.1 200 OK\r\nContent-Type: text/event-stream\r\n"
            if flavor == "chunked":
                head += b"Transfer-Encoding: chunked\r\n"
            self.buf.extend(head + b"\r\n")
            self.rsp.parse()
            assert self.rsp.evented and self.rsp.headed and not self.rsp.ended, "response head not taken as an event stream"

    def obs(self):
        if self.rsp is None:
            events, retry, leid = self.es.events, self.es.retry, self.es.leid
            retry = -1 if retry is None else retry
        else:
            events, retry, leid = self.rsp.events, self.rsp.retry, self.rsp.leid
            retry = -1 if retry == NO_RETRY else retry
        evs = tuple({"id": _text(e["id"]), "name": _text(e["name"]), "data": _text(e["data"])} for e in events)
        return {"events": evs, "retry": retry, "leid": _text(leid)}

    def call(self, name, args):
        if name == "Deliver":
            piece = self.wire[self.sent:self.sent + args[0]]
            self.sent += args[0]
            if self.flavor == "chunked":
                piece = b"%x\r\n" % len(piece) + piece + b"\r\n"
            self.buf.extend(piece)
        elif name in ("Parse", "ParseAgain"):
            (self.rsp or self.es).parse()
        else:
            raise NotImplementedError(name)

    def settled(self):
        """False while the last byte that arrived is a CR (CR or first half of CR LF: a parser may wait for the next byte)"""
        return self.sent == 0 or self.wire[self.sent - 1] != 13

    def step(self, name, args, expected):
        self.call(name, args)
        if name == "Deliver" or not self.settled():
            return {}
        return {"obs": self.obs()}


MC_CFG = """SPECIFICATION Spec
CONSTANTS
  Level = %d
  MaxPieces = %d
  NSc <- FamN
  MaxK <- FamMaxLen
  ScWire <- FamWire
INVARIANT SplitIndependent
INVARIANT ObsIsFunctionOfParser
INVARIANT Final
INVARIANT Prefix
"""

TRACE_CFG = """SPECIFICATION TraceSpec
CONSTANTS
  MaxPieces = 100000
  MaxK = 1
  NSc <- NTraces
  ScWire <- TrWire
CONSTRAINT TraceOK
INVARIANT ObsIsFunctionOfParser
CHECK_DEADLOCK FALSE
"""


# ---------------------------------------------------------------- binding B

def random_stream(rng):
    """-> bytes of a random event stream (lines with random endings, sometimes a byte order mark)"""
    lines = []
    vals = ["a", "b c", "", " x", "x:y", "été", "{\"k\": 1}", "12", "z" * rng.randint(1, 30)]
    for _ in range(rng.randint(1, 14)):
        c = rng.random()
        sp = rng.choice(["", " "])
        if c < 0.35:
            lines.append("data:" + sp + rng.choice(vals))
        elif c < 0.6:
            lines.append("")
        elif c < 0.67:
            lines.append("event:" + sp + rng.choice(["e", "ping", ""]))
        elif c < 0.74:
            lines.append("id:" + sp + rng.choice(["1", "42", "", "x-7"]))
        elif c < 0.8:
            lines.append("retry:" + sp + rng.choice(["7", "1500", "x", "", "3s"]))
        elif c < 0.86:
            lines.append(":" + rng.choice(["", " keep-alive", "c"]))
        elif c < 0.92:
            lines.append(rng.choice(["data", "id", "event", "foo"]))
        else:
            lines.append(rng.choice(["foo:bar", "datax:1", "Data:q"]))
    out = bytearray(b"\xef\xbb\xbf" if rng.random() < 0.15 else b"")
    prev = None
    for i, ln in enumerate(lines):
        out.extend(ln.encode("utf-8"))
        eol = rng.choice([b"\r", b"\n", b"\r\n"])
        nxt_blank = i + 1 < len(lines) and lines[i + 1] == ""
        if ln == "" and prev == b"\r" and eol == b"\n":
            eol = rng.choice([b"\r", b"\r\n"])      # CR + (empty line, LF) would read as one CR LF
        out.extend(eol)
        prev = eol
        del nxt_blank
    out.extend(b":\n")
    return bytes(out)


def _jobs(o):
    return {"events": [{"id": list(e["id"]), "name": list(e["name"]), "data": list(e["data"])} for e in o["events"]],
            "retry": o["retry"], "leid": list(o["leid"])}


def random_execution(rng):
    wire = random_stream(rng)
    flavor = rng.choice(FLAVORS)
    ad = SseAdapter(flavor, to_syms(wire))
    evs = [{"ev": "Init", "flavor": flavor, "wire": list(to_syms(wire))}]
    npieces = rng.choice([1, 2, 3, 5, 8, 13])
    cuts = sorted(set(rng.randint(1, len(wire)) for _ in range(npieces - 1)) | {len(wire)})
    pos = 0

    def parse(name):
        ad.call(name, ())
        e = {"ev": name}
        if ad.settled():
            e["obs"] = _jobs(ad.obs())
        evs.append(e)

    try:
        for c in cuts:
            ad.call("Deliver", (c - pos,))
            evs.append({"ev": "Deliver", "k": c - pos})
            pos = c
            parse("Parse")
            if rng.random() < 0.15:
                parse("ParseAgain")
    except Exception as ex:
        return evs, ex, wire
    return evs, None, wire


def _short(evs):
    out = []
    for e in evs:
        e = dict(e)
        if "wire" in e:
            e["wire"] = repr(to_bytes(e["wire"]))
        out.append(e)
    return out


def run_c33(ctx):
    ctx.rule = ("A: complete state graph of SseMC.tla (8 rule streams x 6 ending patterns, short streams x every assignment of "
                "CR/LF/CRLF, byte order mark; every split into <= 3 pieces), every edge replayed on EventSource and on "
                "Respondent (until close / chunked); events, retry and last id compared after every parse (not while the "
                "last byte is a CR); B: seeded random streams/endings/splits validated by TLC against SseTrace.tla; "
                "distinct = graph edges x 3 set-ups + accepted traces")
    level = ctx.pick(1, 2)
    work = env.subdir("c33")
    table_path = work + "/table.json"
    dot = work + "/g.dot"
    res = tlc.run("SseMC", MC_CFG % (level, 3), spec_dir=SPEC_DIR, dump_dot=dot, extra_env={"TABLE_OUT": table_path}, tag="c33mc", timeout=40000)
    ctx.add_model(res, "SseMC", {"Level": level, "MaxPieces": 3})
    if not res.ok:
        ctx.diverge(Divergence("C33", "model", res.error_name or res.error, "SseMC", "specification property violated in the model",
                               steps=[{"action": a, "state": s} for a, s in res.trace]))
        return
    tlc.require_coverage(res, ["Deliver", "Parse", "ParseAgain"], "SseMC")
    table = json.load(open(table_path))
    g = graph.load_dot(dot)
    paths = graph.edge_cover(g, max_len=12)
    traces = replay.graph_paths_to_traces(g, paths)
    total, cov = g.nedges, graph.covered_edges(paths)
    nsteps = 0
    for fl in FLAVORS:
        def mk(init, fl=fl):
            return SseAdapter(fl, table[init["sc"] - 1]["wire"])
        n, divs = replay.replay("C33", traces, mk, keys={"obs"})
        nsteps += n
        for d in divs:
            sc = d.steps[0]["state"]["sc"] if d.steps else 0
            if sc:
                d.extra["wire"] = repr(to_bytes(table[sc - 1]["wire"]))
                d.extra["pieces"] = [s["action"] for s in d.steps[1:]]
            d.where = "%s:%s" % (fl, d.where)
        ctx.diverge(divs)
    mid = traces[len(traces) // 2]
    ctx.add_validated(len(traces) * len(FLAVORS), {"wire": repr(to_bytes(table[mid[0][2]["sc"] - 1]["wire"])), "path": [s[0] for s in mid]})
    # binding B
    rng = random.Random(ctx.seed)
    ntr = ctx.pick(600, 12000)
    trs = []
    nexc = 0
    for i in range(ntr):
        evs, ex, wire = random_execution(rng)
        if ex is not None:
            nexc += 1
            if nexc <= 10:
                ctx.diverge(Divergence("C33", "exception", "Parse", "%s:%s" % (evs[0]["flavor"], replay.innermost_ioflo_frame(ex.__traceback__)),
                                       "%s: %s" % (type(ex).__name__, str(ex)[:200]), steps=_short(evs), extra={"wire": repr(wire)}))
            continue
        trs.append(evs)
    out = trace.validate("SseTrace", TRACE_CFG, SPEC_DIR, trs, batch=ctx.pick(300, 500), timeout=40000)
    ctx.states += out.states
    ctx.transitions += out.generated
    if trs:
        ctx.add_validated(len(out.accepted), {"flavor": trs[0][0]["flavor"], "wire": repr(to_bytes(trs[0][0]["wire"])),
                                              "events": [e["ev"] + str(e.get("k", "")) for e in trs[0][1:12]]})
    for i, pref in sorted(out.rejected.items())[:10]:
        ev = trs[i][pref] if 0 <= pref < len(trs[i]) else {}
        ctx.diverge(Divergence("C33", "rejected", ev.get("ev", "?"), "%s:trace" % trs[i][0]["flavor"],
                               "recorded execution is not a behaviour of Sse.tla at event %d: %s" % (pref + 1, json.dumps(ev)[:300]),
                               steps=_short(trs[i][:pref + 1]), extra={"wire": repr(to_bytes(trs[i][0]["wire"]))}))
    for (i, err, name, tr) in out.model_errors[:5]:
        ctx.diverge(Divergence("C33", "rejected", name or err, "trace-invariant", "invariant %s violated on a recorded execution" % name,
                               steps=_short(trs[i])))
    ctx.exhaustive = (cov == total)
    ctx.extra.update({"scenarios": len(table), "graph_edges": total, "edges_replayed": cov, "replay_steps": nsteps,
                      "random_executions": ntr, "random_traces_accepted": len(out.accepted),
                      "distinct_nontrivial": cov * len(FLAVORS) + len(out.accepted), "evaluations": nsteps + sum(len(t) for t in trs)})


PROPERTIES = {"C33": run_c33}
