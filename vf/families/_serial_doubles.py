"""Doubles for ioflo.aio.serial.serialing (extra check X-serial); not a family itself.

FakePort is the environment of Serial.tla: a tty / serial device with an input queue (bytes the far side produced and
nobody read yet), a wire (bytes accepted from writes), a set of open handles and per-call answer plans.  Three thin views
let the code under test reach it the way it reaches a real device:

    FakeOs         stands in for `os` inside serialing (open / read / write / close / ctermid on fake descriptors)
    FakeTermios    stands in for the termios module DeviceNb.open imports (settings kept per port)
    FakeSerialMod  stands in for pyserial (`import serial`): Serial(port=, baudrate=, timeout=, writeTimeout=) objects

Answers (Serial.tla): reads  "data" (the port hands out min(n, readable) bytes) | "eagain" | "empty" | "error";
                      writes ("full",) | ("part", n) | ("zero",) | ("eagain",) | ("error",);   opens "ok" | "fail".
An empty plan answers naturally: data when there is some, else would-block (os) / nothing (pyserial); writes are
accepted in full; opens succeed.  No kernel object is created.
"""
import errno
import os as _os
import termios as _termios
from collections import deque

_handle = [20000]


class Injected(OSError):
    """the error the environment answered with (so the harness can tell it from any other OSError)"""


class FakeSerialException(IOError):
    """pyserial's SerialException (an IOError)"""


class FakePort(object):
    def __init__(self, path="/dev/ttyFAKE0", canonical=False):
        self.path = path
        self.canonical = canonical
        self.inq = bytearray()
        self.nread = 0
        self.wire = bytearray()
        self.handles = set()
        self.nopens = 0
        self.open_plan = deque()
        self.read_plan = deque()
        self.write_plan = deque()
        self.calls = []            # (op, outcome, n)
        self.misuse = []           # operations on a handle that is not open
        self.flush_on_last_close = False
        self.flags = []            # os.open flags seen
        self.serial_args = []      # keyword arguments of serial.Serial(...)
        self.resets = []
        # what a fresh tty looks like: canonical, echoing
        self.attrs = [_termios.ICRNL | _termios.IXON, _termios.OPOST | _termios.ONLCR, _termios.CS7 | _termios.PARENB | _termios.CREAD,
                      _termios.ICANON | _termios.ECHO | _termios.ISIG | _termios.IEXTEN, _termios.B38400, _termios.B38400,
                      [b"\x00"] * 32]
        self.tcsets = 0

    # ---- environment side
    def type(self, b):
        self.inq.extend(b)

    def readable(self):
        if not self.canonical:
            return bytes(self.inq)
        i = self.inq.find(b"\n")
        return bytes(self.inq[:i + 1]) if i >= 0 else b""

    def flush_input(self):
        del self.inq[:]

    # ---- handle side
    def open(self):
        ans = self.open_plan.popleft() if self.open_plan else "ok"
        if ans != "ok":
            self.calls.append(("open", "fail", 0))
            return None
        _handle[0] += 1
        h = _handle[0]
        self.handles.add(h)
        self.nopens += 1
        self.calls.append(("open", "ok", h))
        return h

    def _check(self, op, h):
        if h not in self.handles:
            self.misuse.append((op, h))
            self.calls.append((op, "EBADF", 0))
            raise OSError(errno.EBADF, _os.strerror(errno.EBADF))

    def close(self, h):
        self._check("close", h)
        self.handles.discard(h)
        self.calls.append(("close", "ok", h))
        if not self.handles and self.flush_on_last_close:
            self.flush_input()

    def read(self, h, n, pyserial=False):
        self._check("read", h)
        have = self.readable()
        ans = self.read_plan.popleft() if self.read_plan else ("data" if have else ("empty" if pyserial else "eagain"))
        if ans == "data":
            if not have:
                raise AssertionError("harness: a read was planned to yield data but the port has none")
            d = have[:max(0, int(n))]
            del self.inq[:len(d)]
            self.nread += len(d)
            self.calls.append(("read", "data", len(d)))
            return d
        if ans == "empty":
            self.calls.append(("read", "empty", 0))
            return b""
        if ans == "eagain":
            self.calls.append(("read", "eagain", 0))
            raise BlockingIOError(errno.EAGAIN, _os.strerror(errno.EAGAIN))
        if ans == "error":
            self.calls.append(("read", "error", 0))
            raise (FakeSerialException("device reports readiness to read but returned no data (scripted)") if pyserial
                   else Injected(errno.EIO, _os.strerror(errno.EIO)))
        raise AssertionError("harness: unknown read answer %r" % (ans,))

    def write(self, h, data, pyserial=False):
        if not isinstance(data, (bytes, bytearray, memoryview)):
            raise TypeError("a bytes-like object is required, not '%s'" % type(data).__name__)   # as os.write does
        self._check("write", h)
        ans = self.write_plan.popleft() if self.write_plan else ("full",)
        n = len(data)
        k = ans[0]
        if k == "eagain":
            self.calls.append(("write", "eagain", 0))
            raise BlockingIOError(errno.EAGAIN, _os.strerror(errno.EAGAIN))
        if k == "error":
            self.calls.append(("write", "error", 0))
            raise (FakeSerialException("write failed (scripted)") if pyserial else Injected(errno.EIO, _os.strerror(errno.EIO)))
        c = n if k == "full" else min(int(ans[1]), n) if k == "part" else 0
        if k not in ("full", "part", "zero"):
            raise AssertionError("harness: unknown write answer %r" % (ans,))
        self.wire.extend(bytes(data[:c]))
        # (a zero length write: the answer planned is what is logged, its count is 0 whatever it was)
        self.calls.append(("write", k if n == 0 else "full" if c == n else "part" if c else "zero", c))
        return c


class FakeOs(object):
    """`os` as serialing sees it: descriptors of registered ports are fake, everything else is the real module's"""

    def __init__(self, *ports):
        self.ports = {p.path: p for p in ports}
        self.term = ports[0].path if ports else "/dev/tty"
        self.by_handle = {}

    def ctermid(self):
        return self.term

    def open(self, path, flags, mode=0o777):
        p = self.ports.get(path)
        if p is None:
            raise FileNotFoundError(errno.ENOENT, _os.strerror(errno.ENOENT), path)
        p.flags.append(flags)
        h = p.open()
        if h is None:
            raise Injected(errno.ENOENT, _os.strerror(errno.ENOENT), path)
        self.by_handle[h] = p
        return h

    def _port(self, fd):
        p = self.by_handle.get(fd)
        if p is None:
            raise OSError(errno.EBADF, _os.strerror(errno.EBADF))
        return p

    def read(self, fd, n):
        return self._port(fd).read(fd, n)

    def write(self, fd, data):
        return self._port(fd).write(fd, data)

    def close(self, fd):
        return self._port(fd).close(fd)

    def __getattr__(self, name):
        return getattr(_os, name)


class FakeTermios(object):
    """termios as DeviceNb.open sees it (constants are the real ones)"""

    def __init__(self, fakeos):
        self.fakeos = fakeos

    def tcgetattr(self, fd):
        p = self.fakeos._port(fd)
        p._check("tcgetattr", fd)
        a = list(p.attrs)
        a[6] = list(a[6])
        return a

    def tcsetattr(self, fd, when, attrs):
        p = self.fakeos._port(fd)
        p._check("tcsetattr", fd)
        p.attrs = list(attrs)
        p.tcsets += 1

    def __getattr__(self, name):
        return getattr(_termios, name)


class FakeSerialObj(object):
    def __init__(self, port, handle, timeout, write_timeout):
        self._port = port
        self._h = handle
        self.port = port.path
        self.timeout = timeout
        self.write_timeout = write_timeout
        self.is_open = True

    def read(self, size=1):
        return self._port.read(self._h, size, pyserial=True)

    def write(self, data):
        return self._port.write(self._h, data, pyserial=True)

    def reset_input_buffer(self):
        self._port._check("reset_input_buffer", self._h)
        self._port.resets.append("input")
        self._port.flush_input()

    def reset_output_buffer(self):
        self._port._check("reset_output_buffer", self._h)
        self._port.resets.append("output")

    def close(self):
        self._port.close(self._h)
        self.is_open = False


class FakeSerialMod(object):
    """what `import serial` yields"""
    SerialException = FakeSerialException

    def __init__(self, *ports):
        self.ports = {p.path: p for p in ports}
        self.__name__ = "serial"

    def Serial(self, port=None, baudrate=9600, timeout=None, writeTimeout=None, write_timeout=None, **kw):
        p = self.ports.get(port)
        if p is None:
            raise FakeSerialException("could not open port %r (scripted: no such port)" % (port,))
        wt = writeTimeout if write_timeout is None else write_timeout
        p.serial_args.append({"baudrate": baudrate, "timeout": timeout, "write_timeout": wt})
        h = p.open()
        if h is None:
            raise FakeSerialException("could not open port %r (scripted)" % (port,))
        return FakeSerialObj(p, h, timeout, wt)
