"""X-pokes - the data-moving verbs of FloScript (specs/pokes/Pokes.tla): put / copy / set / inc, bid ... at period, done.

Binding C (PokesTable.tla): TLC enumerates small verb instances over a store of two shares x fields value / x / y
  (all destination / source field lists, direct data forms, share shapes, value kinds, every verb with every
  connective), checks the properties of Pokes.tla on each one-instance program and writes the table
  instance, store |-> refused / store after the build / admissible stores after the act.  Every row is printed as a
  FloScript program, built by the real Builder, run by the real Skedder, and the store (fields in order, values, stamps)
  is compared after the build and after the run.
Binding B (PokesTrace.tla): seeded random programs of several instances (three shares, the verbs in enter / recur / exit
  contexts of successive frames, bids with periods read from shares, done) are built and run with out-of-tree wrappers
  around Act.resolve and Act.__call__ that log every resolution and every act with the store after it; TLC decides
  whether each recorded execution is a behaviour of Pokes.tla.
Model (PokesMC.tla): all programs of two instances from a reduced instance space, every resolution order, every
  interleaving of acts over two ticks: the invariants and action properties of Pokes.tla.
"""
import json
import multiprocessing
import os
import random
import signal
from concurrent.futures import ThreadPoolExecutor
from fractions import Fraction

from .. import env, tlc, trace
from ..replay import Divergence, innermost_ioflo_frame
from ..tlc import TlcError

PROP = "X-pokes"
SPEC_DIR = env.SPECS + "/pokes"
NONE = -1000
NOSTAMP = -1
STRBASE = 10000
PERIOD = Fraction(1, 8)
ROOT = ".vf."               # the shares of the model live under this node of the store
MOVES = ("put", "copy", "set", "inc")

PROPERTIES_CFG = """INVARIANT WellFormed
INVARIANT ValueAlone
INVARIANT StampNotAhead
INVARIANT RunMeansResolved
PROPERTY BuildOnlyCreates
PROPERTY RefusedIsFinal
PROPERTY OnlyDestination
PROPERTY ListedFieldsOnly
PROPERTY DestinationStamped
PROPERTY PositionalTransfer
PROPERTY IncAddsFieldwise
PROPERTY NonNumbersStay
PROPERTY ControlOnly
CHECK_DEADLOCK FALSE
"""

# ------------------------------------------------------------------------------------------------------------------
# printing instances as FloScript
# ------------------------------------------------------------------------------------------------------------------


def val_text(v):
    if v == NONE:
        return "none"
    if v >= STRBASE:
        return '"s%d"' % v
    return "%d" % v


def val_code(x):
    """python value found in a share -> value code of the specification (a text no code stands for -> itself)"""
    if x is None:
        return NONE
    if isinstance(x, bool):
        return "<bool %r>" % x
    if isinstance(x, str):
        if x[:1] == "s" and x[1:].isdigit() and int(x[1:]) >= STRBASE:
            return int(x[1:])
        return "<str %r>" % x
    if isinstance(x, (int, float)):
        try:
            f = Fraction(x)
        except (ValueError, OverflowError):
            return "<%r>" % x
        return int(f) if f.denominator == 1 else "<%r>" % x
    return "<%s %r>" % (type(x).__name__, x)


def val_int(x):
    """as val_code, but always an integer (traces go to TLC): a text / value no code stands for gets a code of its own
    beyond the ones the specification can produce"""
    import zlib
    c = val_code(x)
    return c if isinstance(c, int) else 20000 + zlib.crc32(c.encode()) % 10000


def fields_text(fl):
    return (" ".join(fl) + " in ") if fl else ""


def data_text(I, bare=False):
    if bare and list(I["dk"]) == ["value"]:
        return val_text(I["dv"][0])
    return " ".join("%s %s" % (k, val_text(v)) for k, v in zip(I["dk"], I["dv"]))


def line_of(I, bare=False):
    verb = I["verb"]
    if verb in MOVES:
        dst = "%s%s%s" % (fields_text(I["dfl"]), ROOT, I["dst"])
        oper = data_text(I, bare) if I["form"] == "direct" else "%s%s%s" % (fields_text(I["sfl"]), ROOT, I["src"])
        if verb in ("put", "copy"):
            return "%s %s %s %s" % (verb, oper, I["conn"], dst)
        return "%s %s %s %s" % (verb, dst, I["conn"], oper)
    if verb == "bid":
        s = "bid %s %s" % (I["ctl"], " ".join(I["who"]))
        if I["pk"] == "lit":
            s += " at %d" % I["pv"]
        elif I["pk"] == "ind":
            s += " at %s%s%s" % (fields_text(I["sfl"]), ROOT, I["src"])
        return s
    if verb == "done":
        return ("done %s" % " ".join(I["who"])).strip()
    raise ValueError(verb)


def init_lines(store0):
    out = []
    for name in sorted(store0):
        sh = store0[name]
        if sh["keys"]:
            out.append("init %s%s with %s" % (ROOT, name, " ".join("%s %s" % (k, val_text(v)) for k, v in zip(sh["keys"], sh["vals"]))))
    return out


def one_instance_script(row):
    """the instance acts once, on entry of frame f1 at tick 1"""
    lines = ["house h1", ""] + init_lines(row["store"]) + ["", "framer f be active first f0", "  frame f0", "    go next",
                                                           "  frame f1", "    " + line_of(row["I"], row["bare"]), "    go next",
                                                           "  frame f2", "    bid stop me", ""]
    return "\n".join(lines)


# ------------------------------------------------------------------------------------------------------------------
# the real builder and scheduler
# ------------------------------------------------------------------------------------------------------------------

_ready = False


class StepTimeout(BaseException):
    pass


def _setup():
    global _ready
    if _ready:
        return
    _ready = True
    env.use_repo()
    import collections.abc  # noqa: F401
    from ioflo.aid import consoling
    consoling.getConsole().reinit(verbosity=0)


def _alarm(signum, frame):
    raise StepTimeout()


class deadline:
    """a step of the code under test that does not return is a divergence, not a hang of the check"""

    def __init__(self, seconds):
        self.seconds = seconds

    def __enter__(self):
        self.old = signal.signal(signal.SIGALRM, _alarm)
        signal.setitimer(signal.ITIMER_REAL, self.seconds, 5)

    def __exit__(self, *a):
        signal.setitimer(signal.ITIMER_REAL, 0)
        signal.signal(signal.SIGALRM, self.old)
        return False


def build(text, workdir, tag=""):
    """-> (skedder | None, None | (exception name, message, where));  a refusal is ('Refused', ...)"""
    from ioflo.base import skedding, excepting
    path = os.path.join(workdir, "k%d%s.flo" % (os.getpid(), tag))
    with open(path, "w") as f:
        f.write(text)
    sk = skedding.Skedder(name="vf", period=float(PERIOD), real=False, filepath=path)
    try:
        ok = sk.build()
    except (excepting.ParseError, excepting.ResolveError) as ex:
        return None, ("Refused", "%s: %s" % (type(ex).__name__, str(ex)[:200]), "")
    except Exception as ex:
        return None, (type(ex).__name__, str(ex)[:200], innermost_ioflo_frame(ex.__traceback__))
    if not ok:
        return None, ("Refused", "build returned False", "")
    return sk, None


def snapshot(store, names, ints=False):
    """the shares of the model as the specification sees them"""
    code = val_int if ints else val_code
    out = {}
    for n in names:
        sh = store.fetch(ROOT.lstrip(".") + n)
        if sh is None or not hasattr(sh, "keys"):
            out[n] = {"keys": [], "vals": [], "stamp": NOSTAMP}
            continue
        keys = list(sh.keys())
        if sh.stamp is None:
            stamp = NOSTAMP
        else:
            q = Fraction(sh.stamp) / PERIOD
            stamp = int(q) if q.denominator == 1 else (7777 if ints else "<%r>" % sh.stamp)
        out[n] = {"keys": keys, "vals": [code(sh[k]) for k in keys], "stamp": stamp}
    return out


def run_ticks(sk, max_ticks, on_tick=None):
    """Skedder.run(), interrupted (keyboard interrupt between ticks: the documented quiet way out) before tick max_ticks"""
    from ioflo.base import storing
    orig = storing.Store.changeStamp
    state = {"n": 0}

    def change_stamp(self, stamp):
        if state["n"] >= max_ticks:
            raise KeyboardInterrupt()
        orig(self, stamp)
        if on_tick:
            on_tick(state["n"], self)
        state["n"] += 1

    storing.Store.changeStamp = change_stamp
    try:
        sk.run()
    finally:
        storing.Store.changeStamp = orig
    return state["n"]


def show_store(st):
    return "; ".join("%s{%s}@%s" % (n, ", ".join("%s=%s" % (k, _sv(v)) for k, v in zip(s["keys"], s["vals"])),
                                    "-" if s["stamp"] == NOSTAMP else s["stamp"]) for n, s in sorted(st.items()))


def _sv(v):
    return "None" if v == NONE else ("'s%d'" % v if isinstance(v, int) and STRBASE <= v < 20000 else
                                     "<other value %d>" % v if isinstance(v, int) and v >= 20000 else str(v))


# ------------------------------------------------------------------------------------------------------------------
# binding C: replay of the table
# ------------------------------------------------------------------------------------------------------------------

def replay_rows(job):
    """-> (rows replayed, observations, [divergence dicts])"""
    rows, workdir = job
    _setup()
    divs = []
    nobs = 0

    def bad(row, kind, where, detail, expected=None, actual=None, script=None):
        if len(divs) < 60:
            I = row["I"]
            divs.append({"kind": kind, "action": "%s-%s" % (I["verb"], I["form"]), "where": where, "detail": detail,
                         "expected": expected, "actual": actual, "script": script})

    for row in rows:
        if row["unspec"]:
            continue
        I = row["I"]
        names = sorted(row["store"])
        text = one_instance_script(row)
        line = line_of(I, row["bare"])
        ctx = "`%s` on %s" % (line, show_store(row["store"]))
        try:
            with deadline(60):
                sk, err = build(text, workdir)
        except StepTimeout:
            bad(row, "nontermination", "Builder.build", "%s: the build does not return" % ctx, script=text)
            continue
        nobs += 1
        if sk is None:
            if err[0] != "Refused":
                bad(row, "exception", err[2], "%s: %s: %s" % (ctx, err[0], err[1]), script=text)
            elif row["res"] == "ok":
                bad(row, "table-mismatch", "build", "%s: refused by the builder (%s), documented: builds" % (ctx, err[1]),
                    "builds", "refused", text)
            continue
        if row["res"] == "error":
            got = snapshot(sk.houses[0].store, names)
            bad(row, "table-mismatch", "build", "%s: builds (store then %s), documented: refused" % (ctx, show_store(got)),
                "refused", "builds", text)
            continue
        store = sk.houses[0].store
        got = snapshot(store, names)
        nobs += 1
        if got != row["built"]:
            bad(row, "table-mismatch", "resolve", "%s: after the build the store is %s, documented %s" % (ctx, show_store(got), show_store(row["built"])),
                row["built"], got, text)
            continue
        try:
            with deadline(60):
                ticks = run_ticks(sk, 6)
        except StepTimeout:
            bad(row, "nontermination", "Skedder.run", "%s: the run does not return" % ctx, script=text)
            continue
        except Exception as ex:
            bad(row, "exception", innermost_ioflo_frame(ex.__traceback__), "%s: run raised %s: %s" % (ctx, type(ex).__name__, str(ex)[:160]),
                script=text)
            continue
        if ticks >= 6:
            bad(row, "nontermination", "Skedder.run", "%s: the three-frame script did not stop within 6 ticks" % ctx, script=text)
            continue
        got = snapshot(store, names)
        nobs += 1
        if got not in row["outs"]:
            bad(row, "table-mismatch", "act", "%s: after the act at tick 1 the store is %s, documented %s" % (
                ctx, show_store(got), " or ".join(show_store(o) for o in row["outs"])), row["outs"], got, text)
    return len(rows), nobs, divs


def table_cfg(families, shards, nshards):
    return ("SPECIFICATION Spec\nCONSTANTS\n  Families = {%s}\n  Shards = {%s}\n  NShards = %d\n" % (
        ", ".join(str(f) for f in families), ", ".join(str(x) for x in shards), nshards)) + PROPERTIES_CFG


# ------------------------------------------------------------------------------------------------------------------
# binding B: random programs, recorded executions
# ------------------------------------------------------------------------------------------------------------------

DATA_SHARES = ("a", "b", "c")
ALL_SHARES = ("a", "b", "c", "p")          # p holds the periods bids read: only numbers are written to it
FRAMERS = ("f", "g", "h", "s")             # f acts; g, h inactive (targets of bids); s slave (target of done)
SHAPES = ((), ("value",), ("x",), ("y",), ("x", "y"), ("y", "x"), ("x", "y", "z"))
BLANK = {"verb": "", "conn": "", "form": "direct", "dst": "a", "dfl": [], "dk": [], "dv": [], "src": "a", "sfl": [],
         "ctl": "", "who": [], "pk": "none", "pv": 0}


def _rand_value(rng, numeric=False):
    r = rng.random()
    if numeric or r < 0.8:
        return rng.choice((-3, -1, 0, 1, 2, 3, 4, 5, 7, 9))
    if r < 0.9:
        return NONE
    return STRBASE + rng.randrange(1, 4)


def _rand_list(rng, source=False):
    r = rng.random()
    if r < 0.4:
        return []
    if r < 0.7:
        return [rng.choice(("value", "x", "y", "z"))]
    if r < 0.93:
        return rng.sample(("x", "y", "z"), 2)
    if r < 0.96:
        return ["value", "x"]
    return ["x", "x"] if source else rng.sample(("x", "y", "z"), 3)


def _rand_instance(rng, pkeys=()):
    I = dict(BLANK)
    r = rng.random()
    if r < 0.72:
        verb = rng.choice(("put", "copy", "set", "set", "inc", "inc"))
        direct = verb == "put" or (verb != "copy" and rng.random() < 0.5)
        I.update(verb=verb, form="direct" if direct else "indirect",
                 conn="into" if verb in ("put", "copy") else ("with" if direct else "from"))
        if rng.random() < 0.02:     # a connective that is not the verb's whatever the operand is read as
            I["conn"] = rng.choice({"put": ("with", "from", "to", "by"), "copy": ("with", "from", "to", "by"),
                                    "set": ("to", "by", "into"), "inc": ("by", "into")}[verb])
        I["dfl"] = _rand_list(rng)
        if direct:
            top = rng.random() < 0.12
            I["dst"] = "p" if top else rng.choice(DATA_SHARES)
            n = len(I["dfl"]) if I["dfl"] and rng.random() < 0.85 else rng.choice((1, 1, 2))
            if n == 1 and rng.random() < 0.5:
                I["dk"] = ["value"]
            else:
                I["dk"] = I["dfl"][:] if len(I["dfl"]) == n and rng.random() < 0.5 else rng.sample(("x", "y", "z"), n)
            I["dv"] = [_rand_value(rng, numeric=top or verb == "inc" and rng.random() < 0.8) for _ in I["dk"]]
        else:
            I["dst"] = rng.choice(DATA_SHARES)
            I["src"] = rng.choice(ALL_SHARES)
            I["sfl"] = _rand_list(rng, source=True)
            if I["dfl"] and I["sfl"] and len(I["dfl"]) != len(I["sfl"]) and rng.random() < 0.9:
                I["sfl"] = I["sfl"][:len(I["dfl"])] if len(I["sfl"]) > len(I["dfl"]) else I["sfl"]
                I["dfl"] = I["dfl"][:len(I["sfl"])]
        return I
    if r < 0.9:
        ctl = rng.choice(("start", "start", "run", "ready", "stop", "abort"))
        who = rng.choice((["g"], ["h"], ["g", "h"], ["me", "g"], ["me"])) if ctl in ("start", "run", "ready") else rng.choice((["g"], ["h"], ["g", "h"]))
        I.update(verb="bid", ctl=ctl, who=who)
        if ctl in ("start", "run", "ready"):
            r2 = rng.random()
            if r2 < 0.35:
                I.update(pk="lit", pv=rng.choice((-2, 0, 1, 2, 3, 5)))
            elif r2 < 0.75 and pkeys:
                # the period is read from a field the share p starts with (a missing field would be created by the actor
                # with a value the documentation does not name)
                I.update(pk="ind", src="p", sfl=[] if "value" in pkeys and rng.random() < 0.6 else [rng.choice(pkeys)])
        return I
    I.update(verb="done", who=rng.choice(([], ["me"], ["s"], ["s", "me"])))
    return I


def _rand_store(rng):
    st = {}
    for n in DATA_SHARES:
        shape = rng.choice(SHAPES)
        st[n] = {"keys": list(shape), "vals": [_rand_value(rng) for _ in shape], "stamp": NOSTAMP}
    shape = rng.choice((("value",), ("x", "y"), ("x",), ()))
    st["p"] = {"keys": list(shape), "vals": [rng.choice((-3, -2, -1, 0, 1, 2, 3, 5)) for _ in shape], "stamp": NOSTAMP}
    return st


def program_script(prog):
    """prog = {"store", "insts", "frames": [{"stay": ticks, "enter": [k], "recur": [k], "exit": [k]}]}  (k from 1)
    -> (text, {line number: k})"""
    lines = ["house h1"] + init_lines(prog["store"])
    lines.append("framer f be active first f1")
    where = {}
    for i, fr in enumerate(prog["frames"], 1):
        lines.append("  frame f%d" % i)
        for ctx in ("enter", "recur", "exit"):
            if fr[ctx]:
                lines.append("    " + ctx)
                for k in fr[ctx]:
                    lines.append("    " + line_of(prog["insts"][k - 1]))
                    where[len(lines)] = k
        lines.append("    native")
        lines.append("    go next" + (" if recurred >= %d" % fr["stay"] if fr["stay"] > 0 else ""))
    lines.append("  frame f%d" % (len(prog["frames"]) + 1))
    lines.append("    bid stop me")
    for t, sched in (("g", "inactive"), ("h", "inactive"), ("s", "slave")):
        lines.append("framer %s be %s first %s1" % (t, sched, t))
        lines.append("  frame %s1" % t)
    return "\n".join(lines) + "\n", where


class _Rec:
    def __init__(self):
        self.active = False
        self.events = []
        self.where = {}
        self.lines = []
        self.ids = {}
        self.house = None
        self.lastctl = None
        self.error = None


REC = _Rec()
_wrapped = False
CONTROL = {}


def _instrument():
    """out-of-tree wrappers around Act.resolve and Act.__call__ (nothing in the repository is edited)"""
    global _wrapped
    if _wrapped:
        return
    _wrapped = True
    _setup()
    from ioflo.base import acting, globaling as G
    CONTROL.update({G.STOP: "stop", G.START: "start", G.RUN: "run", G.ABORT: "abort", G.READY: "ready"})
    orig_resolve = acting.Act.resolve
    orig_call = acting.Act.__call__

    def which(act):
        """the instance an act was built from: the instance line closest above the builder's (read ahead) line count"""
        ls = [ln for ln in REC.where if ln < act.count]
        if not ls:
            return None
        ln = max(ls)
        if " ".join(REC.lines[ln - 1].split()) != act.human:
            return None
        return REC.where[ln]

    def resolve(self, **kwa):
        fresh = REC.active and not isinstance(self.actor, acting.Actor)
        r = orig_resolve(self, **kwa)
        if fresh and isinstance(self.actor, acting.Actor) and self.act is None:
            k = which(self)
            if k is not None and k not in REC.ids.values():
                REC.ids[id(self)] = k
                REC.events.append({"ev": "Resolve", "k": k, "store": snapshot(self.frame.store, ALL_SHARES, True)})
        return r

    def call(self):
        k = REC.ids.get(id(self)) if REC.active else None
        if k is None:
            return orig_call(self)
        store = self.frame.store
        pre = control_state(REC.house)
        if pre != REC.lastctl:
            REC.events.append({"ev": "Sked", "ctl": pre[0], "dn": pre[1]})
        raised = ""
        try:
            return orig_call(self)
        except Exception as ex:
            raised = type(ex).__name__
            REC.error = (k, raised, str(ex)[:160], innermost_ioflo_frame(ex.__traceback__))
            raise
        finally:
            post = control_state(REC.house)
            REC.lastctl = post
            REC.events.append({"ev": "Act", "k": k, "raised": raised, "store": snapshot(store, ALL_SHARES, True),
                               "ctl": post[0], "dn": post[1]})

    acting.Act.resolve = resolve
    acting.Act.__call__ = call


def control_state(house):
    ctl, dn = {}, {}
    for t in house.framers:
        if t.name in FRAMERS:
            try:
                q = Fraction(t.period)
                per = int(q) if q.denominator == 1 else 7777
            except (TypeError, ValueError):
                per = 7778
            ctl[t.name] = {"desire": CONTROL.get(t.desire, str(t.desire)), "period": per}
            dn[t.name] = bool(t.done)
    return ctl, dn


def record(prog, workdir, max_ticks=None):
    """build and run prog with the real Builder / Skedder -> dict(events, error, text)"""
    _instrument()
    text, where = program_script(prog)
    REC.active = True
    REC.events = []
    REC.where = where
    REC.lines = text.split("\n")
    REC.ids = {}
    REC.error = None
    REC.house = None
    out = {"text": text, "error": None, "refused": False}
    events = REC.events
    try:
        with deadline(60):
            sk, err = build(text, workdir, "t")
        if sk is None:
            if err[0] != "Refused":
                out["error"] = ("exception", "Build", err[2], "%s: %s" % (err[0], err[1]))
            else:
                out["refused"] = True
                events.append({"ev": "Refuse"})
            return out
        house = sk.houses[0]
        REC.house = house
        first = control_state(house)
        REC.lastctl = first
        out["ctl"], out["dn"] = first
        need = sum(max(1, fr["stay"] + 1) for fr in prog["frames"]) + 3

        def on_tick(n, store):
            events.append({"ev": "Tick", "n": n})

        try:
            with deadline(60):
                run_ticks(sk, max_ticks or need, on_tick)
        except StepTimeout:
            out["error"] = ("nontermination", "Run", "Skedder.run", "the run does not return")
        except Exception as ex:
            if REC.error is None:
                out["error"] = ("exception", "Run", innermost_ioflo_frame(ex.__traceback__), "%s: %s" % (type(ex).__name__, str(ex)[:160]))
            else:
                out["raised"] = REC.error
    except StepTimeout:
        out["error"] = ("nontermination", "Build", "Builder.build", "the build does not return")
    finally:
        REC.active = False
        out["events"] = list(events)
    return out


def header(prog, rec):
    ctl = rec.get("ctl") or {t: {"desire": "stop", "period": 0} for t in FRAMERS}
    dn = rec.get("dn") or {t: False for t in FRAMERS}
    return {"ev": "Header", "prog": prog["insts"], "store": prog["store"], "ctl": ctl, "dn": dn}


def gen_program(rng, workdir, builds=True):
    """a random program; instances are drawn until the real builder accepts the script so far (most of the time), so
    that executions are long; the builder only steers the generation, the verdict is TLC's"""
    _setup()
    store = _rand_store(rng)
    nframes = rng.choice((1, 2, 2, 3, 3, 4))
    frames = [{"stay": rng.choice((0, 0, 0, 1, 2)), "enter": [], "recur": [], "exit": []} for _ in range(nframes)]
    insts = []
    n = rng.choice((2, 3, 4, 5, 6, 7))
    for _ in range(n):
        strict = rng.random() < 0.93
        for attempt in range(8):
            I = _rand_instance(rng, store["p"]["keys"])
            fr = rng.randrange(nframes)
            ctx = rng.choice(("enter", "enter", "enter", "recur", "recur", "exit"))
            if ctx == "recur" and frames[fr]["stay"] == 0 and rng.random() < 0.7:
                frames[fr]["stay"] = rng.choice((1, 2))
            insts.append(I)
            frames[fr][ctx].append(len(insts))
            if not strict:
                break
            text, _ = program_script({"store": store, "insts": insts, "frames": frames})
            sk, err = build(text, workdir, "g")
            if sk is not None:
                break
            frames[fr][ctx].pop()
            insts.pop()
    if not insts:
        I = dict(BLANK)
        I.update(verb="done")
        insts.append(I)
        frames[0]["enter"].append(1)
    return {"store": store, "insts": insts, "frames": frames}


def record_batch(job):
    """-> [(prog, rec)]"""
    seed, count, workdir = job
    rng = random.Random(seed)
    out = []
    for _ in range(count):
        prog = gen_program(rng, workdir)
        rec = record(prog, workdir)
        out.append((prog, rec))
    return out


TRACE_CFG = "SPECIFICATION TraceSpec\nCONSTRAINT TraceOK\n" + PROPERTIES_CFG


# ------------------------------------------------------------------------------------------------------------------
# the check
# ------------------------------------------------------------------------------------------------------------------

TABLE_SHARDS = 41           # the instance space is cut into this many shards (a prime: no aliasing with the radices)
TABLE_ACTIONS = ["Resolve", "RefuseParse", "RefuseResolve", "Clock", "Act1"]
MC_ACTIONS = ["Building", "Refusing", "Clock", "Rewrite", "Acting", "Raising"]
MC_QUICK = {"Shapes": (1, 4), "Lists": (5,), "SLists": (1,), "Datas": (3,), "Kinds": (1,), "MaxTick": 1, "MaxActs": 2}
MC_THOROUGH = {"Shapes": (1, 2, 4), "Lists": (1, 5), "SLists": (1, 5, 8), "Datas": (1, 3, 4), "Kinds": (1,), "MaxTick": 1, "MaxActs": 2}


def mc_cfg(c):
    def st(x):
        return "{%s}" % ", ".join(str(i) for i in x)
    return ("SPECIFICATION Spec\nCONSTANTS\n  Shapes = %s\n  Lists = %s\n  SLists = %s\n  Datas = %s\n  Kinds = %s\n  MaxTick = %d\n  MaxActs = %d\n"
            % (st(c["Shapes"]), st(c["Lists"]), st(c["SLists"]), st(c["Datas"]), st(c["Kinds"]), c["MaxTick"], c["MaxActs"])) + PROPERTIES_CFG


_seen = {}


def _report(ctx, divs):
    """at most three examples per (kind, action, where)"""
    for d in divs:
        sig = (d["kind"], d["action"], d["where"])
        if _seen.get(sig, 0) >= 3 or sum(_seen.values()) >= 30:
            continue
        _seen[sig] = _seen.get(sig, 0) + 1
        ctx.diverge(Divergence(PROP, d["kind"], d["action"], d["where"], d["detail"],
                               steps=[{"action": "Script", "state": {"script": d["script"].split("\n")}}] if d.get("script") else [],
                               expected=d.get("expected"), actual=d.get("actual")))


def _model_divergence(ctx, res, name):
    ctx.diverge(Divergence(PROP, "model", res.error_name or res.error, name,
                           "the specification violates its own property in the model",
                           steps=[{"action": a, "state": st} for a, st in res.trace]))


def _brief(e, prog=None):
    e = dict(e)
    if "store" in e:
        e["store"] = show_store(e["store"])
    if "prog" in e:
        e["prog"] = [line_of(I) for I in e["prog"]]
    if prog is not None and e.get("k"):
        e["line"] = line_of(prog["insts"][e["k"] - 1])
    return e


def run(ctx):
    import time
    work = env.subdir("pokes")
    rng = random.Random(ctx.seed)
    quick = ctx.quick
    ncpu = max(1, env.NCPU)
    jopts = {"JAVA_TOOL_OPTIONS": "-XX:TieredStopAtLevel=1"} if quick else {}
    walls = {}
    t00 = time.time()
    # the worker processes are forked before any thread exists; the three strands below share them
    pool = multiprocessing.get_context("fork").Pool(ncpu)

    # ---------------- strand 1: the table (TLC) and its replay on the real Builder / Skedder (binding C)
    shards = [ctx.seed % TABLE_SHARDS] if quick else list(range(TABLE_SHARDS))
    ngroups = 1 if quick else 6
    groups = [shards[i::ngroups] for i in range(ngroups)]                 # one TLC run per group of shards
    tlc_workers = max(1, ncpu // 2) if quick else max(1, min(4, ncpu // 2))

    def table_group(g):
        out = os.path.join(work, "table-%d.json" % g[0])
        res = tlc.run("PokesTable", table_cfg((1, 2, 3) if g[0] == shards[0] else (1, 2), g, TABLE_SHARDS), spec_dir=SPEC_DIR,
                      extra_env=dict(jopts, TABLE_OUT=out), workers=tlc_workers, timeout=6000, tag="pokes-table%d" % g[0])
        rows, replayed = [], []
        if res.ok:
            with open(out) as f:
                part = json.load(f)
            os.unlink(out)
            random.Random(ctx.seed + g[0]).shuffle(part)
            chunk = max(40, min(300, len(part) // (2 * ncpu) + 1))
            replayed = pool.map(replay_rows, [(part[i:i + chunk], work) for i in range(0, len(part), chunk)], chunksize=1)
            rows = [{k: r[k] for k in ("I", "bare", "store", "res", "built", "outs", "allok", "unspec")} for r in part]
        walls["table_%d" % g[0]] = round(time.time() - t00, 1)
        return [(g, res)], rows, replayed

    def table_strand():
        with ThreadPoolExecutor(max_workers=max(1, min(len(groups), ncpu // 4))) as ex:
            return list(ex.map(table_group, groups))

    # ---------------- strand 2: the model of two-instance programs
    def mc_strand():
        c = MC_QUICK if quick else MC_THOROUGH
        res = tlc.run("PokesMC", mc_cfg(c), spec_dir=SPEC_DIR, workers=max(1, ncpu // 2), timeout=3000, extra_env=jopts, tag="pokes-mc")
        walls["mc"] = round(time.time() - t00, 1)
        return c, res

    # ---------------- strand 3: recorded executions of random programs, validated by TLC (binding B)
    nprog = ctx.pick(240, 4000)
    per = 40
    seeds = [(rng.randrange(1 << 30), min(per, nprog - i), work) for i in range(0, nprog, per)]

    def trace_strand():
        recorded = [x for part in pool.map(record_batch, seeds, chunksize=1) for x in part]
        walls["recorded"] = round(time.time() - t00, 1)
        traces, progs, errors, counts = [], [], [], {}
        for prog, rec in recorded:
            if rec["error"]:
                errors.append((prog, rec))
                continue
            traces.append([header(prog, rec)] + rec["events"])
            progs.append((prog, rec))
            for e in rec["events"]:
                key = e["ev"] if e["ev"] != "Act" else "Act:" + prog["insts"][e["k"] - 1]["verb"] + (":raised" if e["raised"] else "")
                counts[key] = counts.get(key, 0) + 1
        out = trace.validate("PokesTrace", TRACE_CFG, SPEC_DIR, traces, batch=ctx.pick(240, 500), procs=max(1, ncpu // 2))
        walls["validated"] = round(time.time() - t00, 1)
        return recorded, traces, progs, errors, counts, out

    try:
        with ThreadPoolExecutor(max_workers=3) as ex:
            f1, f2, f3 = ex.submit(table_strand), ex.submit(mc_strand), ex.submit(trace_strand)
            tables = f1.result()
            mc_consts, mc_res = f2.result()
            recorded, traces, progs, errors, counts, out = f3.result()
    finally:
        pool.terminate()
        pool.join()
    ctx.extra["walls_s"] = walls

    # ---------------- models
    rows, replayed = [], []
    for results, part, rep in tables:
        for sh, res in results:
            ctx.add_model(res, "PokesTable/%d" % sh[0], {"Shards": list(sh), "NShards": TABLE_SHARDS})
            if not res.ok:
                _model_divergence(ctx, res, "PokesTable")
            else:
                tlc.require_coverage(res, TABLE_ACTIONS, "PokesTable shards %s" % (sh,))
        rows.extend(part)
        replayed.extend(rep)
    ctx.add_model(mc_res, "PokesMC", {k: list(v) if isinstance(v, tuple) else v for k, v in mc_consts.items()})
    if not mc_res.ok:
        _model_divergence(ctx, mc_res, "PokesMC")
    else:
        tlc.require_coverage(mc_res, MC_ACTIONS, "PokesMC")

    class _R:       # the validation runs, accounted for as one model
        pass
    tr_res = _R()
    tr_res.distinct, tr_res.generated, tr_res.coverage = out.states, out.generated, {}
    tr_res.summary = lambda: {"ok": not out.rejected and not out.model_errors, "error": None, "error_name": None, "generated": out.generated,
                              "distinct": out.states, "depth": 0, "wall_s": round(out.wall, 2)}
    ctx.add_model(tr_res, "PokesTrace", {"traces": len(traces)})
    if any(d.kind == "model" for d in ctx.divs):
        return
    # vacuity of the table: every verb built and refused, every way an act can end
    kinds = {(r["I"]["verb"], r["I"]["form"], r["res"]) for r in rows}
    need = {(v, f, r) for (v, f) in (("put", "direct"), ("set", "direct"), ("inc", "direct"), ("copy", "indirect"),
                                      ("set", "indirect"), ("inc", "indirect")) for r in ("ok", "error")} | {("inc", "direct", "either")}
    if not need <= kinds:
        raise TlcError("vacuous table (PokesTable): never produced: %s" % sorted(need - kinds))
    if not any(r["res"] != "error" and not r["allok"] and not r["unspec"] for r in rows) or \
            not any(len(r["outs"]) > 1 and r["allok"] for r in rows) or not any(r["built"] != r["store"] for r in rows):
        raise TlcError("vacuous table (PokesTable): no inc of a non-number / no overlapping transfer / no field created")

    # ---------------- binding C: verdicts
    nobs = 0
    for n, o, divs in replayed:
        nobs += o
        _report(ctx, divs)
    ok_rows = [r for r in rows if r["res"] == "ok" and r["outs"]]
    if ok_rows:
        r = ok_rows[0]
        ctx.add_validated(len(rows), {"line": line_of(r["I"], r["bare"]), "store": show_store(r["store"]),
                                      "after build": show_store(r["built"]), "after act": [show_store(o) for o in r["outs"]]})

    # ---------------- binding B: verdicts
    for prog, rec in errors:
        kind, action, where, detail = rec["error"]
        _report(ctx, [{"kind": kind, "action": action, "where": where, "script": rec["text"],
                       "detail": detail + " in the program " + "; ".join(line_of(I) for I in prog["insts"])}])
    missing = [k for k in ("Resolve", "Refuse", "Tick", "Sked", "Act:put", "Act:copy", "Act:set", "Act:inc", "Act:bid", "Act:done") if not counts.get(k)]
    if missing and not ctx.divs:
        raise TlcError("vacuous recording (PokesTrace): events never recorded: %s" % missing)
    for (i, err, name, tr) in out.model_errors:
        ctx.diverge(Divergence(PROP, "rejected", name or err, "PokesTrace", "a recorded execution violates %s: program %s" % (
            name or err, "; ".join(line_of(I) for I in progs[i][0]["insts"])), steps=[{"action": a, "state": st} for a, st in tr]))
    for i, plen in sorted(out.rejected.items()):
        prog, rec = progs[i]
        tr = traces[i]
        if plen < 0 or plen >= len(tr):
            ev, action, where = {"ev": "?"}, "?", "?"
        else:
            ev = tr[plen]
            I = prog["insts"][ev["k"] - 1] if ev.get("k") else None
            action = "%s-%s" % (I["verb"], I["form"]) if I and I["verb"] in MOVES else (I["verb"] if I else ev["ev"])
            where = ev["ev"] + (":raised" if ev.get("raised") else "")
        before = next((e["store"] for e in reversed(tr[:max(plen, 1)]) if "store" in e), prog["store"])
        detail = "event %d is not a step of the specification: %s; store before: %s; program: %s" % (
            plen, json.dumps(_brief(ev, prog), sort_keys=True), show_store(before), "; ".join(line_of(I) for I in prog["insts"]))
        if ev.get("raised") and rec.get("raised"):
            detail += "; raised %s: %s at %s" % (rec["raised"][1], rec["raised"][2], rec["raised"][3])
        _report(ctx, [{"kind": "rejected", "action": action, "where": where, "detail": detail, "script": rec["text"],
                       "expected": None, "actual": [_brief(e, prog) for e in tr[max(1, plen - 3):plen + 1]]}])
    ctx.add_validated(len(out.accepted), {"script": progs[0][1]["text"].split("\n"), "events": [_brief(e) for e in traces[0][1:8]]} if progs else None)

    ctx.exhaustive = False
    ctx.rule = ("table: one row per verb instance (verb, connective, destination / source share, both field lists, direct data form) x "
                "initial shapes of the two shares x value kinds, the instance space cut into %d shards (quick: the shard seed mod %d; "
                "thorough: all); every row built, run and compared after the build and after the act; traces: seeded random programs "
                "of 2..7 instances, each recorded execution one trace; model: all unordered pairs of instances of the reduced space"
                % (TABLE_SHARDS, TABLE_SHARDS))
    ctx.extra.update({"evaluations": nobs + sum(len(t) for t in traces), "distinct_nontrivial": len(rows) + len(out.accepted),
                      "table_rows": len(rows), "table_observations": nobs,
                      "table_rows_by_result": {k: sum(1 for r in rows if r["res"] == k) for k in ("ok", "error", "either")},
                      "recorded_programs": len(recorded), "recorded_events": counts, "traces_accepted": len(out.accepted),
                      "traces_rejected": len(out.rejected)})
    ctx.assume("the printer of instances as FloScript, the snapshot of the shares (fields in order, values, stamps in ticks) and the "
               "out-of-tree wrappers around Act.resolve / Act.__call__ in vf/families/pokes.py are trusted")
    ctx.assume("the real builder steers the random program generator (instances it refuses are mostly redrawn); verdicts are TLC's")
    ctx.assume("not specified (documentation silent): inc of a text by a text, a bid whose period is not a number or whose period field "
               "does not exist, which fields of a vector inc that met a non-number were incremented, the order of reads and writes "
               "of a transfer inside one share with overlapping lists")


EXTRAS = {"pokes": run}
