"""C20 (`is updated` / `is changed` conditions) and C21 (comparison conditions): the need language of specs/flo/Flo.tla.

C21 - binding C + end to end.  specs/flo/FloNeedsTable.tla enumerates the grid of need instances (all operators,
      negation, numbers in halves incl. negatives, every tolerance incl. zero and negative, the same number comparisons
      with state and goal shifted to large magnitudes (+-10^6, +-10^9: 10-digit literals, exact as floats), strings, booleans,
      string-against-number equality, truthiness, the framer clocks, direct and share-valued goals, conjunctions of two
      and three) and writes the expected truth values computed with operator Check of FloNeeds.tla (written from the
      property statement); TLC also checks the algebra of the comparison over the grid.  Every row is run end to end as
      `go yes if <need>` in a two-frame framer (several independent framers per house) built by the real Builder and run
      by the real Skedder; the state / goal shares are written by the environment before the tick in which the condition
      is evaluated.  Oracle: transition taken <=> expected.  A sample of the same executions is validated against
      FloTrace.tla as well, and generated programs using these need shapes (profile flag `needs`) are trace validated
      and model checked like C02-C11.
C20 - binding B + model checking.  Programs concentrated on marks (watcher framers with transitions guarded by
      `is updated|changed [in frame F] [by m]`, a writer framer before / after them in house order writing same /
      different values by put / inc / copy / a second field, inputs written by the environment at any tick boundary)
      and general programs with the `marks` flag (slaves, auxiliaries ...): every recorded execution must be a behaviour
      of Flo.tla (share stamps, marks), and FloMC explores the same programs under a nondeterministic environment.
      Vacuity: every case of the statement decides some transition, in the model AND in the recorded executions.
"""
import json
import os
import random

from .. import env, tlc, trace
from ..replay import Divergence
from ..flo import emit, gen, run
from . import flo

SPEC_DIR = flo.SPEC_DIR
MARK_INV = ("MarksSane", "TransitQuiets")
UPD_CASES = ["GoUpdNever", "GoUpdFirst", "GoUpdLater", "GoUpdEarlier", "GoUpdEntry", "GoUpdTransit"]
CHG_CASES = ["GoChgNoSnap", "GoChgDiffers", "GoChgSame", "GoChgAdded"]
TRACE_CASES = ["never", "first", "later", "earlier", "entry", "transit", "nosnap", "differs", "same", "added"]

# ----------------------------------------------------------------------------------------------------------------------
# C21

TICK = 16          # quanta per tick in the table programs: 1 s with the quantum 1/16 s
SCALE = 2          # numbers in halves
QPU = 8            # quanta per half second


def _pyval(x):
    return x["v"]


def table_rows(ctx):
    out = env.subdir("c21") + "/table.json"
    cfg = "SPECIFICATION Spec\nCONSTANTS\n  NMax = 4\n  ElapsedAt = %d\n  RecurredAt = %d\n" % (TICK, SCALE)
    res = tlc.run("FloNeedsTable", cfg, spec_dir=SPEC_DIR, extra_env={"TABLE_OUT": out}, tag="c21", workers=1)
    ctx.add_model(res, "FloNeedsTable", {"NMax": 4, "ElapsedAt": TICK, "RecurredAt": SCALE})
    if not res.ok:
        ctx.diverge(Divergence("C21", "model", res.error_name or res.error, "FloNeedsTable",
                               "a lemma of the written comparison does not hold in the specification itself: %s" % (res.error_name,)))
        return None
    rows = json.load(open(out))
    vals = [v for v in tlc.printed_values(res.out) if len(v) == 3 and v[0] == "ROWS"]
    if not vals or vals[0][1] != len(rows):
        raise tlc.TlcError("FloNeedsTable: table has %d rows, TLC counted %r" % (len(rows), vals))
    return rows


def clause_need(c, i, j, rng, shares, writes, extra):
    """table clause -> need of the prog (+ the shares it reads and what the environment writes into them)"""
    def share(prefix, tagged):
        name = "%s%dx%d" % (prefix, i, j)
        shares[name] = {"n": 0, "s": "a", "b": True}[tagged["t"]]
        writes.append((name, tagged["v"]))
        return name
    if c["k"] == "truthy":
        return {"k": "truthy", "neg": c["neg"], "share": share("s", c["state"]), "st": c["state"]["t"]}
    n = {"k": "check", "neg": c["neg"], "src": c["src"], "share": "", "st": c["state"]["t"], "op": c["op"], "gk": c["gk"],
         "gt": c["goal"]["t"], "tol": c["tol"], "fl": rng.random() < 0.3, "tolzero": rng.random() < 0.3}
    if c["src"] == "share":
        n["share"] = share("s", c["state"])
    if "gshape" in c:
        # default-field rules of a goal taken from another share: the goal value is published at run time into the field
        # the rules name (c["gfield"]); `other` is the explicit non-value field of the state (emit.MAIN)
        fld = lambda f: "value" if f == "value" else emit.MAIN
        if c["sf"] != "value":
            extra["fielded"].append(n["share"])
        g = share("g", c["goal"])
        if c["gshape"] == 3:
            extra["uninit"].append(g)
        if c["gfield"] != "value":
            extra["fielded"].append(g)
        n["goal"] = g
        n["gspell"] = fld(c["gspell"]) if c["gspell"] else ""
        return n
    if c["gk"] == "lit":
        n["goal"] = c["goal"]["v"]
    else:
        g = dict(c["goal"])
        if c["src"] == "elapsed":
            g["v"] = g["v"] // QPU          # the goal share holds seconds (in halves); the clock is in quanta
        n["goal"] = share("g", g)
    return n


def table_prog(rows, rng):
    """one house: an independent two-frame framer per row, `go yes if <need>` from the first frame"""
    prog = {"tick": TICK, "scale": SCALE, "qpu": QPU, "order": [], "framers": {}, "frames": {}, "shares": {}, "inputs": [],
            "envvals": {}, "fielded": [], "uninit": []}
    writes = []
    for i, row in enumerate(rows):
        f = "f%d" % i
        no, yes = f + ".n", f + ".y"
        prog["order"].append(f)
        prog["framers"][f] = {"sched": "active", "period": 0, "first": no, "frames": [no, yes]}
        prog["frames"][no] = gen.frame(f, "n%d" % i)
        prog["frames"][yes] = gen.frame(f, "y%d" % i)
        prog["frames"][yes]["enter"].append(gen.rec("y%d" % i))
        needs = [clause_need(c, i, j, rng, prog["shares"], writes, prog) for j, c in enumerate(row["cl"])]
        prog["frames"][no]["precur"].append({"k": "go", "far": yes, "needs": needs, "transit": []})
    prog["inputs"] = [s for s, _ in writes]
    prog["envvals"] = {s: [v] for s, v in writes}
    return prog, {1: writes}, 2


def magnitude(c):
    """0 for ordinary operands, else the signed order of magnitude (rows with state and goal shifted by +-10^6, +-10^9)"""
    v = c["state"]["v"]
    if c["state"]["t"] != "n" or abs(v) < 1000:
        return 0
    return (1 if v > 0 else -1) * len(str(abs(v)))


def row_kind(row):
    c = row["cl"][0]
    big = magnitude(c)
    # large operands: every distance between state and goal is its own kind (the band must not widen with magnitude)
    dist = (c["state"]["v"] - c["goal"]["v"]) if big and c["goal"]["t"] == "n" else 0
    return (len(row["cl"]), c["k"], c["src"], c["state"]["t"], c["goal"]["t"], c["op"], c["neg"], c["gk"], c["tol"] != 0, big, dist,
            c.get("sf"), c.get("gshape"), c.get("gspell"))


def select_rows(ctx, rows):
    if not ctx.quick:
        return rows
    rng = random.Random(ctx.seed)
    chosen, seen = [], set()
    order = list(range(len(rows)))
    rng.shuffle(order)
    rest = []
    for i in order:                   # every kind of row once ...
        k = row_kind(rows[i])
        if k not in seen or len(rows[i]["cl"]) == 2:
            seen.add(k)
            chosen.append(rows[i])
        else:
            rest.append(rows[i])
    chosen += rest[:3200]             # ... and a seeded sample of the others
    return chosen


def run_c21(ctx):
    if ctx.replay:
        return replay_c21(ctx)
    rows = table_rows(ctx)
    if rows is None:
        return
    use = select_rows(ctx, rows)
    rng = random.Random(ctx.seed + 21)
    rng.shuffle(use)
    per = 16
    cases, groups = [], []
    for a in range(0, len(use), per):
        grp = use[a:a + per]
        cases.append(table_prog(grp, rng))
        groups.append(grp)
    traces, meta = flo.execute(cases)
    divs, ran, taken = [], 0, 0
    for ci, (grp, r) in enumerate(zip(groups, meta)):
        if r["error"]:
            divs.append(Divergence("C21", "exception", "Build/Run", r["error"].split(":")[1] if ":" in r["error"] else r["error"],
                                   r["error"][:200], extra={"case": flo._case(cases[ci], r), "rows": grp}))
            continue
        # the framer's active frame when it yields in tick 1 (the tick in which the condition is evaluated)
        active, tick = {}, -1
        for e in r["events"]:
            if e["ev"] == "Tick":
                tick = e["n"]
            elif e["ev"] == "Yield" and tick == 1 and e["ctl"] == "run":
                active[e["t"]] = e["active"]
        prog = cases[ci][0]
        for i, row in enumerate(grp):
            got = active.get("f%d" % i)
            if got not in ("y%d" % i, "n%d" % i):
                divs.append(Divergence("C21", "exception", "Run", "no yield", "framer f%d did not run in tick 1" % i,
                                       extra={"case": flo._case(cases[ci], r)}))
                continue
            ran += 1
            took = got == "y%d" % i
            taken += took
            if took != row["expect"]:
                text = emit.needs_text(prog, prog["frames"]["f%d.n" % i]["precur"][0]["needs"])
                wr = {s: v for s, v in cases[ci][1][1] if s[1:].startswith("%dx" % i)}
                c = row["cl"][0]
                where = "truthy" if c["k"] == "truthy" else "%s %s %s%s" % (c["state"]["t"], c["op"], c["goal"]["t"], " not" if c["neg"] else "")
                divs.append(Divergence("C21", "table-mismatch", "go if " + " and ".join(x["op"] or "truthy" for x in row["cl"]), where,
                                       "`go yes if %s` with %s (numbers in halves): transition %s, the written comparison is %s"
                                       % (text, json.dumps(wr, sort_keys=True), "taken" if took else "not taken", row["expect"]),
                                       expected=row["expect"], actual=took,
                                       extra={"case": flo._case(cases[ci], r), "row": row, "framer": "f%d" % i}))
    ctx.diverge(divs[:40])
    ctx.add_validated(ran, {"need": emit.needs_text(cases[0][0], cases[0][0]["frames"]["f0.n"]["precur"][0]["needs"]),
                            "writes": cases[0][1][1][:3], "expect": groups[0][0]["expect"]})
    if ran and not (0 < taken < ran):
        raise tlc.TlcError("C21 vacuous: %d of %d transitions taken" % (taken, ran))
    if divs:
        return      # the table already disagrees: the verdict is reached
    # the same executions against the interpreter specification (a sample), then generated programs with these needs
    ns = ctx.pick(40, 200)
    okc = [i for i, r in enumerate(meta) if not r["error"]][:ns]
    flo.check_traces(ctx, "C21", [cases[i] for i in okc], [traces[i] for i in okc], [meta[i] for i in okc], " (table program)")
    prof = ("needs", "inputs", "clocks", "forest", "guards", "aux", "done")
    n = ctx.pick(100, 1200)
    gcases = gen.generate(random.Random(repr((ctx.seed, "C21"))).randint(0, 2**31), n, prof)
    gtraces, gmeta = flo.execute(gcases)
    gout = flo.check_traces(ctx, "C21", gcases, gtraces, gmeta)
    ctx.sample({"script": gmeta[0]["script"][:1200]})
    flo.model_check(ctx, "C21", gcases, ctx.pick(2, 3), ctx.pick(4, 12))
    ctx.exhaustive = not ctx.quick
    ctx.rule = ("rows of the TLC-enumerated grid of need instances (single clauses: operator x negation x state x goal x tolerance x "
                "direct/share goal for numbers in halves -2..2, strings, booleans, string-vs-number, truthiness, elapsed/recurred; "
                "all pairs and triples of a 14-clause pool); each row is one end-to-end run of `go yes if <need>`; quick = every kind "
                "of row once + all pairs + a seeded sample, thorough = every row; plus generated programs with these need shapes "
                "validated against FloTrace.tla and model checked")
    ctx.extra.update({"evaluations": ran + n, "distinct_nontrivial": ran + len(gout.accepted), "grid_rows": len(rows), "rows_run": ran,
                      "transitions_taken": taken, "programs": n})
    ctx.assume("numbers are dyadic (halves), times binary-exact quanta of 1/16 s; ordering a string against a number, ordering "
               "booleans and tolerances on booleans are not documented and not part of the grid")


def replay_c21(ctx):
    case = ctx.replay.get("extra", {}).get("case")
    if not case:
        print(json.dumps(ctx.replay, indent=1)[:4000])
        return
    c = (gen.normalize(case["prog"]), {int(k): [tuple(x) for x in v] for k, v in case["envs"].items()}, case["ticks"])
    traces, meta = flo.execute([c])
    print(meta[0]["script"])
    for e in traces[0][1:]:
        print(json.dumps(e)[:220])
    print(json.dumps(ctx.replay.get("extra", {}).get("row")))
    flo.check_traces(ctx, "C21", [c], traces, meta)


# ----------------------------------------------------------------------------------------------------------------------
# C20

WATCH = ("watch", "marks", "inputs", "clocks", "forest", "guards")
GENERAL = ("marks", "inputs", "clocks", "forest", "slaves", "aux", "condaux", "done", "bids")


def c20_cases(seed, n):
    rng = random.Random(repr((seed, "C20")))
    nw = (2 * n) // 3
    return gen.generate(rng.randint(0, 2**31), nw, WATCH) + gen.generate(rng.randint(0, 2**31), n - nw, GENERAL)


def canonical_programs():
    """small hand-written mark programs for the model checker (plus cluster_program()): a watcher with `in frame` / plain / `by` forms of both
    kinds, and a writer placed before resp. after it in house order (same / different values; a second field of out.m is added by the environment)"""
    progs = []
    for order in (["p0", "w0"], ["w0", "p0"]):
        prog = {"tick": 1, "order": order, "framers": {}, "frames": {},
                "shares": {"in.a": 0, "in.b": 0, "out.x": 0, "out.m": 0}, "inputs": ["in.a", "in.b"],
                "envvals": {"in.a": [0, 1], "in.b": [0, 1]}, "fielded": ["out.m"]}
        A, B = "w0.A", "w0.B"
        prog["framers"]["w0"] = {"sched": "active", "period": 0, "first": A, "frames": [A, B]}
        fa, fb = gen.frame("w0", "wA"), gen.frame("w0", "wB")
        fa["enter"].append(gen.rec("eA"))
        fb["enter"].append(gen.rec("eB"))
        upd = lambda share, frame="", by="", neg=False: gen.need("updated", neg, share=share, frame=frame, by=by, form="name")
        chg = lambda share, frame="", by="", neg=False: gen.need("changed", neg, share=share, frame=frame, by=by, form="name")
        fa["precur"] = [{"k": "go", "far": B, "needs": [upd("in.a", A)], "transit": []},
                        {"k": "go", "far": A, "needs": [chg("out.x", A)], "transit": []},
                        {"k": "go", "far": B, "needs": [upd("out.m", "", "u0")], "transit": []}]
        fb["precur"] = [{"k": "go", "far": B, "needs": [chg("out.m", A, "c0"), gen.need("cmp", False, share="in.b", op="==", goal=1)], "transit": []},
                        {"k": "go", "far": A, "needs": [upd("in.a")], "transit": []},
                        {"k": "go", "far": A, "needs": [upd("out.x", B)], "transit": []},
                        {"k": "go", "far": A, "needs": [chg("in.b"), gen.need("cmp", False, share="in.a", op="==", goal=1)], "transit": []}]
        prog["frames"][A], prog["frames"][B] = fa, fb
        P0, P1 = "p0.P0", "p0.P1"
        prog["framers"]["p0"] = {"sched": "active", "period": 0, "first": P0, "frames": [P0, P1]}
        f0, f1 = gen.frame("p0", "pP0"), gen.frame("p0", "pP1")
        f0["enter"] = [{"k": "put", "share": "out.x", "val": 1}]
        f0["precur"] = [{"k": "go", "far": P1, "needs": [gen.need("recurred", False, op=">=", goal=1)], "transit": []}]
        f1["enter"] = [{"k": "put", "share": "out.x", "val": 1}]      # (no act names the second field: the environment adds it)
        f1["precur"] = [{"k": "go", "far": P0, "needs": [gen.need("cmp", False, share="in.b", op="==", goal=1)], "transit": []}]
        f1["exit"] = [{"k": "inc", "share": "out.m", "by": 1}]
        prog["frames"][P0], prog["frames"][P1] = f0, f1
        progs.append(prog)
    progs.append(cluster_program())
    return progs


def cluster_program():
    """several marks of ONE share set on entry to ONE frame: the frame's default mark, `by m`, `by n`, for `is updated`
    (input in.a, frame wA) and for `is changed` (out.x, frame wB); the share is written before the frame is (re-)entered
    and not after, so none of the conditions may hold then"""
    prog = {"tick": 1, "order": ["w0", "p0"], "framers": {}, "frames": {},
            "shares": {"in.a": 0, "in.b": 0, "out.x": 0}, "inputs": ["in.a", "in.b"], "envvals": {"in.a": [0, 1], "in.b": [0, 1]}}
    A, B, C = "w0.A", "w0.B", "w0.C"
    prog["framers"]["w0"] = {"sched": "active", "period": 0, "first": C, "frames": [A, B, C]}
    fa, fb, fc = gen.frame("w0", "wA"), gen.frame("w0", "wB"), gen.frame("w0", "wC")
    for f, t in ((fa, "eA"), (fb, "eB"), (fc, "eC")):
        f["enter"].append(gen.rec(t))
    go = lambda far, n: {"k": "go", "far": far, "needs": [n], "transit": []}
    fa["precur"] = [go(B, gen.need("updated", False, share="in.a", frame=A, by="u0", form="name")),
                    go(B, gen.need("updated", False, share="in.a", frame=A, by="", form="me")),
                    go(B, gen.need("updated", False, share="in.a", frame=A, by="u1", form="bare")),
                    go(B, gen.need("recurred", False, op=">=", goal=2))]
    fb["precur"] = [go(C, gen.need("changed", False, share="out.x", frame=B, by="", form="name")),
                    go(C, gen.need("changed", False, share="out.x", frame=B, by="c1", form="name")),
                    go(C, gen.need("changed", False, share="out.x", frame=B, by="c0", form="me")),
                    go(C, gen.need("recurred", False, op=">=", goal=2))]
    fc["precur"] = [go(A, gen.need("recurred", False, op=">=", goal=1))]
    prog["frames"][A], prog["frames"][B], prog["frames"][C] = fa, fb, fc
    P0, P1 = "p0.P0", "p0.P1"
    prog["framers"]["p0"] = {"sched": "active", "period": 0, "first": P0, "frames": [P0, P1]}
    f0, f1 = gen.frame("p0", "pP0"), gen.frame("p0", "pP1")
    f0["enter"] = [{"k": "put", "share": "out.x", "val": 1}]          # written once, at the start
    f0["precur"] = [go(P1, gen.need("cmp", False, share="in.b", op="==", goal=1))]
    f1["enter"] = [{"k": "inc", "share": "out.x", "by": 1}]
    prog["frames"][P0], prog["frames"][P1] = f0, f1
    return prog


def canonical_cases():
    envs = [{}, {1: [("in.a", 0)], 2: [("in.b", 1)], 3: [("in.a", 0)]}, {1: [("in.a", 1), ("in.b", 1)], 3: [("in.b", 1)], 4: [("in.a", 1)]},
            {2: [("in.a", 1)], 3: [("in.b", 1)], 4: [("in.b", 0)]},
            {1: [("in.a", 1), ("in.b", 1)], 2: [("out.m", 1, emit.EXTRA)], 3: [("out.m", 1, emit.EXTRA)]},
            {1: [("in.a", 1), ("in.b", 1)], 3: [("out.m", 0, emit.EXTRA)], 4: [("in.b", 1)]}]
    envs.append({1: [("in.a", 1)], 6: [("in.b", 1)]})
    def fit(p, e):      # only the writes into shares the program has
        return {n: [w for w in ws if w[0] in p["shares"]] for n, ws in e.items()}
    return [(p, fit(p, e), 9 if "w0.C" in p["frames"] else 6) for p in canonical_programs() for e in envs]


def trace_coverage(ctx, traces):
    """which cases of the statement decided transitions in the RECORDED executions (constraint CaseSeen prints them)"""
    d = env.subdir("traces")
    path = os.path.join(d, "c20-cov.json")
    with open(path, "w") as f:
        json.dump(traces, f)
    res = tlc.run("FloTrace", flo._trace_cfg(MARK_INV) + "CONSTRAINT CaseSeen\n", spec_dir=SPEC_DIR, workers=1, deadlock=False,
                  coverage=False, extra_env={"TRACE_FILE": path, "VF_PROGRESS": "0"}, tag="c20cov")
    os.unlink(path)
    seen = {}
    for v in tlc.printed_values(res.out):
        if len(v) == 2 and v[0] == "CASE":
            seen[v[1]] = seen.get(v[1], 0) + 1
    return seen


def mc_programs(ctx, progs, maxticks, name, require):
    """FloMC on the given programs: nondeterministic environment (same / different values at every boundary, interrupts)"""
    path = os.path.join(env.subdir("flomc"), "C20-%s.json" % name)
    with open(path, "w") as f:
        json.dump(progs, f)
    cfg = ("SPECIFICATION MCSpec\nCONSTANTS\n  MaxTicks = %d\nVIEW View\nCHECK_DEADLOCK FALSE\n" % maxticks +
           "".join("INVARIANT %s\n" % i for i in tuple(flo.INVARIANTS) + MARK_INV))
    res = tlc.run("FloMC", cfg, spec_dir=SPEC_DIR, extra_env={"PROGS_FILE": path}, tag="flomcC20" + name, timeout=ctx.pick(600, 3000))
    ctx.add_model(res, "FloMC/C20/" + name, {"MaxTicks": maxticks, "programs": len(progs)})
    if not res.ok:
        ctx.diverge(Divergence("C20", "model", res.error_name or res.error, "FloMC",
                               "property violated in the specification itself (machinery: the documented design, not the code)",
                               steps=[{"action": a} for a, s in res.trace][-30:]))
    else:
        tlc.require_coverage(res, ["PrecurWalk", "EnterFrame", "DoAct", "MCNext"] + list(require), "FloMC/C20/" + name)
    return res


def run_c20(ctx):
    if ctx.replay:
        return replay_c20(ctx)
    n = ctx.pick(150, 3000)
    cases = c20_cases(ctx.seed, n)
    traces, meta = flo.execute(cases)
    out = flo.check_traces(ctx, "C20", cases, traces, meta, extra_inv=MARK_INV)
    ctx.sample({"script": meta[0]["script"][:1500], "envs": {str(k): v for k, v in cases[0][1].items()}})
    # vacuity on the recorded executions: every case of the statement decided a transition of the real code
    acc = sorted(out.accepted)[:ctx.pick(60, 400)]
    ok = [i for i, r in enumerate(meta) if not r["error"]]
    seen = trace_coverage(ctx, [traces[ok[j]] for j in acc])
    missing = [c for c in TRACE_CASES if not seen.get(c)]
    if missing and len(out.accepted) == len(ok):
        raise tlc.TlcError("C20 vacuous: no transition of the recorded executions was decided by case(s) %s" % ", ".join(missing))
    # model checking: the watch-shaped programs are small; a nondeterministic environment writes same / different values
    canon = canonical_cases()
    ctraces, cmeta = flo.execute(canon)
    flo.check_traces(ctx, "C20", canon, ctraces, cmeta, " (canonical program)", extra_inv=MARK_INV)
    mc_programs(ctx, canonical_programs(), ctx.pick(3, 5), "canonical", UPD_CASES + CHG_CASES)
    flo.model_check(ctx, "C20", cases, ctx.pick(2, 3), ctx.pick(4, 12), extra_inv=MARK_INV)
    ctx.rule = ("seeded generated FloScript programs: 2/3 concentrated on marks (watcher framers, a writer framer before/after them, "
                "environment writes of same/different values at any tick boundary), 1/3 general programs with marker conditions "
                "(slaves, auxiliaries, bids); a case counts when its whole recorded execution was accepted by TLC against FloTrace.tla "
                "(stamps, marks) with all invariants; plus FloMC.tla model checking of sampled programs with a nondeterministic environment")
    ctx.extra.update({"evaluations": n, "distinct_nontrivial": len(out.accepted), "programs": n,
                      "invariants": list(flo.INVARIANTS) + list(MARK_INV), "decided_by_case_in_recorded_runs": seen})
    ctx.assume("time in binary-exact quanta of 1/16 s; an environment write between two ticks carries the store time of the tick before; "
               "when an entry reset and a taken-transition reset of the same mark fall in the tick of the update either answer is admitted")


def replay_c20(ctx):
    case = ctx.replay.get("extra", {}).get("case")
    if not case:
        print(json.dumps(ctx.replay, indent=1)[:4000])
        return
    c = (gen.normalize(case["prog"]), {int(k): [tuple(x) for x in v] for k, v in case["envs"].items()}, case["ticks"])
    traces, meta = flo.execute([c])
    print(meta[0]["script"])
    for e in traces[0][1:]:
        print(json.dumps(e)[:220])
    flo.check_traces(ctx, "C20", [c], traces, meta, extra_inv=MARK_INV)


PROPERTIES = {"C20": run_c20, "C21": run_c21}
