"""C35 - datagram stacks send each destination's packets exactly once and in queue order (specs/net/Gram.tla).

  model   Gram.tla checked exhaustively (every interleaving of queueing and servicing, every failure pattern of every pass);
  A       complete state graphs replayed on real stacks: proto.GramStack over a scripted datagram handler and
          proto.UdpStack over udp.SocketUdpNb over a datagram socket double (udping's `socket` replaced; no port bound):
          a *deep* graph (several passes and single services interleaved with queueing) and a *wide* graph (every queue
          up to the full size, every failure pattern of one pass).  After each step the packets still queued and the
          datagrams the socket accepted are compared per destination.  GramStack and one UdpStack are built on queues the
          caller supplies (txPkts=, rxPkts=, txMsgs=, rxMsgs=, as the constructor documents); Transmit(d, via) queues through
          stack.transmit or by appending to the caller's own reference to that deque - one action of the specification.
"""
from concurrent.futures import ThreadPoolExecutor

from .. import doubles_net as dn
from .. import env, graph, replay, tlc
from ..replay import Divergence
from ._net import jvm_env
from ._netstacks import DestSocket, GramHandler, quiet_console, guarded

SPEC_DIR = env.SPECS + "/net"
LOCAL = ("127.0.0.1", 7100)
FLAVORS = ("gram", "udp", "udp-own")   # gram / udp: built on queues supplied by the caller; udp-own: on its own queues
WIDE_ONLY = ("udp-own",)
ACTIONS = ["Transmit", "Pass", "Once"]


def dest(d):
    return ("10.0.1.%d" % int(d), 7000 + int(d))


def empty(i):
    """every third packet is a datagram of length 0 (a legal datagram; sendto returns 0 for it)"""
    return i % 3 == 2


def payload(i):
    if empty(i):
        return b""
    return ("pkt%02d" % i).encode("ascii") + bytes([0x40 + i]) * (i % 3)


def cfg_text(nd, maxpkts, maxpasses, props=True):
    s = "SPECIFICATION Spec\nCONSTANTS\n  NDests = %d\n  MaxPkts = %d\n  MaxPasses = %d\n" % (nd, maxpkts, maxpasses)
    if props:
        s += "INVARIANT ExactlyOnce\nINVARIANT PerDestinationFifo\nPROPERTY NoCrossBlocking\nPROPERTY NothingInvented\n"
    return s


class GramAdapter:
    """one real datagram stack over a destination-scripted socket double"""

    def __init__(self, flavor):
        env.use_repo()
        from ioflo.aio.proto import packeting, stacking
        from ioflo.aio.udp import udping
        self.packeting = packeting
        quiet_console()
        self.flavor = flavor
        self.undo = []
        from collections import deque
        # the documented way of sharing the queues: the caller supplies the deques and keeps its references
        self.mine = None if flavor == "udp-own" else {k: deque() for k in ("txPkts", "rxPkts", "txMsgs", "rxMsgs")}
        kw = dict(self.mine) if self.mine else {}
        if flavor == "gram":
            self.handler = GramHandler(LOCAL)
            self.stack = stacking.GramStack(handler=self.handler, ha=LOCAL, name="gram", **kw)
            self.sock = self.handler.sock
        else:
            fake = dn.FakeSocketModule(factory=lambda fam, typ, proto: DestSocket(name="udp", family=fam, type=typ, proto=proto))
            self.undo.append(dn.install(udping, "socket", fake))
            self.stack = stacking.UdpStack(ha=LOCAL, name="udp", **kw)
            self.sock = fake.last
            if len(fake.created) != 1 or self.sock.bound != LOCAL:
                raise AssertionError("UdpStack did not open exactly one datagram socket double on its address")
        if not self.stack.handler.opened:
            raise AssertionError("the stack's handler is not open")
        self.dst = []          # dst[i-1] = destination number of packet i
        self.ids = {}          # payload -> packet number
        self.loose = False     # the stack keeps packets of different destinations in another order than the model

    def close(self):
        for u in reversed(self.undo):
            u()
        self.undo = []

    # ---- projection
    def _ids(self, pairs, what):
        out = []
        nempty = {}
        for (b, addr) in pairs:
            if len(b) == 0:
                # empty datagrams carry no mark: the k-th empty one offered to / queued for an address is the k-th
                # empty packet queued for that address (order per destination is what the statement fixes)
                mine = [j for j in range(1, len(self.dst) + 1) if empty(j) and dest(self.dst[j - 1]) == addr]
                k = nempty.get(addr, 0)
                nempty[addr] = k + 1
                if what == "queued":
                    sent_before = sum(1 for (bb, aa) in self.sock.dgrams_sent if len(bb) == 0 and aa == addr)
                    k += sent_before
                out.append(mine[k] if k < len(mine) else ("unknown empty %s" % what, str(addr)))
                continue
            i = self.ids.get(bytes(b))
            if i is None:
                out.append(("unknown %s" % what, tuple(bytes(b))))
            elif addr != dest(self.dst[i - 1]):
                out.append(("misaddressed", i, str(addr)))
            else:
                out.append(i)
        return out

    def project(self, expected=None):
        q = self._ids([(pkt.packed, ha) for (pkt, ha) in self.stack.txPkts], "queued")
        s = self._ids(self.sock.dgrams_sent, "sent")
        out = {"queue": tuple(q), "sent": tuple(s)}
        if expected is not None:
            # only the order per destination is part of the statement
            for k in ("queue", "sent"):
                exp = tuple(int(x) for x in expected[k])
                if out[k] != exp and all(isinstance(x, int) for x in out[k]) and self._by_dest(out[k]) == self._by_dest(exp):
                    out[k] = exp
                    self.loose = True
        return out

    def _by_dest(self, ids):
        d = {}
        for i in ids:
            d.setdefault(self.dst[i - 1], []).append(i)
        return d

    # ---- steps
    def step(self, name, args, expected):
        st = self.stack
        if name == "Transmit":
            d = int(args[0])
            self.dst.append(d)
            i = len(self.dst)
            if not empty(i):
                self.ids[payload(i)] = i
            pkt = self.packeting.Packet(stack=st, packed=payload(i))
            if str(args[1]) == "deque" and self.mine:
                pkt.pack()
                self.mine["txPkts"].append((pkt, dest(d)))     # through the caller's own reference to the shared queue
            else:
                st.transmit(pkt, dest(d))
        elif name == "Pass":
            f = args[0]
            fd = {int(k): int(v) for k, v in (f.items() if isinstance(f, dict) else enumerate(f, 1))}
            waiting = {}
            for (pkt, ha) in st.txPkts:
                waiting[ha] = waiting.get(ha, 0) + 1
            # destinations whose pattern entry equals the number of waiting packets never fail in this pass
            self.sock.arm({dest(d): k for d, k in fd.items() if k < waiting.get(dest(d), 0)})
            st.serviceTxPkts()
            self.sock.arm({})
        elif name == "Once":
            if self.loose:
                return None      # which packet is at the head is no longer determined by the model
            ok = bool(args[0])
            head = st.txPkts[0][1] if st.txPkts else None
            self.sock.arm({} if ok else {head: 0})
            st.serviceTxPktsOnce()
            self.sock.arm({})
        else:
            raise NotImplementedError(name)
        if self.loose and name == "Once":
            return None
        return self.project(expected)


def run_c35(ctx):
    ctx.rule = ("Gram.tla model checked over every interleaving of queueing (<= MaxPkts packets over NDests destinations) with "
                "service passes / single services (<= MaxPasses) under every failure pattern (per destination: how many sends "
                "succeed before one fails); binding A: complete state graphs (deep: interleaved, wide: every queue x every "
                "pattern of one pass) replayed edge by edge on real GramStack (scripted handler) and UdpStack (socket double), "
                "queue and accepted datagrams compared per destination; distinct = graph edges x 2 stacks")
    ctx.assume("TLC, vf/doubles_net.py, the destination-scripted datagram double and the projection functions are trusted")
    ctx.assume("a destination that failed once during a pass answers again afterwards (transient failure); permanent errors "
               "(other errno values) propagate by documentation and are not part of this property")
    nd = 3
    mc = ctx.pick((nd, 5, 3), (nd, 6, 3))
    deep = ctx.pick((nd, 4, 3), (nd, 5, 3))
    wide = ctx.pick((nd, 5, 1), (nd, 6, 1))
    d = env.subdir("c35")
    jobs = [("mc", mc, None), ("deep", deep, d + "/deep.dot"), ("wide", wide, d + "/wide.dot")]

    def model(job):
        tag, (n, p, s), dot = job
        return tlc.run("Gram", cfg_text(n, p, s, props=(dot is None)), spec_dir=SPEC_DIR, dump_dot=dot, deadlock=False,
                       tag="c35" + tag, extra_env=jvm_env(ctx.quick), coverage=(dot is None),
                       workers=max(1, env.NCPU // 2) if dot is None else max(1, env.NCPU // 4))

    with ThreadPoolExecutor(max_workers=len(jobs)) as ex:
        results = list(ex.map(model, jobs))
    total = cov = nsteps = 0
    for (tag, (n, p, s), dot), res in zip(jobs, results):
        name = "Gram/%s" % tag
        ctx.add_model(res, name, {"NDests": n, "MaxPkts": p, "MaxPasses": s})
        if not res.ok:
            ctx.diverge(Divergence("C35", "model", res.error_name or res.error, name, "specification property violated in the model",
                                   steps=[{"action": a, "state": st} for a, st in res.trace]))
            continue
        if dot is None:
            tlc.require_coverage(res, ACTIONS, name)
            continue
        g = graph.load_dot(dot)
        nfail = sum(1 for st in g.states.values() if st["last"]["a"] == "Pass" and len(st["queue"]) > 0)
        if not nfail:
            raise tlc.TlcError("vacuous model run (%s): no pass with a failing destination" % name)
        paths = graph.edge_cover(g, max_len=40)
        traces = replay.graph_paths_to_traces(g, paths)
        for fl in FLAVORS:
            if fl in WIDE_ONLY and tag != "wide":
                continue
            k, divs = replay.replay("C35", traces, lambda init, fl=fl: guarded(GramAdapter)(fl), keys=("queue", "sent"))
            for dv in divs:
                dv.where = "%s:%s" % (fl, dv.where)
            ctx.diverge(divs)
            nsteps += k
            total += g.nedges
            cov += graph.covered_edges(paths)
        ctx.add_validated(len(traces) * (len(FLAVORS) if tag == "wide" else len(FLAVORS) - len(WIDE_ONLY)), {"graph": tag, "path": [x[0] for x in traces[len(traces) // 2]][:20]})
    ctx.exhaustive = (cov == total and total > 0)
    ctx.extra.update({"graph_edges": total, "edges_replayed": cov, "distinct_nontrivial": cov, "evaluations": nsteps})


PROPERTIES = {"C35": run_c35}
