"""Child process of the C14 check: builds the scripts of a job file one after the other with the real Builder and
reports each outcome on stdout as one line `R <index> <json>` (after `S <index>` when it starts on a script), so that
the parent can tell which script a hang belongs to.

usage: python -m vf.families._bchild <jobfile.json> <first index>
job file: {"scripts": [text, ...], "work": scratch dir, "frames": framer name or "", "stats": bool}
(frames: also report over/unders of that framer; stats: also report the number of framers and of clones)
"""
import collections.abc  # noqa: F401
import json
import os
import sys


def main():
    job = json.load(open(sys.argv[1]))
    start = int(sys.argv[2])
    from . import _bscript as B
    B.install()
    work = job["work"]            # scratch directory of the parent (a killed child cleans nothing up)
    devnull = open(os.devnull, "w")
    out = sys.stdout
    sys.stdout = devnull          # `print` actions of a script being built must not disturb the protocol
    framer = job.get("frames") or ""
    for i in range(start, len(job["scripts"])):
        out.write("S %d\n" % i)
        out.flush()
        r = B.build(job["scripts"][i], workdir=work, want_pre=False, want_post=False, keep_skedder=bool(framer) or bool(job.get("stats")))
        res = {"outcome": r["outcome"], "etype": r["etype"], "msg": " ".join(r["msg"].split())[:300], "where": r["where"]}
        if r["outcome"] == "error" and r["etype"] not in B.SCRIPT_ERRORS:
            res["traceback"] = r.get("traceback", "")[-1200:]
        if framer and r["outcome"] == "built":
            fr = {}
            for h in r["skedder"].houses:
                for f in h.framers:
                    if f.name == framer:
                        for x in f.frameNames.values():
                            fr[x.name] = [B._fname(x.over), [B._fname(u) for u in x.unders]]
            res["frames"] = fr
        if job.get("stats") and r["outcome"] == "built":
            fs = [f for h in r["skedder"].houses for f in h.framers]
            res["nframers"] = len(fs)
            res["nclones"] = sum(1 for f in fs if not f.original)
        out.write("R %d %s\n" % (i, json.dumps(res)))
        out.flush()
    out.write("E\n")
    out.flush()
    os._exit(0)


if __name__ == "__main__":
    main()
