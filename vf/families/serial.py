"""X-serial - non blocking serial io: ConsoleNb, DeviceNb, SerialNb, Driver (specs/serial/Serial.tla, SerialTrace.tla).

  A. complete state graphs of Serial.tla (console / device / serial, and the two Driver flavours): what the port answers
     to every open / read / write is chosen by TLC; every edge is replayed on the real classes over the scripted port of
     _serial_doubles.py (fake os, termios and pyserial modules) and handles, bytes read, wire, queue, buffer, result compared;
  B. seeded random executions of the real classes, logged as events and validated by TLC against SerialTrace.tla:
     long scripts over the double (with device errors, also inside Driver transmit passes) and executions of ConsoleNb,
     DeviceNb and Driver/DeviceNb over a real pty (os.openpty), where TLC chooses when typed bytes land (latency tolerance).
"""
import errno
import os
import random
import select
import sys
import termios
import time
from concurrent.futures import ThreadPoolExecutor

from .. import doubles_net as dn
from .. import env, graph, replay, tlc
from ..replay import Divergence
from . import _serial_doubles as sd
from ._net import graph_traces, jvm_env, validate_jobs

PROP = "X-serial"
SPEC_DIR = env.SPECS + "/serial"
SUBJECTS = ("console", "device", "serial", "drvdevice", "drvserial")
OFF = 0x30
MAXB = 0x7e - OFF
PATH = "/dev/ttyFAKE0"
INVARIANTS = ("RxPrefix", "RxbsSuffix", "OneHandle", "BoundedRead", "WholeLines")
ACTIONS = {
    "console": ["Type", "Open", "Close", "GetLine", "Put"],
    "device": ["Type", "Open", "Close", "Reopen", "Receive", "Send"],
    "serial": ["Type", "Open", "Close", "Reopen", "Receive", "Send"],
    "drvdevice": ["Type", "Open", "Close", "Reopen", "Queue", "ServiceTx", "ServiceTxOnce", "ServiceRx", "ServiceRxOnce", "Clear", "Scan"],
    "drvserial": ["Type", "Open", "Close", "Reopen", "Queue", "ServiceTx", "ServiceTxOnce", "ServiceRx", "ServiceRxOnce", "Clear", "Scan"],
}


def enc(seq):
    """model bytes of a message -> byte values"""
    return bytes(b + OFF for b in seq)


def dec(bs):
    return tuple(b - OFF for b in bytes(bs))


def enc_in(seq):
    """model bytes the far side types -> byte values (0 is the newline)"""
    return bytes(0x0a if b == 0 else b + OFF for b in seq)


def dec_in(bs):
    if isinstance(bs, str):
        bs = bs.encode("latin-1")
    return tuple(0 if b == 0x0a else b - OFF for b in bytes(bs))


NONE = {"t": "none"}
OK = {"t": "ok"}
FAIL = {"t": "fail"}
ERR = {"t": "err"}


def cfg_text(subjects, consts, lag=False, props=True, spec="Spec"):
    s = ("SPECIFICATION %s\nCONSTANTS\n  Subjects = {%s}\n  BsSet = {%s}\n  MaxTyped = %d\n  MaxMsgs = %d\n  MaxLen = %d\n"
         "  Modes = {%s}\n  Lag = %s\n" % (spec, ", ".join('"%s"' % x for x in subjects), ", ".join(str(b) for b in consts["BsSet"]),
                                           consts["MaxTyped"], consts["MaxMsgs"], consts["MaxLen"],
                                           ", ".join('"%s"' % m for m in consts.get("Modes", ["both"])), "TRUE" if lag else "FALSE"))
    s += "".join("INVARIANT %s\n" % i for i in INVARIANTS)
    if props:
        s += "PROPERTY TxConserved\nPROPERTY ClosedIsQuiet\nPROPERTY NoEmptyResidue\n"
    return s


# ------------------------------------------------------------------ the two environments
class FakeEnv:
    """the scripted port: every answer is planned, everything is observable"""
    lag = False

    def __init__(self, subject):
        from ioflo.aio.serial import serialing
        self.port = sd.FakePort(PATH, canonical=(subject == "console"))
        self.path = PATH
        self.fos = sd.FakeOs(self.port)
        self.undo = [dn.install(serialing, "os", self.fos)]
        self._mods = {k: sys.modules.get(k, _MISSING) for k in ("termios", "serial")}
        sys.modules["termios"] = sd.FakeTermios(self.fos)
        # pyserial present (a double) for the pyserial flavours, absent (import fails) for the others
        sys.modules["serial"] = sd.FakeSerialMod(self.port) if subject in ("serial", "drvserial") else None
        self.readlog = bytearray()
        self._calls = 0

    def close(self):
        for u in reversed(self.undo):
            u()
        self.undo = []
        for k, v in self._mods.items():
            if v is _MISSING:
                sys.modules.pop(k, None)
            else:
                sys.modules[k] = v

    def type(self, b):
        if not self.port.handles:
            raise AssertionError("harness: typing while nobody holds the port")
        self.port.type(b)

    def mark(self):
        self._calls = len(self.port.calls)
        self._wire = len(self.port.wire)

    def since(self, op):
        return [c for c in self.port.calls[self._calls:] if c[0] == op]

    def sent(self, expect=None):
        return bytes(self.port.wire[self._wire:])

    def plan_clear(self):
        left = (list(self.port.open_plan), list(self.port.read_plan), list(self.port.write_plan))
        self.port.open_plan.clear()
        self.port.read_plan.clear()
        self.port.write_plan.clear()
        return left


_MISSING = object()


class PtyEnv:
    """a real pseudo terminal: the far side is the master end held by the harness"""
    lag = True

    def __init__(self, subject):
        self.master, self.keep = os.openpty()       # keep: a slave descriptor of our own, so the tty outlives close()
        self.path = os.ttyname(self.keep)
        a = termios.tcgetattr(self.keep)
        a[1] &= ~termios.OPOST                      # no output translation: what is written is what the master reads
        a[3] &= ~(termios.ECHO | termios.ECHOE | termios.ECHOK | termios.ECHONL)
        if hasattr(termios, "ECHOCTL"):
            a[3] &= ~termios.ECHOCTL
        if subject == "console":
            a[3] |= termios.ICANON                  # the console's default: canonical mode
        termios.tcsetattr(self.keep, termios.TCSANOW, a)
        os.set_blocking(self.master, False)
        self.slow = False
        self._out = bytearray()

    def close(self):
        for fd in (self.master, self.keep):
            try:
                os.close(fd)
            except OSError:
                pass

    def type(self, b):
        os.write(self.master, b)

    def nudge(self, rng):
        """sometimes give the kernel a moment to move typed bytes to the slave side (never needed for the verdict)"""
        if rng.random() < 0.7:
            select.select([self.keep], [], [], 0.02)

    def mark(self):
        pass

    def sent(self, expect=0):
        """what the master end received; waits (generously) for the `expect` bytes the object said it wrote"""
        out = bytearray()
        deadline = time.time() + 20.0
        while True:
            try:
                d = os.read(self.master, 65536)
            except OSError:
                d = b""
            out.extend(d)
            if d:
                continue
            if len(out) >= expect:
                break
            if time.time() > deadline:
                self.slow = True
                break
            select.select([self.master], [], [], 0.05)
        return bytes(out)

    def plan_clear(self):
        return ((), (), ())


# ------------------------------------------------------------------ one real object under one environment
class SerialAdapter:
    def __init__(self, subject, bs, pty=False):
        env.use_repo()
        from ioflo.aid.consoling import getConsole
        from ioflo.aio.serial import serialing
        getConsole().reinit(verbosity=0)
        self.sg = serialing
        self.subject = subject
        self.bs = bs
        self.e = PtyEnv(subject) if pty else FakeEnv(subject)
        self.pty = pty
        self.is_driver = subject.startswith("drv")
        self.got = []
        self.nops = 0
        self.rxcount = 0
        path = self.e.path
        if subject == "console":
            self.x = self.nb = serialing.ConsoleNb()
        elif subject == "device":
            self.x = self.nb = serialing.DeviceNb(port=path, speed=9600, bs=bs)
        elif subject == "serial":
            self.x = self.nb = serialing.SerialNb(port=path, speed=9600, bs=bs)
        else:
            self.x = serialing.Driver(name="drv", port=path, speed=9600, bs=bs)
            self.nb = self.x.server
        if self.is_driver:
            inner = self.nb.receive

            def counted():
                d = inner()
                if d:
                    self.rxcount += 1
                return d
            self.nb.receive = counted

    def close(self):
        try:
            if self.pty:
                self.nb.close()
        except Exception:
            pass
        self.e.close()

    # ---- projection
    def opened(self):
        if self.subject == "console":
            return self.x.fd is not None
        return bool(self.nb.opened)

    def kind(self):
        if self.is_driver:
            if type(self.nb) is self.sg.SerialNb:
                return "drvserial"
            if type(self.nb) is self.sg.DeviceNb:
                return "drvdevice"
            return "drv:" + type(self.nb).__name__
        return self.subject

    def project(self, res=None):
        out = {"subject": self.kind(), "opened": self.opened(), "got": tuple(self.got)}
        if not self.pty:
            p = self.e.port
            out.update({"nopen": len(p.handles), "nread": p.nread, "wire": dec(p.wire),
                        "src": dec_in(bytes(self.e.readlog) + bytes(p.inq)), "bs": self._bs_seen()})
            if p.misuse:
                out["nopen"] = "misuse of a closed handle: %r" % (p.misuse[:3],)
        if self.is_driver:
            out["txes"] = tuple(dec(m) for m in self.x.txes)
            out["rxbs"] = dec_in(self.x.rxbs)
        if res is not None:
            out["res"] = res
        return out

    def _bs_seen(self):
        return self.bs if self.subject == "console" else int(self.nb.bs)

    # ---- results
    def _bytes(self, r):
        if isinstance(r, str):
            r = r.encode("latin-1")
        if not isinstance(r, (bytes, bytearray)):
            raise AssertionError("a read returned %r, neither bytes nor a string" % (r,))
        return {"t": "bytes", "v": dec_in(r)}

    def _open_quality(self):
        """an open that succeeded must have asked for what the documentation says: non blocking, read and write,
        (DeviceNb) the line out of canonical mode without echo at the speed given, (SerialNb) zero timeouts"""
        if self.pty:
            return OK
        p = self.e.port
        flaws = []
        if self.subject in ("console", "device", "drvdevice"):
            fl = p.flags[-1] if p.flags else 0
            if not fl & os.O_NONBLOCK:
                flaws.append("blocking")
            if (fl & os.O_ACCMODE) != os.O_RDWR:
                flaws.append("not read-write")
        if self.subject in ("device", "drvdevice"):
            a = p.attrs
            if a[3] & termios.ICANON:
                flaws.append("canonical")
            if a[3] & termios.ECHO:
                flaws.append("echo")
            if a[4] != termios.B9600 or a[5] != termios.B9600:
                flaws.append("speed")
        if self.subject in ("serial", "drvserial"):
            sa = p.serial_args[-1] if p.serial_args else {}
            if sa.get("timeout") != 0 or sa.get("write_timeout") != 0:
                flaws.append("blocking")
            if sa.get("baudrate") != 9600:
                flaws.append("speed")
        return {"t": "ok", "flaws": tuple(flaws)} if flaws else OK

    def _do_open(self, reopen):
        self.nops += 1
        if self.subject == "console":
            # the default port '' is the controlling terminal: os.ctermid() (the double answers with the port's path)
            r = self.x.open() if (self.nops % 2 and not self.pty) else self.x.open(port=self.e.path)
            if r is True:
                return self._open_quality()
            if r is False:
                return FAIL
            raise AssertionError("ConsoleNb.open returned %r" % (r,))
        try:
            r = self.nb.reopen() if reopen else self.nb.open()
        except (sd.Injected, sd.FakeSerialException):
            return FAIL
        if r is False:
            return FAIL
        return self._open_quality()

    # ---- operations
    def call(self, name, a):
        """perform one operation; a = the act record (model) or event parameters (generator); returns (res, actual act fields)"""
        x, nb, e = self.x, self.nb, self.e
        p = None if self.pty else e.port
        e.mark()
        res = NONE
        upd = {}
        nread0 = p.nread if p else 0
        inq0 = bytes(p.inq) if p else b""
        rx0 = bytes(x.rxbs) if self.is_driver else b""
        self.rxcount = 0
        if name == "Type":
            e.type(enc_in(a["m"]))
        elif name == "Open":
            if p:
                p.open_plan.append(a["k"])
            res = self._do_open(False)
        elif name == "Close":
            if p:
                p.flush_on_last_close = bool(a["fl"])
            nb.close()
            if p:
                p.flush_on_last_close = False
        elif name == "Reopen":
            if p:
                p.open_plan.append(a["k"])
                p.flush_on_last_close = bool(a["fl"])
            res = self._do_open(True)
            if p:
                p.flush_on_last_close = False
        elif name in ("Receive", "GetLine"):
            if p:
                p.read_plan.append(a["k"])
            try:
                r = nb.receive() if name == "Receive" else x.getLine(a["n"])
                res = self._bytes(r)
                self.got.extend(res["v"])
            except (sd.Injected, sd.FakeSerialException):
                res = ERR
        elif name in ("Send", "Put"):
            data = enc(a["m"])
            if p:
                p.write_plan.append((a["k"], a["n"]))
            try:
                if name == "Send":
                    r = nb.send(data)
                    if isinstance(r, bool) or not isinstance(r, int):
                        raise AssertionError("send returned %r, not a count" % (r,))
                    res = {"t": "int", "v": r}
                    upd["count"] = r
                else:
                    self.nops += 1
                    r = x.put(data.decode("ascii") if self.nops % 2 else data)   # "data string": text and bytes alike
                    upd["count"] = r if isinstance(r, int) else len(data)
            except (sd.Injected, sd.FakeSerialException):
                res = ERR
        elif name == "Queue":
            x.tx(enc(a["m"]))
        elif name in ("ServiceTx", "ServiceTxOnce"):
            q0 = [bytes(m) for m in x.txes]
            if p:
                p.write_plan.extend((r["k"], r["n"]) for r in a["s"])
            try:
                x.serviceTxes() if name == "ServiceTx" else x.serviceTxOnce()
            except (sd.Injected, sd.FakeSerialException):
                res = ERR
            if p:
                upd["s"] = self._used_script(q0, [bytes(m) for m in x.txes])
            upd["count"] = sum(len(m) for m in q0) - sum(len(m) for m in x.txes)
        elif name in ("ServiceRx", "ServiceRxOnce"):
            if p and a["k"] != "closed":
                if name == "ServiceRxOnce":
                    p.read_plan.append(a["k"])
                else:
                    navail = len(p.readable())
                    full = (navail + self.bs - 1) // self.bs
                    p.read_plan.extend(["data"] * (min(a["n"], full) if a["k"] == "error" else full) + [a["k"]])
            try:
                x.serviceReceives() if name == "ServiceRx" else x.serviceReceiveOnce()
            except (sd.Injected, sd.FakeSerialException):
                res = ERR
            if p:
                reads = e.since("read")
                if name == "ServiceRx":
                    term = [c[1] for c in reads if c[1] != "data"]
                    upd["k"] = term[-1] if term else ("closed" if not reads else "none")
                    upd["n"] = sum(1 for c in reads if c[1] == "data")
                else:
                    upd["k"] = "closed" if not reads else reads[0][1] if len(reads) == 1 else "several"
                    upd["n"] = 0
            else:
                upd["n"] = self.rxcount
        elif name == "Clear":
            x.clearRxbs()
        elif name == "Scan":
            r = x.scan(enc_in(a["m"]))
            if r is None:
                res = NONE
            elif isinstance(r, int) and not isinstance(r, bool):
                res = {"t": "int", "v": r}
            else:
                raise AssertionError("scan returned %r" % (r,))
        else:
            raise NotImplementedError(name)
        if p:
            # what left the port's input queue by reads (a flush is not a read)
            took = p.nread - nread0
            self.e.readlog.extend(inq0[:took])
            left = e.plan_clear()
            upd["left"] = left
        if self.is_driver:
            rx1 = bytes(x.rxbs)
            if name.startswith("ServiceRx"):
                if rx1[:len(rx0)] == rx0:
                    self.got.extend(dec_in(rx1[len(rx0):]))
                else:
                    self.got.append(-1)       # the buffer rewrote its past
        return res, upd

    def _used_script(self, q0, q1):
        """the answers the port actually gave to the writes of this pass, as records of the specification"""
        out = []
        ws = self.e.since("write")
        for i, (_, oc, c) in enumerate(ws):
            if oc == "full":
                out.append({"k": "full", "n": 0})
            elif oc == "part":
                out.append({"k": "part", "n": c})
            elif oc in ("zero", "eagain"):
                out.append({"k": oc, "n": 0})
            elif oc == "error":
                # messages 1..i went out in full; the one in flight was either kept or dropped by the driver
                dropped = (q1 == q0[i + 1:]) and (q1 != q0[i:])
                out.append({"k": "error", "n": 1 if dropped else 0})
        return tuple(out)

    # ---- binding A
    def step(self, name, args, expected):
        a = args[0]
        res, upd = self.call(name, a)
        out = self.project(res)
        if name in ("ServiceTx", "ServiceTxOnce"):
            want = tuple({"k": r["k"], "n": r["n"]} for r in a["s"])
            if upd["s"] != want:
                b = dict(a)
                b["s"] = upd["s"]
                out["act"] = b
        elif name in ("ServiceRx", "ServiceRxOnce"):
            if (upd["k"], upd["n"]) != (a["k"], a["n"]):
                b = dict(a)
                b["k"], b["n"] = upd["k"], upd["n"]
                out["act"] = b
        elif name in ("Open", "Reopen", "Receive", "GetLine", "Send", "Put"):
            lo, lr, lw = upd["left"]
            if lo or lr or lw:
                # the call never asked the port: report the step as one without that answer
                b = dict(a)
                b["k"] = "unasked"
                out["act"] = b
        return out


def _label(act):
    a = act["a"]
    if a in ("ServiceTx", "ServiceTxOnce"):
        return "%s(%s)" % (a, ",".join(r["k"] + (str(r["n"]) if r["k"] == "part" else "") for r in act["s"]))
    if a in ("Type", "Queue", "Scan"):
        return "%s(%s)" % (a, list(act["m"]))
    if a in ("Send", "Put"):
        return "%s(%s,%s%s)" % (a, list(act["m"]), act["k"], act["n"] if act["k"] == "part" else "")
    if a in ("Close",):
        return "Close(%s)" % ("flush" if act["fl"] else "")
    if a == "Reopen":
        return "Reopen(%s%s)" % (act["k"], ",flush" if act["fl"] else "")
    if a == "GetLine":
        return "GetLine(%d,%s)" % (act["n"], act["k"])
    if a == "ServiceRx":
        return "ServiceRx(%s,%d)" % (act["k"], act["n"])
    if a in ("Open", "Receive", "ServiceRxOnce"):
        return "%s(%s)" % (a, act["k"])
    return a


# ------------------------------------------------------------------ binding B: recorded executions
def _jres(res):
    if res.get("t") == "bytes":
        return {"t": "bytes", "v": list(res["v"])}
    if res.get("t") == "ok" and "flaws" in res:
        return {"t": "ok", "flaws": list(res["flaws"])}
    return dict(res)


def _event(ad, name, a, res, upd, sent, rx):
    ev = {"ev": name, "res": _jres(res), "opened": ad.opened(), "sent": list(dec(sent)), "rx": list(rx)}
    if name in ("Type", "Scan"):
        ev["c"] = a["m"][0]
    if name in ("Open", "Reopen"):
        ev["k"] = a["k"]
    if name in ("Close", "Reopen"):
        ev["fl"] = bool(a.get("fl", False))
    if name in ("Receive", "GetLine", "ServiceRxOnce", "ServiceRx"):
        ev["k"] = upd.get("k", a["k"])
    if name == "GetLine":
        ev["b"] = a["n"]
    if name == "ServiceRx":
        ev["j"] = upd.get("n", a["n"])
    if name in ("Send", "Put", "Queue"):
        ev["m"] = list(a["m"])
    if name in ("Send", "Put"):
        ev["r"] = {"k": a["k"], "n": a["n"]}
    if name in ("ServiceTx", "ServiceTxOnce"):
        ev["s"] = [dict(r) for r in upd["s"]] if "s" in upd else [dict(r) for r in a["s"]]
    if ad.is_driver:
        ev["rxbs"] = list(dec_in(ad.x.rxbs))
        ev["txes"] = [list(dec(m)) for m in ad.x.txes]
    else:
        ev["rxbs"], ev["txes"] = [], []
    if not ad.pty:
        p = ad.e.port
        ev["nopen"] = len(p.handles) if not p.misuse else 99
        ev["nread"] = p.nread
        ev["src"] = list(dec_in(bytes(ad.e.readlog) + bytes(p.inq)))
    return ev


def _write_answer(rng, n, errors):
    q = rng.random()
    if q < 0.5:
        return {"k": "full", "n": 0}
    if q < 0.75 and n > 1:
        return {"k": "part", "n": rng.randint(1, n - 1)}
    if q < 0.85:
        return {"k": "zero", "n": 0}
    if q < 0.97 or not errors:
        return {"k": "eagain", "n": 0}
    return {"k": "error", "n": 0}


def _tx_script(rng, queue, errors):
    """answers for one transmit pass over `queue` (lengths): fulls, then maybe a terminal"""
    s = []
    for n in queue:
        r = _write_answer(rng, n, errors)
        s.append(r)
        if r["k"] == "error" or (n and r["k"] != "full"):
            break       # (an empty message leaves the queue whatever its zero length write is answered, short of an error)
    return s


def _message(rng):
    """1..6 bytes, now and then none at all"""
    return tuple(rng.randint(1, MAXB) for _ in range(0 if rng.random() < 0.08 else rng.randint(1, 6)))


class Escaped(Exception):
    """an exception the documentation does not allow came out of the code under test while an execution was recorded"""

    def __init__(self, evs, name, ex):
        Exception.__init__(self, str(ex))
        self.evs, self.name, self.ex = evs, name, ex
        self.where = replay.innermost_ioflo_frame(ex.__traceback__)


def _recorded(fn, rng, ad, subject, bs, nsteps):
    evs = [{"ev": "Init", "subject": subject, "bs": bs}]
    cur = ["Init"]
    try:
        if ad.kind() != subject:
            raise AssertionError("a Driver made %s pyserial serves its port through %s" % (
                "with" if subject == "drvserial" else "without", type(ad.nb).__name__))
        fn(rng, ad, subject, bs, nsteps, evs, cur)
    except Exception as ex:
        raise Escaped(evs, cur[0], ex) from ex
    finally:
        ad.close()
    return evs


def fake_trace(rng, subject, nsteps):
    bs = rng.choice([1, 2, 3, 5, 8])
    return _recorded(_fake_trace, rng, SerialAdapter(subject, bs), subject, bs, nsteps)


def _fake_trace(rng, ad, subject, bs, nsteps, evs, cur):
    p = ad.e.port
    console, driver = subject == "console", ad.is_driver
    typed = 0
    for _ in range(nsteps):
        opened = ad.opened()
        avail = len(p.readable())
        a = {"m": (), "k": "", "n": 0, "s": (), "fl": False}
        q = rng.random()
        if not opened and q < 0.5:
            name = "Open" if (console or rng.random() < 0.5) else "Reopen"
            a["k"] = "ok" if rng.random() < 0.8 else "fail"
        elif q < 0.04:
            name = "Close"
            a["fl"] = bool(opened and p.inq and rng.random() < 0.5)
        elif q < 0.07 and not console:
            name = "Reopen"
            a["k"] = "ok" if rng.random() < 0.85 else "fail"
            a["fl"] = bool(opened and p.inq and rng.random() < 0.5)
        elif q < 0.09 and not opened:
            name = "Close"
        elif q < 0.35 and p.handles:
            name = "Type"
            typed += 1
            a["m"] = ((0 if rng.random() < 0.3 else rng.randint(1, MAXB)),) if console else (rng.randint(1, MAXB),)
        elif q < 0.65:
            rk = "data" if avail else rng.choice(["eagain", "eagain", "empty", "error"])
            if avail and rng.random() < 0.04:
                rk = "error"
            if driver:
                name = "ServiceRxOnce" if rng.random() < 0.3 else "ServiceRx"
                if not opened:
                    a["k"] = "closed"
                elif name == "ServiceRx":
                    a["k"] = "error" if rng.random() < 0.1 else rng.choice(["eagain", "eagain", "empty"])
                    a["n"] = rng.randint(0, (avail + bs - 1) // bs) if a["k"] == "error" else 0
                else:
                    a["k"] = rk
            elif not opened:
                continue
            elif console:
                name = "GetLine"
                a["k"], a["n"] = rk, rng.choice([1, 2, 3, 80])
            else:
                name = "Receive"
                a["k"] = rk
        elif q < 0.80:
            m = _message(rng)
            a["m"] = m
            if driver:
                name = "Queue"
            elif not opened:
                continue
            else:
                name = "Put" if console else "Send"
                r = _write_answer(rng, len(m), errors=not console)
                if console and r["k"] == "eagain":
                    r = {"k": "zero", "n": 0}
                a["k"], a["n"] = r["k"], r["n"]
        elif driver and q < 0.93:
            name = "ServiceTxOnce" if rng.random() < 0.3 else "ServiceTx"
            if opened:
                lens = [len(m) for m in ad.x.txes]
                a["s"] = tuple(_tx_script(rng, lens[:1] if name == "ServiceTxOnce" else lens, errors=True))
        elif driver and q < 0.97:
            name = "Scan"
            a["m"] = (rng.choice(list(dec_in(ad.x.rxbs)) + [MAXB + 1]),)
        elif driver:
            name = "Clear"
        else:
            continue
        ngot = len(ad.got)
        cur[0] = name
        res, upd = ad.call(name, a)
        evs.append(_event(ad, name, a, res, upd, ad.e.sent(), ad.got[ngot:]))


def pty_trace(rng, subject, nsteps):
    """one seeded execution over a real pseudo terminal; returns (events, slow)"""
    bs = rng.choice([1, 2, 3, 5, 8])
    ad = SerialAdapter(subject, bs, pty=True)
    evs = _recorded(_pty_trace, rng, ad, subject, bs, nsteps)
    return evs, ad.e.slow


def _pty_trace(rng, ad, subject, bs, nsteps, evs, cur):
    console, driver = subject == "console", ad.is_driver
    e = ad.e
    unread = 0          # typed and not yet handed up (the harness' own count, only to steer the generator)
    line = 0            # console: length of the unterminated line (the tty's line buffer is finite)

    def do(name, a, expect=0):
        nonlocal unread
        ngot = len(ad.got)
        cur[0] = name
        res, upd = ad.call(name, a)
        sent = e.sent(upd.get("count", 0)) if name in ("Send", "Put", "ServiceTx", "ServiceTxOnce") else b""
        rx = ad.got[ngot:]
        unread -= len(rx)
        if name in ("Receive", "GetLine", "ServiceRxOnce"):
            upd["k"] = "data" if rx else "eagain"
        elif name == "ServiceRx":
            upd["k"] = "eagain" if ad.opened() else "closed"
        if name == "ServiceRxOnce" and not ad.opened():
            upd["k"] = "closed"
        evs.append(_event(ad, name, a, res, upd, sent, rx))

    for _ in range(nsteps):
        opened = ad.opened()
        a = {"m": (), "k": "", "n": 0, "s": (), "fl": False}
        q = rng.random()
        if not opened:
            if q < 0.6:
                a["k"] = "ok"
                do("Open" if (console or rng.random() < 0.5) else "Reopen", a)
            elif q < 0.7:
                do("Close", a)
            elif driver and q < 0.8:
                a["m"] = _message(rng)
                do("Queue", a)
            elif driver and q < 0.9:
                do(rng.choice(["ServiceRx", "ServiceRxOnce", "ServiceTx", "ServiceTxOnce"]), a)
            continue
        if q < 0.03:
            do("Close", a)
        elif q < 0.06 and not console:
            a["k"] = "ok"
            do("Reopen", a)
        elif q < 0.40:
            if console:
                c = 0 if (rng.random() < 0.3 or line > 40) else rng.randint(1, MAXB)
                line = 0 if c == 0 else line + 1
            else:
                c = rng.randint(1, MAXB)
            a["m"] = (c,)
            e.type(enc_in(a["m"]))
            unread += 1
            ngot = len(ad.got)
            evs.append(_event(ad, "Type", a, NONE, {}, b"", []))
            e.nudge(rng)
        elif q < 0.70:
            if driver:
                do("ServiceRxOnce" if rng.random() < 0.3 else "ServiceRx", a)
            elif console:
                a["n"] = rng.choice([1, 2, 3, 80])
                do("GetLine", a)
            else:
                do("Receive", a)
        elif q < 0.85:
            a["m"] = _message(rng)
            if driver:
                do("Queue", a)
            else:
                a["k"] = "full"
                do("Put" if console else "Send", a)
        elif driver and q < 0.95:
            name = "ServiceTxOnce" if rng.random() < 0.3 else "ServiceTx"
            lens = [len(m) for m in ad.x.txes]
            a["s"] = tuple({"k": "full", "n": 0} for _ in (lens[:1] if name == "ServiceTxOnce" else lens))
            do(name, a)
        elif driver and q < 0.98:
            a["m"] = (rng.choice(list(dec_in(ad.x.rxbs)) + [MAXB + 1]),)
            do("Scan", a)
        elif driver:
            do("Clear", a)
    # settle: everything typed while the object stayed open must come up eventually (complete lines for the console)
    if ad.opened():
        deadline = time.time() + 20.0
        quiet = 0
        while quiet < 3 and time.time() < deadline:
            a = {"m": (), "k": "", "n": 80, "s": (), "fl": False}
            before = len(ad.got)
            do("ServiceRx" if driver else "GetLine" if console else "Receive", a)
            if len(ad.got) == before:
                quiet += 1
                select.select([e.keep], [], [], 0.02)
            else:
                quiet = 0


def trace_cfg(lag):
    return cfg_text(SUBJECTS, {"BsSet": [1], "MaxTyped": 0, "MaxMsgs": 0, "MaxLen": 0}, lag=lag, props=False, spec="TraceSpec") + \
        "CONSTRAINT TraceOK\nCHECK_DEADLOCK FALSE\n"


# ------------------------------------------------------------------ the check
def _model(ctx, tag, subjects, consts):
    dot = env.subdir("xserial") + "/%s.dot" % tag
    res = tlc.run("Serial", cfg_text(subjects, consts), spec_dir=SPEC_DIR, dump_dot=dot, deadlock=False, tag="xserial-" + tag,
                  extra_env=jvm_env(ctx.quick), timeout=3600)
    return res, dot


def run(ctx):
    ctx.rule = ("A: complete state graphs of Serial.tla for console / device / serial and for Driver over DeviceNb / SerialNb; the "
                "port's answers to every open, read and write (data / would-block / nothing / error; full / partial of every "
                "length / zero / would-block / error; ok / fail; input dropped at close or not) are chosen by TLC; every edge "
                "replayed on the real class over a scripted port (fake os, termios, pyserial), handles / bytes read / input "
                "kept / wire / queue / buffer / result compared. B: seeded random executions over the scripted port and over a "
                "real pty validated by TLC against SerialTrace.tla (pty: TLC chooses when typed bytes land). "
                "distinct = graph edges + accepted traces")
    ctx.assume("TLC, the doubles of vf/families/_serial_doubles.py (FakePort, FakeOs, FakeTermios, FakeSerialMod) and the "
               "projection functions are trusted")
    ctx.assume("pyserial is not installed: SerialNb runs over a double module put in sys.modules; its Serial object answers "
               "read / write / reset_input_buffer / close as pyserial 3 documents them")
    ctx.assume("pty executions: the harness switches echo and output post-processing off on the pty and keeps a slave "
               "descriptor of its own; Linux pty semantics (canonical line discipline) are the environment")
    models = ctx.pick(
        [("nb", ("console", "device", "serial"), {"BsSet": [1, 2], "MaxTyped": 3, "MaxMsgs": 2, "MaxLen": 2, "Modes": ["rx", "tx", "both"]}),
         ("drv", ("drvdevice", "drvserial"), {"BsSet": [1, 2], "MaxTyped": 2, "MaxMsgs": 2, "MaxLen": 2, "Modes": ["rx", "tx", "both"]})],
        [("nb", ("console", "device", "serial"), {"BsSet": [1, 2, 3], "MaxTyped": 4, "MaxMsgs": 3, "MaxLen": 3, "Modes": ["rx", "tx", "both"]}),
         ("drv", ("drvdevice", "drvserial"), {"BsSet": [1, 2], "MaxTyped": 3, "MaxMsgs": 3, "MaxLen": 3, "Modes": ["rx", "tx", "both"]})])
    total = cov = 0
    with ThreadPoolExecutor(max_workers=2) as ex:
        runs = list(ex.map(lambda m: _model(ctx, m[0], m[1], m[2]), models))
    for (tag, subjects, consts), (res, dot) in zip(models, runs):
        ctx.add_model(res, "Serial[%s]" % tag, dict(consts, Subjects=list(subjects)))
        if not res.ok:
            ctx.diverge(Divergence(PROP, "model", res.error_name or res.error, "Serial", "specification property violated in the model",
                                   steps=[{"action": a, "state": s} for a, s in res.trace]))
            continue
        tlc.require_coverage(res, ["Init", "Open", "Next"], "Serial[%s]" % tag)
        g = graph.load_dot(dot)
        # vacuity guard proper: TLC labels most steps "Next" (their parameters range over state dependent sets)
        taken = {}
        for st in g.states.values():
            k = (st["subject"], st["act"]["a"])
            taken[k] = taken.get(k, 0) + 1
        missing = ["%s/%s" % (s, a) for s in subjects for a in ACTIONS[s] if not taken.get((s, a))]
        if missing:
            raise tlc.TlcError("vacuous model run (Serial[%s]): never taken: %s" % (tag, ", ".join(missing)))
        for (s, a), n in taken.items():
            ctx.actions.setdefault(a, [0, 0])[1] += n
        paths, traces = graph_traces(g, 40, _label)
        n, divs = replay.replay(PROP, traces, lambda init: SerialAdapter(str(init["subject"]), int(init["bs"])))
        for d in divs:
            s = d.steps[0]["state"]["subject"] if d.steps else "?"
            d.where = "%s:%s" % (s, d.where)
        ctx.diverge(divs)
        total += g.nedges
        cov += graph.covered_edges(paths)
        ex_ = [t for t in traces if t[0][2]["subject"] == subjects[0]]
        if ex_:
            ctx.add_validated(0, {"subject": subjects[0], "path": [s[0] for s in ex_[len(ex_) // 2]][:30]})
        ctx.add_validated(len(traces))
    t_a = time.time() - ctx.t0
    # ---- binding B
    rng = random.Random(ctx.seed)
    fake_plan = ctx.pick([(12, 150)], [(60, 300), (1, 3000)])
    jobs = []
    labels = []
    escaped = {}

    def record(fn, *a):
        """one recorded execution, or None when an exception escaped the code under test (reported once per place)"""
        try:
            return fn(*a)
        except Escaped as ex:
            key = (a[1], ex.name, ex.where, type(ex.ex).__name__)
            if key not in escaped:
                escaped[key] = True
                ctx.diverge(Divergence(PROP, "exception", ex.name, "%s:%s" % (a[1], ex.where), "%s: %s" % (type(ex.ex).__name__, str(ex.ex)[:200]),
                                       steps=ex.evs[:1] + ex.evs[-10:]))
            return None

    for (count, steps) in fake_plan:
        trs = [t for t in (record(fake_trace, rng, s, steps) for s in SUBJECTS for _ in range(count)) if t]
        rng.shuffle(trs)
        if trs:
            jobs.append(("SerialTrace", trace_cfg(False), trs, ctx.pick(60, 100) if steps < 1000 else 2))
            labels.append("double")
    npty, steps = ctx.pick((6, 120), (30, 250))
    ptrs, nslow = [], 0
    for s in ("console", "device", "drvdevice"):
        for _ in range(npty):
            rec = record(pty_trace, rng, s, steps)
            if rec is None:
                continue
            evs, slow = rec
            if slow:
                nslow += 1       # the kernel did not deliver in time: no verdict from this execution
            else:
                ptrs.append(evs)
    if ptrs:
        jobs.append(("SerialTrace", trace_cfg(True), ptrs, ctx.pick(18, 60)))
        labels.append("pty")
    if nslow:
        ctx.note("%d pty execution(s) skipped: output did not reach the master end within 20 s" % nslow)
    t_rec = time.time() - ctx.t0
    outs = validate_jobs(jobs, SPEC_DIR, quick=ctx.quick, timeout=7200)
    acc = ntr = 0
    for lab, (_, _, trs, _), out in zip(labels, jobs, outs):
        ntr += len(trs)
        ctx.states += out.states
        ctx.transitions += out.generated
        acc += len(out.accepted)
        ctx.add_validated(len(out.accepted), {"env": lab, "trace": trs[0][:8]})
        for i, pref in sorted(out.rejected.items())[:10]:
            ev = trs[i][pref] if 0 <= pref < len(trs[i]) else {}
            ctx.diverge(Divergence(PROP, "rejected", ev.get("ev", "?"), "%s:%s-trace" % (trs[i][0]["subject"], lab),
                                   "recorded execution is not a behaviour of Serial.tla at event %d: %s" % (pref + 1, _short(ev)),
                                   steps=trs[i][:1] + trs[i][max(1, pref - 8):pref + 1]))
        for (i, err, name, tr) in out.model_errors[:5]:
            ctx.diverge(Divergence(PROP, "rejected", name or err, "%s:%s-trace-invariant" % (trs[i][0]["subject"], lab),
                                   "invariant %s violated on a recorded execution" % name, steps=trs[i][:40]))
    ctx.exhaustive = (cov == total and total > 0)
    ctx.extra.update({"graph_edges": total, "edges_replayed": cov, "random_traces": ntr, "random_traces_accepted": acc,
                      "pty_traces": len(ptrs), "pty_traces_skipped_slow": nslow,
                      "wall_model_and_replay_s": round(t_a, 1), "wall_recording_s": round(t_rec - t_a, 1),
                      "wall_trace_validation_s": round(time.time() - ctx.t0 - t_rec, 1),
                      "distinct_nontrivial": cov + acc, "evaluations": cov + ntr})


def _short(ev):
    return {k: ev[k] for k in ("ev", "k", "b", "m", "r", "s", "j", "res", "opened", "sent", "rx", "nopen") if k in ev}


EXTRAS = {"serial": run}
