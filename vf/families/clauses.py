"""C15 - optional clauses of a command may appear in any order (specs/build/Clauses.tla).

TLC explores, for every verb with a documented clause set, every subset of clauses (with distinct argument words,
at most one clause in an alternative or invalid wording) and every order of writing them, checks that the parsed
record depends on the set only (Confluent) and that the documented shapes of the arguments read the written words
back unambiguously (ReadBack), and prints every finished command.  Binding A: each command is placed in a minimal
script, built with the real Builder, and
  * the outcome (built / ParseError) must be what the docstrings promise (`out`),
  * the structure the builder produced for that command must carry the argument words of `rec`
    (framer schedule/period/order/first/inode, frame over/inode, act actor name/inits/ioinits/parms/context/prerefs,
    logger / log / server attributes, clone records, rear / raze parms, marker parms),
  * all orders of one clause set must give identical projections of the whole house before and after link
    resolution (only the echoed command text differs), or the same ParseError message.
"""
import json
import zlib
from concurrent.futures import ProcessPoolExecutor

from .. import env, tlc
from ..replay import Divergence
from . import _bscript as B

SPEC_DIR = env.SPECS + "/build"
VERBS = ["framer", "frame", "do", "logger", "log", "server", "aux", "rear", "raze", "bid", "need"]

PRELUDE = """house hc
  init .a.b with value 1
  init .a.c with value 2
  init .src.from with fa1 5 other 6
  init .src.for with fo ".io.fo"
  init .src.qua with qa 8
  init .src.srv with fo 1
"""


def _orig(schedule):
    return "  framer orig be %s first o1\n    frame o1\n      print hello\n" % schedule


def script_for(row, logdir):
    """the minimal valid script around the command of one terminal state"""
    verb = row["verb"]
    cmd = " ".join(w.replace("LOGDIR", logdir) for w in row["cmd"])
    s = PRELUDE
    if verb == "framer":
        s += "  %s\n    frame fa\n    frame fb\n" % cmd
    elif verb == "frame":
        s += "  framer ft be active\n    frame fa\n    %s\n" % cmd
    elif verb == "logger":
        s += "  %s\n    log lga\n      loggee .a.b\n  framer ft be active\n    frame fa\n" % cmd
    elif verb == "log":
        s += "  logger lg to %s\n    %s\n      loggee .a.b\n  framer ft be active\n    frame fa\n" % (logdir, cmd)
    elif verb == "server":
        s += "  %s\n  framer ft be active\n    frame fa\n" % cmd
    else:
        if verb == "aux":
            s += _orig("moot" if "as" in row["rec"] else "aux")
        elif verb == "rear":
            s += _orig("moot")
        s += "  framer ft be active first fb\n    frame fa\n    frame fb\n      %s\n" % cmd
    return s


def lit(tok):
    """documented conversion of the few literal words used in the clause table"""
    if len(tok) >= 2 and tok[0] == tok[-1] == '"':
        return tok[1:-1]
    try:
        return int(tok)
    except ValueError:
        pass
    try:
        return float(tok)
    except ValueError:
        return tok


def data(words):
    """direct data: value | field value [field value ...] -> [[field, value], ...]"""
    if len(words) == 1:
        return [["value", lit(words[0])]]
    return [[words[i], lit(words[i + 1])] for i in range(0, len(words), 2)]


def source(words):
    """[field ... in] path -> [path, [fields]]"""
    if "in" in words:
        k = words.index("in")
        return [words[k + 1], list(words[:k])]
    return [words[0], []]


def _find_act(frame, actor):
    for ctx, _ in B.CONTEXT_LISTS:
        for a in frame[ctx]:
            if a["actor"] == actor:
                return a
    return None


def _framer(pre, name):
    for f in pre["framers"]:
        if f["name"] == name:
            return f
    return None


def _frame(pre, framer, name):
    f = _framer(pre, framer)
    for fr in (f or {}).get("frames", []):
        if fr["name"] == name:
            return fr
    return None


def _tasker(pre, name):
    for t in pre["taskers"]:
        if t["name"] == name:
            return t
    return None


def check_record(row, pre, logdir):
    """compare the structure built for the command with the words of the specification's record.
    Returns [(field, expected, actual)] for every clause whose effect the documentation determines."""
    verb, rec, var = row["verb"], row["rec"] or {}, row["variant"] or {}
    bad = []

    def want(field, exp, act):
        if exp != act:
            bad.append((field, exp, act))

    def has(field, pairs, container):
        for k, v in pairs:
            if [k, v] not in container:
                bad.append((field, [k, v], container))

    if verb == "framer":
        f = _framer(pre, "ft")
        if f is None:
            return [("framer", "ft", None)]
        sched = rec["be"][0] if "be" in rec else None
        if sched:
            want("framer.schedule", sched, f["schedule"])
        if "at" in rec:
            want("framer.period", max(0.0, float(rec["at"][0])), f["period"])
        if "in" in rec and sched in (None, "active", "inactive"):
            want("framer.order", rec["in"][0], f["order"])
        if "first" in rec:
            want("framer.first", rec["first"][0], f["first"])
        if "via" in rec and var["via"] == 1:
            want("framer.inode", rec["via"][0], f["inode"])
    elif verb == "frame":
        fr = _frame(pre, "ft", "fb")
        if fr is None:
            return [("frame", "fb", None)]
        if "in" in rec:
            want("frame.over", rec["in"][0], fr["over"])
        if "via" in rec and var["via"] == 1:
            want("frame.inode", rec["via"][0], fr["inode"])
    elif verb == "do":
        fr = _frame(pre, "ft", "fb")
        a = _find_act(fr, "VfClause") if fr else None
        if a is None:
            return [("do.actor", "VfClause", None)]
        want("do.context", rec["at"][0] if "at" in rec else "recur", a["context"])
        if "as" in rec:
            has("do.inits", [["name", "".join(w.capitalize() for w in rec["as"])]], a["inits"])
        else:
            want("do.inits.name", [], [x for x in a["inits"] if x[0] == "name"])
        if "via" in rec and var["via"] == 1:
            has("do.ioinits", [["inode", rec["via"][0]]], a["ioinits"])
        if "via" not in rec:
            want("do.ioinits.inode", [], [x for x in a["ioinits"] if x[0] == "inode"])
        want("do.parms", data(rec["with"]) if "with" in rec else [], a["parms"])
        want("do.ioinits(per)", data(rec["per"]) if "per" in rec else [], [x for x in a["ioinits"] if x[0] != "inode"])
        want("do.inits(cum)", data(rec["cum"]) if "cum" in rec else [], [x for x in a["inits"] if x[0] != "name"])
        for key, conn in (("parms", "from"), ("ioinits", "for"), ("inits", "qua")):
            if conn in rec and var[conn] > 2:       # relative address: how a relation is written into the path is not documented
                want("do.prerefs.%s(%s)" % (key, conn), 1, len(a["prerefs"][key]))
                continue
            want("do.prerefs.%s(%s)" % (key, conn), [source(rec[conn])] if conn in rec else [], a["prerefs"][key])
    elif verb == "logger":
        t = _tasker(pre, "lg")
        if t is None:
            return [("logger", "lg", None)]
        sched = rec["be"][0] if "be" in rec else None
        if "to" in rec:
            want("logger.prefix", logdir, t["prefix"])
        if "at" in rec:
            want("logger.period", float(rec["at"][0]), t["period"])
        if sched:
            want("logger.schedule", sched, t["schedule"])
        if "in" in rec and sched in (None, "active", "inactive"):
            want("logger.order", rec["in"][0], t["order"])
        for conn, key, conv in (("flush", "flush", float), ("keep", "keep", int), ("cycle", "cycle", float), ("size", "size", int)):
            if conn in rec:
                want("logger." + key, conv(rec[conn][0]), t[key])
        want("logger.reuse", "reuse" in rec, t["reuse"])
    elif verb == "log":
        t = _tasker(pre, "lg")
        lg = [x for x in (t or {}).get("logs", []) if x["name"] == "lga"]
        if not lg:
            return [("log", "lga", None)]
        lg = lg[0]
        want("log.file", rec["to"][0] if "to" in rec else "lga", lg["file"])      # docstring: default is the log's name
        want("log.kind", rec["as"][0] if "as" in rec else "text", lg["kind"])
        want("log.rule", rec["on"][0].capitalize() if "on" in rec else "Never", lg["rule"])
    elif verb == "server":
        t = _tasker(pre, "sv")
        if t is None:
            return [("server", "sv", None)]
        sched = rec["be"][0] if "be" in rec else None
        if "at" in rec:
            want("server.period", float(rec["at"][0]), t["period"])
        if sched:
            want("server.schedule", sched, t["schedule"])
        if "in" in rec and sched in (None, "active", "inactive"):
            want("server.order", rec["in"][0], t["order"])
        if "rx" in rec:
            h, p = rec["rx"][0].split(":")
            want("server.sha", [h, int(p)], t["sha"])
        if "tx" in rec:
            w = rec["tx"][0]
            want("server.dha", [w.split(":")[0], int(w.split(":")[1])] if ":" in w else [w, (t["dha"] or [0, 0])[1]], t["dha"])
        if "to" in rec:
            want("server.prefix", True, str(t["prefix"]).startswith(logdir))
    elif verb == "aux":
        f = _framer(pre, "ft")
        fr = _frame(pre, "ft", "fb")
        if fr is None:
            return [("aux.frame", "fb", None)]
        sus = _find_act(fr, "Suspender")
        if "if" in rec:
            nneeds = 1 + rec["if"].count("and")
            got = None
            if sus:
                got = len(dict((k, v) for k, v in sus["parms"])["needs"])
            want("aux.if.needs", nneeds, got)
        else:
            want("aux.suspender", None, sus and sus["actor"])
        if "as" in rec and "if" not in rec:
            tag = rec["as"][0]
            moots = f["moots"]
            want("aux.moots", 1, len(moots))
            if moots:
                m = moots[0]
                want("aux.clone.original", "orig", m["original"])
                if tag != "mine":
                    want("aux.clone.tag", tag, m["clone"])
                want("aux.clone.insular", tag == "mine", m["insular"])
                if "via" in rec and var["via"] == 1:
                    want("aux.clone.inode", rec["via"][0], m["inode"])
                want("aux.frame.auxes", [{"tag": m["clone"]}], fr["auxes"])
        if "as" not in rec and "if" not in rec:
            want("aux.frame.auxes", ["orig"], fr["auxes"])
    elif verb in ("rear", "raze", "bid"):
        fr = _frame(pre, "ft", "fb")
        actor = {"rear": "Rearer", "raze": "Razer", "bid": "WantStop"}[verb]
        a = _find_act(fr, actor) if fr else None
        if a is None:
            return [(verb + ".actor", actor, None)]
        p = dict((k, v) for k, v in a["parms"])
        if verb == "rear":
            want("rear.original", "orig", p.get("original"))
            want("rear.clone", rec["as"][0] if "as" in rec else "mine", p.get("clone"))
            want("rear.frame", rec["in"][1], p.get("frame"))
            want("rear.context", "enter", a["context"])
        elif verb == "raze":
            want("raze.who", "all", p.get("who"))
            want("raze.frame", (rec["in"][1] if len(rec["in"]) > 1 else "me") if "in" in rec else "me", p.get("frame"))
            want("raze.context", "exit", a["context"])
        else:
            want("bid.taskers", ["me"], p.get("taskers"))
            want("bid.period", float(rec["at"][0]) if "at" in rec else None, p.get("period"))
    elif verb == "need":
        fr = _frame(pre, "ft", "fb")
        a = _find_act(fr, "Transiter") if fr else None
        if a is None:
            return [("need.transiter", "Transiter", None)]
        p = dict((k, v) for k, v in a["parms"])
        needs = p.get("needs") or []
        want("need.count", 2 if "and" in row["cmd"] else 1, len(needs))
        want("need.far", "fa", p.get("far"))
        if needs:
            n0 = dict((k, v) for k, v in needs[0]["parms"])
            want("need.actor", "NeedUpdate", needs[0]["actor"])
            want("need.share", ".a.b", n0.get("share"))
            want("need.frame", (rec["in"][1] if len(rec["in"]) > 1 else "me") if "in" in rec else "", n0.get("frame"))
            want("need.marker", rec["by"][0] if "by" in rec else "", n0.get("marker"))
    return bad


def strip_human(x):
    """the echoed command text (`human`) necessarily differs between orders; everything else must not"""
    if isinstance(x, dict):
        return {k: strip_human(v) for k, v in x.items() if k != "human"}
    if isinstance(x, list):
        if len(x) == 2 and x[0] == "human":
            return ["human", "-"]
        return [strip_human(v) for v in x]
    return x


def outcome_unspecified(row):
    """aux: the docstring shows cloned conditional auxiliaries, the builder refuses them ("may not be clone"):
    documentation and code disagree independently of the order, so only order-independence is checked there"""
    return row["verb"] == "aux" and "as" in (row["rec"] or {}) and "if" in (row["rec"] or {})


_logdir = None


def _register():
    B.install()
    from ioflo.base import doing
    if "VfClause" not in doing.Doer.Registry:
        @doing.doify('VfClause')
        def vfclause(self, **kw):
            return None


def eval_row(row):
    """build one command; returns a compact result"""
    _register()
    logdir = env.subdir("c15log")
    text = script_for(row, logdir)
    r = B.build(text)
    pre = r["pre"][0] if r["pre"] else None
    res = {"outcome": r["outcome"], "etype": r["etype"], "msg": r["msg"], "where": r["where"], "bad": [], "script": text}
    if r["outcome"] == "built" and pre is not None and row["out"] == "built":
        res["bad"] = check_record(row, pre, logdir)
    res["sig"] = json.dumps([strip_human(pre), strip_human(r["post"])], sort_keys=True, default=repr) if r["outcome"] == "built" else ""
    return res


def _chunk(rows):
    return [eval_row(r) for r in rows]


def pmap_rows(rows, nproc):
    if nproc <= 1 or len(rows) < 400:
        return _chunk(rows)
    size = max(50, len(rows) // (nproc * 8))
    chunks = [rows[i:i + size] for i in range(0, len(rows), size)]
    out = []
    with ProcessPoolExecutor(max_workers=nproc) as ex:
        for part in ex.map(_chunk, chunks):
            out.extend(part)
    return out


def emitted(res):
    rows = B.emitted_json(res.out)
    for r in rows:
        for k in ("rec", "variant", "clauses"):
            if not isinstance(r[k], dict):
                r[k] = {}
    return rows


def cfg_text(maxtake, emit=True):
    s = open(SPEC_DIR + "/Clauses.cfg").read()
    return s.replace("MaxTake = 3", "MaxTake = %d" % maxtake).replace("Emit = FALSE", "Emit = %s" % ("TRUE" if emit else "FALSE"))


def key_of(row):
    return json.dumps([row["verb"], sorted(row["rec"].items()), row["cmd"][-4:] if row["verb"] == "need" and "and" in row["cmd"] else []],
                      sort_keys=True)


def run_c15(ctx):
    ctx.rule = ("every subset of the documented optional clauses of framer, frame, do, logger, log, server, aux, rear, raze, bid "
                "and the marker need (distinct argument words; at most one clause in an alternative or invalid wording) x every "
                "order of writing them, up to MaxTake clauses exhaustively plus random larger commands; distinct = distinct "
                "commands built")
    maxtake = ctx.pick(3, 4)
    # every Close prints one finished command; the specification also prints how many there must be (counted from the table)
    def expected(r):
        vals = [v[1] for v in tlc.printed_values(r.out) if len(v) == 2 and v[0] == "EXPECTED"]
        if not vals:
            raise tlc.TlcError("Clauses did not print the expected number of commands")
        return vals[0]

    res, _ = B.run_emitting(lambda w: tlc.run("Clauses", cfg_text(maxtake), spec_dir=SPEC_DIR, tag="c15", workers=w), expected, "Clauses")
    ctx.add_model(res, "Clauses", {"MaxTake": maxtake, "Verbs": VERBS})
    if not res.ok:
        ctx.diverge(Divergence("C15", "model", res.error_name or res.error, "Clauses", "specification property violated in the model",
                               steps=[{"action": a, "state": s} for a, s in res.trace]))
        return
    tlc.require_coverage(res, ["TakeAny", "Close"], "Clauses")
    rows = emitted(res)
    nexh = len(rows)
    # larger commands: random subsets and orders of all clauses of a verb
    nsim = ctx.pick(100, 2500)      # behaviours per simulation worker
    sim = tlc.run("Clauses", cfg_text(9), spec_dir=SPEC_DIR, simulate={"num": nsim, "depth": 12}, seed=ctx.seed, tag="c15sim",
                  coverage=False, workers=4)
    ctx.add_model(sim, "Clauses-simulate", {"MaxTake": 9, "behaviours_per_worker": nsim, "workers": 4})
    if not sim.ok:
        ctx.diverge(Divergence("C15", "model", sim.error_name or sim.error, "Clauses", "specification property violated in the model (simulation)",
                               steps=[{"action": a, "state": s} for a, s in sim.trace]))
        return
    seen = set(json.dumps(r["cmd"]) for r in rows)
    for r in emitted(sim):
        k = json.dumps(r["cmd"])
        if k not in seen:
            seen.add(k)
            rows.append(r)
    results = pmap_rows(rows, min(env.NCPU, 8))
    groups = {}
    nbuilt = nerr = 0
    clause_seen = set()
    for row, r in zip(rows, results):
        groups.setdefault(key_of(row), []).append((row, r))
        order = [w for w in row["cmd"]]
        label = " ".join(order)
        if r["outcome"] == "built":
            nbuilt += 1
            for c in row["rec"]:
                clause_seen.add((row["verb"], c))
        # 1. outcome promised by the docstrings
        if not outcome_unspecified(row):
            if row["out"] == "built" and r["outcome"] != "built":
                if r["outcome"] == "error" and r["etype"] not in B.SCRIPT_ERRORS:
                    ctx.diverge(Divergence("C15", "exception", row["verb"], r["where"], "%s: %s" % (r["etype"], r["msg"][:160]),
                                           steps=[{"command": label, "script": r["script"]}], expected="built", actual=r["etype"]))
                else:
                    ctx.diverge(Divergence("C15", "state-mismatch", row["verb"], row["verb"] + ".outcome",
                                           "documented command refused: %s %s" % (r["etype"] or r["outcome"], _clean(r["msg"])),
                                           steps=[{"command": label, "script": r["script"]}], expected="built", actual=r["etype"] or r["outcome"]))
            elif row["out"] == "ParseError":
                nerr += 1
                if not (r["outcome"] == "error" and r["etype"] == "ParseError"):
                    ctx.diverge(Divergence("C15", "state-mismatch", row["verb"], row["verb"] + ".outcome",
                                           "invalid clause value accepted or misreported: %s %s" % (r["etype"] or r["outcome"], _clean(r["msg"])),
                                           steps=[{"command": label, "script": r["script"]}], expected="ParseError", actual=r["etype"] or r["outcome"]))
        # 2. the built structure carries the record
        for (field, exp, act) in r["bad"][:3]:
            ctx.diverge(Divergence("C15", "state-mismatch", row["verb"], field,
                                   "clause words not found in the built structure: expected %r got %r" % (exp, act),
                                   steps=[{"command": label, "script": r["script"]}], expected=exp, actual=act))
    # 3. all orders of one clause set agree
    norders = 0
    for k, items in groups.items():
        norders += len(items)
        row0, r0 = items[0]
        for row, r in items[1:]:
            a = (r0["outcome"], r0["etype"], _clean(r0["msg"]), r0["sig"])
            b = (r["outcome"], r["etype"], _clean(r["msg"]), r["sig"])
            if a != b:
                what = "outcome" if a[:3] != b[:3] else "structure"
                ctx.diverge(Divergence("C15", "state-mismatch", row["verb"], row["verb"] + ".order-" + what,
                                       "two orders of the same clauses differ: [%s] -> %s ; [%s] -> %s" % (
                                           " ".join(row0["cmd"]), _short(a), " ".join(row["cmd"]), _short(b)),
                                       steps=[{"command": " ".join(row0["cmd"]), "script": r0["script"]},
                                              {"command": " ".join(row["cmd"]), "script": r["script"]}],
                                       expected=_short(a), actual=_short(b)))
                break
    # vacuity guards
    missing = [(v, c) for v in VERBS for c in CLAUSE_IDS[v] if (v, c) not in clause_seen]
    if missing and not ctx.divs:
        raise tlc.TlcError("C15 vacuous: no built command exercises clauses %r" % (missing,))
    if nerr == 0 and not ctx.divs:
        raise tlc.TlcError("C15 vacuous: no command with an invalid clause value was generated")
    ctx.add_validated(len(rows), {"command": " ".join(rows[len(rows) // 2]["cmd"]), "record": rows[len(rows) // 2]["rec"],
                                  "outcome": results[len(rows) // 2]["outcome"]})
    ctx.sample({"command": " ".join(rows[-1]["cmd"]), "record": rows[-1]["rec"], "outcome": results[-1]["outcome"]})
    ctx.exhaustive = False
    ctx.extra.update({"commands_built": len(rows), "exhaustive_commands": nexh, "clause_sets": len(groups), "built": nbuilt,
                      "parse_errors_expected": nerr, "evaluations": len(rows), "distinct_nontrivial": len(rows)})
    ctx.assume("clause argument words avoid the two ambiguities of the documented grammar itself (a source without `fields in` "
               "directly followed by an `in` clause; an optional trailing name followed by a non-reserved connective)")
    ctx.assume("aux with both `as` and `if`: docstring and builder disagree (refused as 'may not be clone') for every order; "
               "only order-independence is checked for that combination")


CLAUSE_IDS = {"framer": ["be", "at", "in", "first", "via"], "frame": ["in", "via"],
              "do": ["as", "at", "via", "with", "from", "per", "for", "cum", "qua"],
              "logger": ["to", "at", "be", "in", "flush", "keep", "cycle", "size", "reuse"], "log": ["to", "as", "on"],
              "server": ["at", "be", "rx", "tx", "in", "to", "per", "for"], "aux": ["as", "via", "if"],
              "rear": ["as", "be", "in"], "raze": ["in"], "bid": ["at"], "need": ["in", "by"]}


def _clean(msg):
    return " ".join(str(msg).split())[:200]


def _short(t):
    return "%s %s %s%s" % (t[0], t[1], t[2][:120], "" if not t[3] else " <structure %08x>" % zlib.crc32(t[3].encode()))


PROPERTIES = {"C15": run_c15}
