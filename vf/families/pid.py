"""C46 - PID controller limits (specs/ctl/Pid.tla, PidTrace.tla).

Binding B.  The real ControllerPid deed is created over a real Store through its ioinit interface (_initio with group,
output, input, rate, rsp, parms), then driven with seeded sequences of updates: before every action the harness sets the
input / rate / set point shares, now and then the parameter share, and moves the store's time stamp (forward by a dyadic
lapse, not at all, backward, to infinity); sometimes it calls the deed's restart.  Every action is logged as an event
with the parameters, the inputs, the lapse the deed published and the shares afterwards (error, error rate, error sum,
prior set point, output).  TLC validates every recorded run against PidTrace.tla - each recorded share must be what
the specification's Update admits, the blend factor of the integrator staying existential - and checks OutWithinLimits,
SumWithinLimits, ErrorIsShortestWrap and BigSetpointChangeResetsIntegrator on every recorded step.
TLC also explores Pid.tla itself on a small grid (breadth first to depth 1; thorough: also random walks) with the same invariants.

All finite values live on a grid that keeps every float operation of the deed exact (set points, inputs and wrap are
multiples of 3/4, lapses 1/4 .. 2, gains multiples of 1/2, rates multiples of 1/4), so the recorded floats equal the
specification's scaled integers; a value that leaves the grid ends the recorded run there (counted, never reported).
"""
import os
import random
from fractions import Fraction

from .. import env, tlc, trace
from ..replay import Divergence, innermost_ioflo_frame

SPEC_DIR = env.SPECS + "/ctl"
S, Q = 4096, 8
INVS = ["OutWithinLimits", "SumWithinLimits", "ErrorIsShortestWrap", "BigSetpointChangeResetsIntegrator", "Representable"]
INF = float("inf")
NAN = float("nan")


class OffGrid(Exception):
    pass


def _enc(x, scale, step=1):
    """float -> tagged scaled integer of the specification; OffGrid when it is not exactly representable"""
    if isinstance(x, bool) or not isinstance(x, (int, float)):
        raise OffGrid("not a number: %r" % (x,))
    if x != x:
        return {"k": "nan", "v": 0}
    if x == INF:
        return {"k": "inf", "v": 0}
    if x == -INF:
        return {"k": "ninf", "v": 0}
    f = Fraction(x) * scale
    if f.denominator != 1 or abs(f.numerator) >= 2 ** 27 or f.numerator % step:
        raise OffGrid(repr(x))
    return {"k": "fin", "v": int(f.numerator)}


def _enc_parms(p):
    out = {"calcRate": bool(p["calcRate"])}
    for k in ("wrap", "drsp", "esmin", "esmax", "ovmin", "ovmax"):
        out[k] = _enc(p[k], S)
    for k in ("ger", "gff", "gpe", "gde", "gie"):
        out[k] = _enc(p[k], Q, 4)
    return out


class Rig:
    """one real ControllerPid over its own Store"""

    def __init__(self, parms):
        env.use_repo()
        from ioflo.base import storing
        from ioflo.aid.odicting import odict
        from ioflo.trim.interior.plain import controlling
        storing.Store.Clear()
        self.store = storing.Store(name="c46")
        self.deed = controlling.ControllerPid(name="pid", store=self.store)
        iois = self.deed._initio(odict(group="controller.pid.vf", output="goal.vf", input="state.vf", rate="state.vfRate",
                                       rsp="goal.vfsp", parms=dict(parms)))
        assert not iois
        f = self.store.fetch
        self.parm = f("controller.pid.vf.parm")
        self.shares = {"e": f("controller.pid.vf.error"), "er": f("controller.pid.vf.errorRate"), "es": f("controller.pid.vf.errorSum"),
                       "prsp": f("controller.pid.vf.prsp"), "out": f("goal.vf")}
        self.elapsed = f("controller.pid.vf.elapsed")
        self.input, self.rate, self.rsp = f("state.vf"), f("state.vfRate"), f("goal.vfsp")

    def state(self):
        return {k: _enc(s.value, S, 4 if k == "es" else 1) for k, s in self.shares.items()}


def _pick_nonfinite(rng):
    return rng.choice([INF, -INF, NAN])


def _draw_parms(rng, wild):
    def gain(choices):
        if wild and rng.random() < 0.04:
            return _pick_nonfinite(rng)
        return rng.choice(choices)
    gains = [x / 2.0 for x in range(-6, 9)]
    lims_s = [-INF, -6.0, -3.0, -0.75, 0.0, 0.75, 3.0, 6.0, INF]
    lims_o = [-INF, -20.0, -6.0, -1.5, 0.0, 1.5, 6.0, 20.0, INF]
    a, b = sorted([rng.choice(lims_s), rng.choice(lims_s)])
    c, d = sorted([rng.choice(lims_o), rng.choice(lims_o)])
    if rng.random() < 0.5:      # the common shape: limits around zero
        a, b = -abs(rng.choice(lims_s[1:])), abs(rng.choice(lims_s[:-1]))
        c, d = -abs(rng.choice(lims_o[1:])), abs(rng.choice(lims_o[:-1]))
        a, b, c, d = min(a, b), max(a, b), min(c, d), max(c, d)
    wrap = rng.choice([0.0, 0.0, 3.0, 6.0, 9.0, 13.5, -6.0])
    if wild and rng.random() < 0.03:
        wrap = rng.choice([INF, NAN])
    drsp = rng.choice([0.0, 0.125, 0.75, 1.5, 3.0, -1.0]) if not (wild and rng.random() < 0.06) else rng.choice([INF, NAN])
    return dict(wrap=wrap, drsp=drsp, calcRate=rng.random() < 0.6,
                ger=gain([1.0, -1.0, 0.5, 2.0, 0.0]), gff=gain(gains + [0.0] * 6), gpe=gain(gains), gde=gain(gains + [0.0] * 6),
                gie=gain(gains + [1.0] * 4), esmin=a, esmax=b, ovmin=c, ovmax=d)


def _signal(rng, wild, near=None):
    if wild and rng.random() < 0.05:
        return _pick_nonfinite(rng)
    if near is not None and near == near and abs(near) != INF and rng.random() < 0.5:
        return max(-12.0, min(12.0, near + 0.75 * rng.choice([0, 0, 1, -1, 2, -2])))      # small moves: the blend is then partial
    return 0.75 * rng.randint(-16, 16)


def record_run(rng, nsteps, wild):
    """-> (events, off_grid_reason or None, exception divergence or None)"""
    parms = _draw_parms(rng, wild)
    rig = Rig(parms)
    zero_in = {"input": _enc(0.0, S), "rate": _enc(0.0, S), "rsp": _enc(0.0, S), "lapse": _enc(0.0, Q)}
    try:
        evs = [dict(ev="Init", p=_enc_parms(parms), **{"in": zero_in}, **rig.state())]
    except OffGrid as ex:
        return [], str(ex), None
    stamp = 0.0
    rig.store.changeStamp(stamp)
    inp = rsp = 0.0
    for _ in range(nsteps):
        c = rng.random()
        if c < 0.05:
            rig.deed.restart()
            try:
                evs.append({"ev": "Restart", "es": rig.state()["es"]})
            except OffGrid as ex:
                return evs, str(ex), None
            continue
        if c < 0.15:       # parameters change between runs
            new = _draw_parms(rng, wild)
            for k in rng.sample(sorted(new), rng.randint(1, 4)):
                parms[k] = new[k]
            if not (parms["esmin"] <= parms["esmax"]):
                parms["esmin"], parms["esmax"] = parms["esmax"], parms["esmin"]
            if not (parms["ovmin"] <= parms["ovmax"]):
                parms["ovmin"], parms["ovmax"] = parms["ovmax"], parms["ovmin"]
            rig.parm.update(**parms)
        inp = _signal(rng, wild, inp)
        if rng.random() < 0.45:
            rsp = _signal(rng, wild, rsp if rng.random() < 0.5 else None)
        rate = 0.25 * rng.randint(-8, 8) if not (wild and rng.random() < 0.05) else _pick_nonfinite(rng)
        c = rng.random()
        if c < 0.07:
            pass                                     # time stands still
        elif c < 0.10 and stamp == stamp and abs(stamp) != INF:
            stamp -= rng.choice([0.25, 1.0])         # time goes back
        elif wild and c < 0.13:
            stamp = INF
        elif stamp != stamp or abs(stamp) == INF:
            stamp = 64.0                             # back from infinity
        else:
            stamp += rng.choice([0.25, 0.5, 1.0, 2.0])
        rig.input.value, rig.rate.value, rig.rsp.value = inp, rate, rsp
        rig.store.changeStamp(stamp)
        try:
            rig.deed()                               # Actor.__call__ -> action
        except Exception as ex:
            return evs, None, Divergence("C46", "exception", "Update", innermost_ioflo_frame(ex.__traceback__),
                                         "action raised %s" % type(ex).__name__, steps=evs[-3:],
                                         actual=repr(ex), extra={"parms": {k: repr(v) for k, v in parms.items()},
                                                                 "input": repr(inp), "rate": repr(rate), "rsp": repr(rsp), "stamp": repr(stamp)})
        try:
            ev = {"ev": "Update", "p": _enc_parms(parms),
                  "in": {"input": _enc(inp, S), "rate": _enc(rate, S), "rsp": _enc(rsp, S), "lapse": _enc(rig.elapsed.value, Q)}}
            ev.update(rig.state())
        except OffGrid as ex:
            return evs, str(ex), None
        evs.append(ev)
    return evs, None, None


def _dec(x, scale):
    return {"nan": NAN, "inf": INF, "ninf": -INF}.get(x["k"], x["v"] / scale)


def _hint(ev):
    """which part of the property a rejected event breaks, judged on the recorded floats (for the report only)"""
    if ev.get("ev") != "Update":
        return "restart"
    p, lapse = ev["p"], _dec(ev["in"]["lapse"], Q)
    if not lapse > 0:
        return "shares changed although the lapse was not positive"
    out, es = _dec(ev["out"], S), _dec(ev["es"], S)
    if not (_dec(p["ovmin"], S) <= out <= _dec(p["ovmax"], S)):
        return "output outside [ovmin, ovmax]"
    if not (_dec(p["esmin"], S) <= es <= _dec(p["esmax"], S)):
        return "error sum outside [esmin, esmax]"
    return "recorded shares are not what the specification's Update admits"


def run_c46(ctx):
    env.use_repo()
    os.environ.setdefault("JAVA_TOOL_OPTIONS", "-Xmx3g")     # see polygon.py
    from ioflo.aid import consoling
    consoling.getConsole().reinit(verbosity=0)
    # -- the specification itself: breadth first on the small grid, then random walks
    cfg = "SPECIFICATION Spec\nCONSTANTS\n  Depth = %d\n" + "".join("INVARIANT %s\n" % i for i in INVS)
    res = tlc.run("Pid", cfg % 1, spec_dir=SPEC_DIR, deadlock=False, tag="c46bfs")
    ctx.add_model(res, "Pid/bfs", {"Depth": 1})
    ok = res.ok
    if ok:
        tlc.require_coverage(res, ["DoStep", "DoRestart"], "Pid/bfs")
    if ok and not ctx.quick:
        # random walks through the model (every step enumerates some thousand successors: keep the number small)
        sim = tlc.run("Pid", cfg % 6, spec_dir=SPEC_DIR, deadlock=False, simulate={"num": 30, "depth": 7},
                      seed=ctx.seed, tag="c46sim")
        ctx.add_model(sim, "Pid/simulate", {"Depth": 6})
        res, ok = (sim, sim.ok) if not sim.ok else (res, True)
    if not ok:
        ctx.diverge(Divergence("C46", "model", res.error_name or res.error, "Pid", "property violated in the specification itself",
                               steps=[{"action": a, "state": s} for a, s in res.trace]))
        return
    # -- binding B
    rng = random.Random(ctx.seed)
    ntr = ctx.pick(1200, 12000)
    traces, off, nsteps, kinds = [], 0, 0, {}
    for i in range(ntr):
        evs, offgrid, div = record_run(rng, rng.randint(4, 40), wild=(i % 3 != 0))
        if div is not None:
            ctx.diverge(div)
        if offgrid is not None:
            off += 1
        if len(evs) > 1:
            traces.append(evs)
            nsteps += len(evs) - 1
    cfgt = ("SPECIFICATION TraceSpec\nCONSTANTS\n  Depth = 0\nCONSTRAINT TraceOK\n" + "".join("INVARIANT %s\n" % i for i in INVS)
            + "CHECK_DEADLOCK FALSE\n")
    outc = trace.validate("PidTrace", cfgt, SPEC_DIR, traces, batch=ctx.pick(max(100, ntr // env.NCPU + 1), 500))
    ctx.states += outc.states
    ctx.transitions += outc.generated
    ctx.add_validated(len(outc.accepted), traces[0][:3] if traces else None)
    for i, pref in sorted(outc.rejected.items())[:20]:
        ev = traces[i][pref] if 0 <= pref < len(traces[i]) else {}
        ctx.diverge(Divergence("C46", "rejected", ev.get("ev", "?"), "trace", _hint(ev), steps=traces[i][max(0, pref - 2):pref + 1],
                               extra={"event_number": pref + 1}))
    for (i, err, name, tr) in outc.model_errors[:10]:
        ctx.diverge(Divergence("C46", "rejected", name or err, "trace-invariant", "invariant %s violated on a recorded run" % name,
                               steps=traces[i][:12]))
    # -- what the recorded runs exercised (vacuity guards)
    for tr in traces:
        for ev in tr[1:]:
            if ev["ev"] != "Update":
                kinds["restart"] = kinds.get("restart", 0) + 1
                continue
            p, i_ = ev["p"], ev["in"]
            lapse = _dec(i_["lapse"], Q)
            tags = ["update"]
            tags.append("evaluated" if lapse > 0 else "skipped")
            if lapse > 0:
                vals = [_dec(ev[k], S) for k in ("e", "er", "es", "out")] + [_dec(i_[k], S) for k in ("input", "rate", "rsp")] + [lapse] + \
                       [_dec(p[k], Q) for k in ("gff", "gpe", "gde", "gie", "ger")]
                tags.append("nonfinite" if any(v != v or abs(v) == INF for v in vals) else "finite")
                if _dec(p["wrap"], S) not in (0.0,) and abs(_dec(i_["input"], S) - _dec(ev["prsp"], S)) > abs(_dec(p["wrap"], S)):
                    tags.append("wrapped")
                if _dec(ev["out"], S) in (_dec(p["ovmin"], S), _dec(p["ovmax"], S)):
                    tags.append("out_limited")
                if _dec(ev["es"], S) in (_dec(p["esmin"], S), _dec(p["esmax"], S)) and _dec(ev["es"], S) != 0:
                    tags.append("sum_limited")
                if _dec(ev["prsp"], S) == _dec(i_["rsp"], S):
                    tags.append("setpoint_taken")
                v = ev["es"]["v"]
                if ev["es"]["k"] == "fin" and v % 3072 != 0:
                    tags.append("partial_blend")
            for t in tags:
                kinds[t] = kinds.get(t, 0) + 1
    need = ["restart", "evaluated", "skipped", "nonfinite", "finite", "wrapped", "out_limited", "sum_limited", "setpoint_taken", "partial_blend"]
    missing = [k for k in need if not kinds.get(k)]
    if missing:
        raise tlc.TlcError("vacuous runs: nothing recorded with %s" % ", ".join(missing))
    if off > 0.2 * ntr:
        raise tlc.TlcError("%d of %d recorded runs left the exact grid: the driver's grid no longer fits the deed" % (off, ntr))
    ctx.exhaustive = False
    ctx.rule = ("seeded random update sequences (4-40 actions) of the real deed on an exact dyadic grid, two thirds of them with "
                "non-finite inputs / gains / thresholds / stamps mixed in; parameters redrawn now and then (limits kept ordered); "
                "distinct = recorded runs accepted by TLC as behaviours of Pid.tla with the four invariants holding on every step")
    ctx.extra.update({"evaluations": nsteps, "distinct_nontrivial": len(outc.accepted), "recorded_runs": len(traces),
                      "runs_cut_off_grid": off, "recorded_steps": kinds})
    ctx.assume("floats are compared exactly: the driver's grid keeps every operation of the deed exact (checked per value: a value "
               "off the grid ends that run); the integrator's blend factor is existential in [0, 1]")
    ctx.assume("where a nan reaches the limiter or the blend the specification only demands the limits (the property's demand)")


PROPERTIES = {"C46": run_c46}
