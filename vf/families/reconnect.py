"""C27 - reconnectable clients and stacks eventually reconnect (specs/net/Reconnect.tla, ReconnectMC.tla).

  model     ReconnectMC.tla: safety invariants (ConnectedIsEstablished, AddressesMatchLiveSocket, NeverBoth), action
            properties (NonReconnectableNeverReopens, KeepsLiveConnection) and the bounded response counter
            (BoundedResponse: connected within K + 1 service calls once a connection is due), plus a guard that the bound
            is tight (K - 1 is violated);
  liveness  Reconnect.tla, LiveSpec (weak fairness of service calls and of the clock, a listening server eventually
            accepts): <>[]up => []<>connected; without constraint (the timer is "time left", the state space is finite);
            guard: the property fails under WeakLiveSpec, i.e. it is not vacuous;
  A         the complete state graph is walked together with real objects (vf/families/_netstacks.conform): tcp.Client and
            tcp.ClientTls (serviceConnect + serviceReceives + serviceTxes as one service call), http.Patron.serviceAll and
            proto.TcpClientStack.serviceAll over a reconnectable tcp.Client, all over socket doubles whose connect_ex
            answer is chosen by the model; the clock is the store stamp the StoreTimer of the client reads.  The
            specification leaves the implementation one choice (recover and attempt in one call or in two); every step
            must agree with one of the specification's successors on: connected-and-not-cut-off, cutoff, sockets opened
            and attempts made during the step, and whether the reported addresses (ca / ha, for the stack also
            local.ha) are those of the live socket.
"""
import errno
from concurrent.futures import ThreadPoolExecutor

from .. import doubles_net as dn
from .. import env, graph, tlc
from ..replay import Divergence
from ._net import jvm_env
from ._netstacks import conform, quiet_console

SPEC_DIR = env.SPECS + "/net"
PEER = ("10.0.0.9", 5009)
LOSS = (errno.ECONNRESET, errno.ETIMEDOUT, errno.EHOSTUNREACH, errno.ENETRESET, errno.ENETUNREACH, errno.EHOSTDOWN)
FLAVORS = ("client", "clienttls", "patron", "stack")
ACTIONS = ["Advance", "ServerUp", "ServerDown", "Reset", "Refuse", "UserReopen", "Service"]
INVS = ["TypeOK", "ConnectedIsEstablished", "NeverBoth", "AddressesMatchLiveSocket"]
PROPS = ["NonReconnectableNeverReopens", "KeepsLiveConnection"]


def cfg_text(spec, k, invs=(), props=(), mc=False):
    s = ("SPECIFICATION %s\nCONSTANTS\n  Reconnectable = %s\n  Timeout = %d\n  MaxAdv = %d\n  P = %d\n"
         % (spec, "TRUE" if k["Reconnectable"] else "FALSE", k["Timeout"], k["MaxAdv"], k["P"]))
    if mc:
        s += "  K = %d\n" % k["K"]
    for i in invs:
        s += "INVARIANT %s\n" % i
    for p in props:
        s += "PROPERTY %s\n" % p
    return s


class World(object):
    """what the environment holds ready for the sockets of one client"""

    def __init__(self):
        self.answer = None
        self.tries = 0
        self.n = 0


class EnvSocket(dn.ScriptedSocket):
    """stream socket double whose connect_ex answer is the one the model chose for this service call"""

    def __init__(self, world, **kw):
        super(EnvSocket, self).__init__(**kw)
        self.world = world
        self.attempts = 0

    def connect_ex(self, address):
        w = self.world
        w.tries += 1
        w.n += 1
        self.attempts += 1
        r = w.answer if w.tries == 1 else "prog"
        if r == "ok":
            code = 0 if (self.attempts == 1 or w.n % 2) else errno.EISCONN
        elif r == "refused":
            code = errno.ECONNREFUSED if w.n % 3 else errno.EINVAL
        else:    # "prog", or an attempt the model does not foresee (reported through `tries`)
            code = errno.EINPROGRESS if self.attempts == 1 else errno.EALREADY
        self.push_front("connect_ex", dn.rc(code))
        return super(EnvSocket, self).connect_ex(address)


class ReconnectAdapter:
    def __init__(self, flavor, init, k):
        env.use_repo()
        from ioflo.aio.tcp import clienting
        from ioflo.aio.http import clienting as hclienting
        from ioflo.aio.proto import packeting, stacking
        from ioflo.aid.timing import Stamper
        self.packeting = packeting
        from ioflo.base import storing
        quiet_console()
        self.flavor = flavor
        self.world = World()
        self.undo = []
        self.fake = dn.FakeSocketModule(factory=lambda fam, typ, proto: EnvSocket(
            self.world, name="s%d" % (len(self.fake.created) + 1), family=fam, type=typ, proto=proto))
        self.undo.append(dn.install(clienting, "socket", self.fake))
        self.nreset = 0
        timeout = float(k["Timeout"])
        rec = bool(k["Reconnectable"])
        try:
            if flavor == "stack":
                self.clock = Stamper(stamp=0.0)
                rxbs = bytearray()
                self.conn = clienting.Client(ha=PEER, store=self.clock, timeout=timeout, reconnectable=rec, rxbs=rxbs)
                self.top = stacking.TcpClientStack(handler=self.conn, ha=PEER, stamper=self.clock, rxbs=rxbs, timeout=timeout)
                self.service = self.top.serviceAll
                self.reopen = self.top.reopen
            else:
                self.clock = storing.Store(stamp=0.0)
                if flavor == "clienttls":    # the handshake double succeeds at once: connected = accepted + handshaken
                    self.conn = clienting.ClientTls(context=dn.FakeTlsContext(), ha=PEER, store=self.clock, timeout=timeout,
                                                    reconnectable=rec)
                else:
                    self.conn = clienting.Client(ha=PEER, store=self.clock, timeout=timeout, reconnectable=rec)
                if flavor == "patron":
                    self.top = hclienting.Patron(store=self.clock, connector=self.conn)
                    self.service = self.top.serviceAll
                    self.reopen = self.top.open
                else:
                    self.top = self.conn
                    self.service = self._service_client
                    self.reopen = self.conn.reopen
                if not self.reopen():
                    raise AssertionError("the client did not open over its socket double")
        except Exception:
            self.close()
            raise
        if len(self.fake.created) != 1 or not self.conn.opened:
            raise AssertionError("expected exactly one socket double after opening")
        self.now = 0

    def _service_client(self):
        c = self.conn
        c.serviceConnect()
        c.serviceReceives()
        c.serviceTxes()

    def close(self):
        for u in reversed(self.undo):
            u()
        self.undo = []

    def live(self):
        cs = self.conn.cs
        return getattr(cs, "inner", cs)

    def project(self, opens=0, tries=0):
        c = self.conn
        live = self.live()
        rep = "other"
        if live is not None and live.connected and c.ca == live.sockname and c.ha == live.peer:
            rep = "live"
            if self.flavor == "stack" and self.top.local.ha != live.sockname:
                rep = "other"
        out = {"alive": bool(c.connected and not c.cutoff), "cutoff": bool(c.cutoff), "opens": opens, "tries": tries}
        if out["alive"]:
            out["rep"] = rep     # which addresses a client reports while it is not connected is not part of the statement
        return out

    def fingerprint(self):
        """hidden state for the walk only (never compared): time left on the reconnect timer, negative when the timer
        expired that long ago (a pause in servicing), cut at a few timeouts so that the walk stays finite"""
        t = self.conn.timeout
        lag = max(self.conn.timer.stop - self.clock.stamp, -4.0 * t) if t > 0.0 else 0.0
        live = self.live()
        pend = None
        if live is not None:    # what the environment holds ready on the live socket (which way a loss will show)
            pend = tuple(sorted((op, tuple(r[0] for r in rs)) for op, rs in live.pending().items()))
        return (lag, live is None, pend, bool(self.conn.txes))

    def step(self, name, key, cands):
        args = key[1]
        if name == "Advance":
            self.now += int(args[0])
            self.clock.stamp = float(self.now)
        elif name in ("ServerUp", "ServerDown", "Refuse"):
            pass            # the model answers the next attempt accordingly
        elif name == "Reset":
            live = self.live()
            kind = str(args[0])
            self.nreset += 1
            loss = LOSS[self.nreset % len(LOSS)] if self.nreset > 1 else errno.ECONNRESET
            if kind == "close":
                live.push("recv", dn.CLOSED)
            elif kind == "abort":
                live.push("recv", dn.err(loss))
            else:       # the loss shows at the next send: the application has data queued
                if self.flavor == "stack":
                    self.top.transmit(self.packeting.Packet(stack=self.top, packed=b"x"))
                else:
                    self.conn.tx(b"x")
                live.push("send", dn.err(loss))
        elif name == "UserReopen":
            if not self.reopen():
                raise AssertionError("reopen failed over the socket double")
        elif name == "Service":
            r = str(args[0])
            w = self.world
            w.answer = None if r == "na" else r
            w.tries = 0
            before = len(self.fake.created)
            try:
                self.service()
            finally:
                w.answer = None
            return self.project(len(self.fake.created) - before, w.tries)
        else:
            raise NotImplementedError(name)
        return self.project()


def env_key(name, args):
    if name == "Service":
        return (name, (args[0],))
    return (name, tuple(args))


def run_c27(ctx):
    ctx.rule = ("Reconnect.tla: model checked (safety, bounded response with a tightness guard, liveness under fairness with a "
                "vacuity guard) for reconnectable / not reconnectable clients and timeouts 0, 1, 2 quanta; binding A: the complete "
                "state graph of every configuration walked together with real tcp.Client, http.Patron and proto.TcpClientStack "
                "objects over socket doubles (every environment step enabled at every state the implementation reaches: clock "
                "advance, server up / down, reset, refusal, application reopen, service call with every connect answer); "
                "distinct = (state, environment step) pairs executed")
    ctx.assume("TLC, vf/doubles_net.py, the connect-answer double and the projection functions are trusted")
    ctx.assume("ssl is not modelled: ClientTls runs over a FakeTlsContext whose handshake succeeds at once (loss during the handshake is C25)")
    ctx.assume("liveness assumes weak fairness of service calls and of the clock and that a listening server eventually accepts; "
               "the bounded response counter starts again whenever the timer expires anew (a timeout shorter than the service "
               "period cannot be met by any timeout driven client)")
    p = ctx.pick(1, 2)
    configs = []
    # MaxAdv of several timeouts: pauses in servicing much longer than the reconnect timeout while disconnected
    for rec in (True, False):
        for to in ((1, 2) if rec else (0, 2)):
            configs.append({"Reconnectable": rec, "Timeout": to, "MaxAdv": (3 * to if rec else 2), "P": p, "K": p + 1})
    if not ctx.quick:
        configs.append({"Reconnectable": True, "Timeout": 0, "MaxAdv": 2, "P": p, "K": p + 1})
        configs.append({"Reconnectable": True, "Timeout": 3, "MaxAdv": 7, "P": p, "K": p + 1})
    d = env.subdir("c27")
    jobs = []
    for i, k in enumerate(configs):
        jobs.append(("graph", i, k))
        jobs.append(("mc", i, k))
        if k["Reconnectable"] and k["Timeout"] > 0:
            jobs.append(("live", i, k))
    auto = [k for k in configs if k["Reconnectable"] and k["Timeout"] > 0]
    jobs.append(("tight", configs.index(auto[0]), dict(auto[0], K=auto[0]["K"] - 1)))
    jobs.append(("weak", configs.index(auto[0]), auto[0]))

    def model(job):
        kind, i, k = job
        e = jvm_env(ctx.quick)
        if kind == "graph":
            return tlc.run("Reconnect", cfg_text("Spec", k), spec_dir=SPEC_DIR, dump_dot="%s/g%d.dot" % (d, i),
                           deadlock=False, tag="c27g%d" % i, extra_env=e, workers=1)
        if kind in ("mc", "tight"):
            return tlc.run("ReconnectMC", cfg_text("MCSpec", k, INVS + ["BoundedResponse"], PROPS, mc=True), spec_dir=SPEC_DIR,
                           deadlock=False, tag="c27m%d" % i, extra_env=e, workers=1, coverage=False)
        spec = "LiveSpec" if kind == "live" else "WeakLiveSpec"
        return tlc.run("Reconnect", cfg_text(spec, k, props=["Reconnects"]), spec_dir=SPEC_DIR, deadlock=False,
                       tag="c27l%d" % i, extra_env=e, workers=1, coverage=False)

    with ThreadPoolExecutor(max_workers=max(2, env.NCPU)) as ex:
        results = list(ex.map(model, jobs))
    total = execs = nsteps = followed = 0
    complete = True
    for (kind, i, k), res in zip(jobs, results):
        name = "Reconnect/%s/%s-timeout%d" % (kind, "auto" if k["Reconnectable"] else "manual", k["Timeout"])
        ctx.add_model(res, name, k)
        if kind == "tight":
            if res.ok or res.error_name != "BoundedResponse":
                raise tlc.TlcError("the bounded response bound K = %d is not tight (%s): the counter is vacuous" % (k["K"] + 1, name))
            continue
        if kind == "weak":
            if res.ok or res.error_name != "Reconnects":
                raise tlc.TlcError("liveness holds even without the fairness assumption on the server (%s): vacuous" % name)
            continue
        if not res.ok:
            ctx.diverge(Divergence("C27", "model", res.error_name or res.error, name, "specification property violated in the model",
                                   steps=[{"action": a, "state": st} for a, st in res.trace]))
            continue
        if kind != "graph":
            continue
        tlc.require_coverage(res, [a for a in ACTIONS if a != "Advance" or k["Timeout"] > 0], name)
        g = graph.load_dot("%s/g%d.dot" % (d, i))
        for fl in FLAVORS:
            w = conform("C27", g, lambda init, fl=fl, k=k: ReconnectAdapter(fl, init, k), env_key=env_key, where=fl + ":")
            for dv in w.divergences:
                dv.extra = dict(dv.extra or {}, config=k, flavor=fl)
            ctx.diverge(w.divergences)
            total += g.nedges
            followed += len(w.edges)
            execs += w.execs
            nsteps += w.steps
            complete = complete and w.complete
            ctx.add_validated(w.execs, {"flavor": fl, "config": k, "nodes": w.nodes, "spec_states_visited": len(w.states),
                                        "spec_states": len(g.states), "edges_followed": len(w.edges)})
            reach = {str(g.states[u]["sk"]) for u in w.states}
            if k["Reconnectable"] and k["Timeout"] > 0 and not w.divergences:
                need = {"idle", "prog", "stuck", "estab", "reset"}
                if not need <= reach:
                    raise tlc.TlcError("vacuous walk (%s, %s): socket states never reached: %s" % (name, fl, sorted(need - reach)))
    ctx.exhaustive = complete
    ctx.extra.update({"graph_edges": total, "edges_followed": followed, "distinct_nontrivial": execs, "evaluations": nsteps,
                      "configurations": configs})


PROPERTIES = {"C27": run_c27}
