"""Helpers shared by the net families (txstream C24, sockerr C25, servertable C26); not a family itself."""
import itertools
import json
import os
from concurrent.futures import ThreadPoolExecutor

from .. import env, graph, replay, tlc, trace


def graph_traces(g, max_len, label=None):
    """Edge cover of a graph whose steps are named by the `act` variable of the destination state.

    TLC labels an action with its parameters only when they range over constant sets; the net specifications choose the
    environment's answers from state dependent sets, so every step records itself in the variable `act` (a record whose
    field `a` is the action name).  Returns (paths, traces) with traces shaped as replay.replay expects:
    the adapter's step(name, args, expected) receives name = act.a and args = (act,)."""
    for u, es in g.out.items():
        g.out[u] = [((label(g.states[v]["act"]) if label else str(g.states[v]["act"]["a"])),
                     (str(g.states[v]["act"]["a"]), (g.states[v]["act"],)), v) for (lab, a, v) in es]
    paths = graph.edge_cover(g, max_len=max_len)
    return paths, replay.graph_paths_to_traces(g, paths)


def jvm_env(quick):
    """JVM settings for the many short TLC runs of this family (a shared machine: few GC threads; quick tier: C1 only)"""
    return {"JAVA_TOOL_OPTIONS": "-XX:ParallelGCThreads=2 -Xss64m" + (" -XX:TieredStopAtLevel=1" if quick else "")}


def validate_jobs(jobs, spec_dir, procs=None, timeout=1800, quick=True):
    """trace.validate for several (module, cfg, traces, batch) jobs at once: all batches of all jobs share one pool of TLC
    processes (vf/trace.py names its trace files by module and first index, so concurrent validate() calls would collide).
    Returns one trace.TraceOutcome per job."""
    procs = procs or max(1, env.NCPU // 2)
    uniq = itertools.count()
    d = env.subdir("nettraces")

    def run(module, cfg, trs, progress):
        path = os.path.join(d, "t%d-%d.json" % (os.getpid(), next(uniq)))
        with open(path, "w") as f:
            json.dump(trs, f)
        try:
            return tlc.run(module, cfg, spec_dir=spec_dir, workers=1, deadlock=False, coverage=False, timeout=timeout,
                           extra_env=dict(jvm_env(quick), TRACE_FILE=path, VF_PROGRESS="1" if progress else "0"), tag="tr")
        finally:
            os.unlink(path)

    outs = [trace.TraceOutcome() for _ in jobs]
    work = []
    for j, (module, cfg, trs, batch) in enumerate(jobs):
        for i in range(0, len(trs), batch):
            work.append((j, list(range(i, min(i + batch, len(trs))))))
    with ThreadPoolExecutor(max_workers=procs) as ex:
        results = list(ex.map(lambda w: run(jobs[w[0]][0], jobs[w[0]][1], [jobs[w[0]][2][i] for i in w[1]], False), work))
    suspects = []
    for (j, idxs), res in zip(work, results):
        out = outs[j]
        out.states += res.distinct
        out.generated += res.generated
        out.wall += res.wall
        if res.error:
            suspects.extend((j, i) for i in idxs)
            continue
        acc = {v[1] for v in tlc.printed_values(res.out) if len(v) == 2 and v[0] == "ACCEPT"}
        for k, i in enumerate(idxs):
            if (k + 1) in acc:
                out.accepted.add(i)
            else:
                suspects.append((j, i))
    with ThreadPoolExecutor(max_workers=procs) as ex:
        diag = list(ex.map(lambda ji: run(jobs[ji[0]][0], jobs[ji[0]][1], [jobs[ji[0]][2][ji[1]]], True), suspects[:12]))
    for (j, i), res in zip(suspects[:12], diag):
        vals = tlc.printed_values(res.out)
        if res.error:
            outs[j].model_errors.append((i, res.error, res.error_name, res.trace))
        elif any(len(v) == 2 and v[0] == "ACCEPT" for v in vals):
            outs[j].accepted.add(i)
            continue
        at = [v[2] for v in vals if len(v) == 3 and v[0] == "AT"]
        outs[j].rejected[i] = (max(at) - 1) if at else 0
    for (j, i) in suspects[12:]:
        outs[j].rejected[i] = -1
    return outs

