"""X-uxdwire - datagram socket objects (uxd / udp) and the wire log (specs/wire/SockNb.tla, SockNbTrace.tla, WireLog.tla).

Two I/O pieces that no listed property touches:
  (a) aio.uxd.uxding.SocketUxdNb and aio.udp.udping.SocketUdpNb at the socket-object level (SockNb.tla): open / reopen /
      close, the life cycle of the address (uxd file made by open, removed by close, a stale file removed by reopen; a udp
      port held by someone else), the .opened flag, socket options (non blocking, buffer sizes, broadcast), the umask of the
      uxd file and of the process, receive (would block -> (b'', None), other errors raised, a datagram cut at bufsize),
      send (count or raise), and what an attached WireLog records.
        A  complete state graphs replayed edge by edge on the real classes over a kernel double (_uxdwire.World/DgSocket/
           FakeOs; no kernel socket, no file) with a real WireLog (memory buffers) attached: flag, address, directory,
           umask, options, result, accepted / delivered datagrams and the log's bytes are compared after every step;
        B  (uxd) seeded random histories of two real SocketUxdNb objects talking through the kernel in a scratch directory
           (real AF_UNIX datagram sockets, real files, a real WireLog writing files) are recorded and TLC decides whether
           each is a behaviour of the same specification (SockNbTrace.tla).
  (b) aio.wiring.WireLog (WireLog.tla, a history model: every log object ever made with its name and records):
        A  the complete state graph (all 16 combinations of rx / tx / same / buffify chosen initially; reopen with path /
           prefix / midfix given or not, in a directory that exists or not; close; writeRx / writeTx; the clock) replayed on
           a real WireLog writing to a scratch directory: after every step the open handles, every file's name and bytes
           on disk, the buffers, getRx / getTx and the result are compared.
"""
import errno
import os
import random
import re
import shutil
import socket as _socket
import stat
import tempfile
import time
from concurrent.futures import ThreadPoolExecutor

from .. import doubles_net as dn
from .. import env, graph, replay, tlc
from ..replay import Divergence
from . import _uxdwire as ux
from ._net import jvm_env, validate_jobs
from ._netstacks import guarded, quiet_console

PROP = "X-uxdwire"
SPEC_DIR = env.SPECS + "/wire"

# ------------------------------------------------------------------ alphabets (opaque names of the models -> real values)
_S = b"s\n\xff\x00t"
_L = b"lo\nng\xff\x00payld"
PAYLOAD = {"e": b"", "s": _S, "l": _L, "sp": _S[:4], "lp": _L[:11], "lt": _L[:8]}
PAYID = {v: k for k, v in PAYLOAD.items()}
BUFSIZE = 8
WL_DATA = {"a": b"alpha", "n": b"x\ny\xff\x00", "e": b""}
WL_ADDR = {"ip": ("127.0.0.1", 5000), "ux": "/tmp/uxd/peer.uxd"}
UDP_HA = ("127.0.0.1", 7200)
UDP_PEER = {"p1": ("10.0.1.1", 7001), "p2": ("10.0.1.2", 7002)}
UXD_DIR = "/vfs/uxd"
UXD_HA = UXD_DIR + "/me.uxd"
UXD_PEER = {"p1": "/vfs/peers/p1.uxd", "p2": "/vfs/peers/p2.uxd"}
NO_OPTS = {"nonblock": False, "bcast": False, "bufok": False, "um": "na"}

WL_INVARIANTS = ["TypeOK", "OnlyWanted", "SameShares", "HandlesOpen", "Medium", "DistinctFiles", "Kinds", "ExactLog",
                 "Separated", "GetOnlyBuffers"]
WL_PROPS = ["ClosedIsFinal", "AppendOnly", "NothingWhenClosed"]
WL_ACTIONS = ["Tick", "Reopen", "Close", "WriteRx", "WriteTx"]
SN_INVARIANTS = ["OpenedIffBound", "UmaskRestored", "Options", "LogMatchesWire", "NoLogNoRecords", "NeverLonger"]
SN_PROPS = ["FailedIoSilent"]
SN_ACTIONS = {"uxd": ["Open", "Reopen", "Close", "Stale", "LogOpen", "LogClose", "ReceiveNone", "Receive", "Send"],
              "udp": ["Open", "Reopen", "Close", "Take", "Release", "LogOpen", "LogClose", "ReceiveNone", "Receive", "Send"]}


def _set(xs):
    def lit(x):
        if isinstance(x, bool):
            return "TRUE" if x else "FALSE"
        if isinstance(x, int):
            return str(x)
        return '"%s"' % x
    return "{" + ", ".join(lit(x) for x in xs) + "}"


def wl_cfg(c, props=True):
    s = "SPECIFICATION Spec\nCONSTANTS\n"
    for k in ("RxSet", "TxSet", "SameSet", "BufSet", "CtorPres", "CtorMids", "DirArgs", "PreArgs", "MidArgs", "Addrs", "Datas"):
        s += "  %s = %s\n" % (k, _set(c[k]))
    s += '  ArgCombos = "%s"\n  MaxClock = %d\n  MaxWrites = %d\n  MaxObjs = %d\n' % (c["ArgCombos"], c["MaxClock"], c["MaxWrites"],
                                                                                   c["MaxObjs"])
    if props:
        s += "".join("INVARIANT %s\n" % i for i in WL_INVARIANTS) + "".join("PROPERTY %s\n" % p for p in WL_PROPS)
    return s + "CHECK_DEADLOCK FALSE\n"


def sn_cfg(c, props=True, trace=False):
    s = "SPECIFICATION %s\nCONSTANTS\n  Flavor = \"%s\"\n" % ("TraceSpec" if trace else "Spec", c["Flavor"])
    for k in ("Umasks", "Bcasts", "Logs", "DirOks", "Peers", "SendData", "RecvData", "SendEnv", "RecvEnv", "KBufs"):
        s += "  %s = %s\n" % (k, _set(c[k]))
    s += "  MaxIo = %d\n" % c["MaxIo"]
    if props:
        s += "".join("INVARIANT %s\n" % i for i in SN_INVARIANTS) + "".join("PROPERTY %s\n" % p for p in SN_PROPS)
    if trace:
        s += "CONSTRAINT TraceOK\n"
    return s + "CHECK_DEADLOCK FALSE\n"


def _result(r):
    if r is None:
        return "none"
    if isinstance(r, bool):
        return r
    return "unexpected result %r" % (r,)


def _latin(b):
    return bytes(b).decode("latin-1")


# ------------------------------------------------------------------ (b) WireLog on a scratch directory
def wl_bytes(recs):
    out = b""
    for (d, a, x) in recs:
        out += ("%s %s\n" % (d, WL_ADDR[a])).encode("ascii") + WL_DATA[x] + b"\n"
    return out


_STAMP = r"(?P<stamp>[0-9][0-9_:.T\-]*?)"


class WireLogAdapter(object):
    """one real WireLog; files under <scratch>/d1 and <scratch>/d2 (directory `nd` does not exist); wiring's clock scripted"""

    def __init__(self, init):
        env.use_repo()
        from ioflo.aio import wiring
        quiet_console()
        self.mode = init["mode"]
        cur = init["cur"]
        self.root = tempfile.mkdtemp(prefix="wl", dir=env.subdir("uxdwire"))
        for d in ("d1", "d2"):
            os.mkdir(os.path.join(self.root, d))
        self.ft = ux.FakeTime()
        self.ft.clock = int(init["clock"])
        self.undo = dn.install(wiring, "time", self.ft)
        self.w = wiring.WireLog(path=os.path.join(self.root, cur["dir"]), prefix=cur["pre"], midfix=cur["mid"],
                                rx=self.mode["rx"], tx=self.mode["tx"], same=self.mode["same"], buffify=self.mode["buf"])
        self.objs = []       # every log object seen, in order of creation (rx before tx)
        self.seen = {}       # id(log) -> index
        self.lastbuf = {}    # index -> bytes last read from a buffer (a closed BytesIO cannot be read)
        self.stamps = {}     # stamp text of a file name -> clock when first seen
        self.filesig = {}    # file name -> ((size, mtime, inode), bytes): a file is read again only when it changed
        self.res = "none"

    def close(self):
        try:
            self.w.close()
        except Exception:
            pass
        self.undo()
        shutil.rmtree(self.root, ignore_errors=True)

    # ---- projection
    def _discover(self):
        for log in (self.w.rxLog, self.w.txLog):
            if log is not None and id(log) not in self.seen:
                self.objs.append(log)
                self.seen[id(log)] = len(self.objs)

    def _handle(self, log):
        if log is None or log.closed:
            return 0
        return self.seen[id(log)]

    def _content(self, i, log):
        name = getattr(log, "name", None)
        if isinstance(name, str):
            if not log.closed:
                log.flush()
            try:
                st = os.stat(name)
                sig = (st.st_size, st.st_mtime_ns, st.st_ino)
                if self.filesig.get(name, (None,))[0] != sig:
                    with open(name, "rb") as f:
                        self.filesig[name] = (sig, f.read())
                return True, self.filesig[name][1]
            except OSError:
                return True, None
        if not log.closed:
            self.lastbuf[i] = log.getvalue()
        return False, self.lastbuf.get(i, b"")

    def _key(self, log, ek):
        name = getattr(log, "name", None)
        if not isinstance(name, str):
            return {"dir": "", "pre": "", "mid": "", "stamp": 0, "kind": "mem"}
        rel = os.path.relpath(name, self.root)
        d, fn = os.path.dirname(rel), os.path.basename(rel)
        if ek and ek.get("kind") in ("", "rx", "tx") and d == ek["dir"]:
            pat = "^" + "".join(re.escape(x) + "_" for x in (ek["pre"], ek["mid"]) if x) + _STAMP + \
                  ("_" + ek["kind"] if ek["kind"] else "") + r"\.txt$"
            m = re.match(pat, fn)
            if m and not (ek["kind"] == "" and m.group("stamp").endswith(("_rx", "_tx"))):
                clock = self.stamps.setdefault(m.group("stamp").rstrip("_"), self.ft.clock)
                return {"dir": d, "pre": ek["pre"], "mid": ek["mid"], "stamp": clock, "kind": ek["kind"]}
        return {"name": rel}

    def project(self, expected=None):
        self._discover()
        w = self.w
        eobjs = list(expected["objs"]) if expected is not None else []
        objs = []
        contents = {}
        names = set()
        for i, log in enumerate(self.objs, 1):
            eo = eobjs[i - 1] if i <= len(eobjs) else None
            isfile, content = self._content(i, log)
            contents[i] = content
            if isfile:
                names.add(os.path.relpath(log.name, self.root))
            if content is None:
                recs = ("file is gone",)
            elif eo is not None and content == wl_bytes(eo["recs"]):
                recs = eo["recs"]
            else:
                recs = ("bytes", _latin(content))
            objs.append({"file": isfile, "key": self._key(log, eo["key"] if eo is not None else None), "recs": recs,
                         "open": not log.closed})
        ondisk = set()
        for d in ("d1", "d2", "nd"):
            p = os.path.join(self.root, d)
            if os.path.isdir(p):
                ondisk.update(os.path.join(d, f) for f in os.listdir(p))
        if ondisk != names:
            objs.append({"files on disk that are no log of this WireLog": tuple(sorted(ondisk - names))})
        rxl, txl = self._handle(w.rxLog), self._handle(w.txLog)

        def got(v, l):
            if v is None:
                return ("none",)
            if l and contents.get(l) == v:
                return ("val", objs[l - 1]["recs"])
            return ("val", ("bytes", _latin(v)))

        path = w.path if isinstance(w.path, str) else repr(w.path)
        out = {"rxl": rxl, "txl": txl, "objs": tuple(objs),
               "cur": {"dir": os.path.relpath(path, self.root) if path.startswith(self.root) else path,
                       "pre": w.prefix, "mid": w.midfix},
               "res": {"r": self.res, "grx": got(w.getRx(), rxl), "gtx": got(w.getTx(), txl)}}
        return out

    def step(self, name, args, expected):
        w = self.w
        if name == "Tick":
            self.ft.clock += 1
        elif name == "Reopen":
            kw = {}
            if args[0]:
                kw["path"] = os.path.join(self.root, args[0])
            if args[1]:
                kw["prefix"] = args[1]
            if args[2]:
                kw["midfix"] = args[2]
            self.res = _result(w.reopen(**kw))
        elif name == "Close":
            self.res = _result(w.close())
        elif name == "WriteRx":
            self.res = _result(w.writeRx(WL_ADDR[args[0]], WL_DATA[args[1]]))
        elif name == "WriteTx":
            self.res = _result(w.writeTx(WL_ADDR[args[0]], WL_DATA[args[1]]))
        else:
            raise NotImplementedError(name)
        return self.project(expected)


# ------------------------------------------------------------------ (a) socket objects over the kernel double
def sock_bytes(recs, peers):
    out = b""
    for (d, p, x) in recs:
        out += ("%s %s\n" % (d, peers[p])).encode("ascii") + PAYLOAD[x] + b"\n"
    return out


def _errname(ex):
    return errno.errorcode.get(ex.errno, str(ex.errno)) if getattr(ex, "errno", None) is not None else type(ex).__name__


def _receive_result(r, peerid):
    """(data, sa) as the specification's result"""
    if not (isinstance(r, tuple) and len(r) == 2):
        return ("unexpected result", repr(r))
    data, sa = r
    if sa is None:
        return ("nodata",) if (isinstance(data, bytes) and data == b"") else ("unexpected result", repr(r))
    return ("data", PAYID.get(bytes(data), _latin(data)), peerid.get(sa, repr(sa)))


class SockAdapter(object):
    """one real SocketUxdNb / SocketUdpNb over the kernel double, a real WireLog (memory buffers) attached"""

    def __init__(self, flavor, init):
        env.use_repo()
        from ioflo.aio import wiring
        quiet_console()
        self.flavor = flavor
        self.cfg = init["cfg"]
        self.init = init
        self.undo = []
        self.kbuf = "big"
        self.deny = False
        self.res = ("none",)
        self.wopen = False
        self.acc = []
        self.dlv = []
        self.nacc = self.ndlv = 0
        self.logged = {"RX": b"", "TX": b"", "ALL": b""}    # bytes of wire-log epochs that are over
        self.cur = {"RX": b"", "TX": b"", "ALL": b""}       # bytes read from the open buffers after the last step
        if self.cfg["log"] == "none":
            self.wl = None
        else:
            self.wl = wiring.WireLog(buffify=True, same=(self.cfg["log"] == "same"))
        if flavor == "uxd":
            from ioflo.aio.uxd import uxding as mod
            self.world = ux.World(dirs=[UXD_DIR] if init["dirok"] else [])
            self.peers = UXD_PEER
            self.ha = UXD_HA
            fam = _socket.AF_UNIX
            self.undo.append(dn.install(mod, "os", ux.FakeOs(self.world)))
        else:
            from ioflo.aio.udp import udping as mod
            self.world = ux.World()
            self.peers = UDP_PEER
            self.ha = UDP_HA
            fam = _socket.AF_INET
        self.family = fam
        self.peerid = {v: k for k, v in self.peers.items()}
        self.fake = dn.FakeSocketModule(factory=self._make)
        self.undo.append(dn.install(mod, "socket", self.fake))
        if flavor == "uxd":
            self.obj = mod.SocketUxdNb(ha=self.ha, umask=(ux.SOCK_UMASK if self.cfg["umask"] else None), bufsize=BUFSIZE,
                                       wlog=self.wl)
        else:
            self.obj = mod.SocketUdpNb(ha=self.ha, bufsize=BUFSIZE, wlog=self.wl, bcast=self.cfg["bcast"])

    def _make(self, fam, typ, proto):
        s = ux.DgSocket(self.world, name=self.flavor, family=fam, type=typ, proto=proto)
        size = 4 if self.kbuf == "small" else 4096
        s.opts[(_socket.SOL_SOCKET, _socket.SO_SNDBUF)] = size
        s.opts[(_socket.SOL_SOCKET, _socket.SO_RCVBUF)] = size
        if self.deny:
            s.push("bind", dn.err(errno.EACCES))
        return s

    def close(self):
        for u in reversed(self.undo):
            u()
        self.undo = []

    # ---- projection
    def _live(self):
        for s in self.fake.created:
            if not s.closed and s.bound == self.ha:
                return s
        return None

    def _wire(self, expected):
        """the records of the wire log: the specification's when the bytes agree, else the bytes"""
        if self.wl is None:
            return ()
        if self.cfg["log"] == "same":
            rx, tx = self.wl.getRx(), self.wl.getTx()
            if rx != tx:
                return ("getRx and getTx of a shared log differ", _latin(rx or b""), _latin(tx or b""))
            if rx is not None:
                self.cur["ALL"] = rx
            have = self.logged["ALL"] + self.cur["ALL"]
            return expected["wlog"] if have == sock_bytes(expected["wlog"], self.peers) else ("bytes", _latin(have))
        for d, v in (("RX", self.wl.getRx()), ("TX", self.wl.getTx())):
            if v is not None:
                self.cur[d] = v
        for d in ("RX", "TX"):
            have = self.logged[d] + self.cur[d]
            if have != sock_bytes([r for r in expected["wlog"] if r[0] == d], self.peers):
                return ("bytes of the %s log" % d, _latin(have))
        return expected["wlog"]

    def project(self, expected=None):
        expected = expected if expected is not None else self.init
        o = self.obj
        w = self.world
        live = self._live()
        logging = self.wl is not None and self.wopen
        sent = [x for s in self.fake.created for x in s.dgrams_sent]
        for (b, a) in sent[self.nacc:]:
            self.acc.append((PAYID.get(bytes(b), _latin(b)), self.peerid.get(a, repr(a)), logging))
        self.nacc = len(sent)
        got = [x for s in self.fake.created for x in s.dgrams_delivered]
        for (b, a) in got[self.ndlv:]:
            self.dlv.append((PAYID.get(bytes(b), _latin(b)), self.peerid.get(a, repr(a)), logging))
        self.ndlv = len(got)
        opened = o.opened if isinstance(o.opened, bool) else repr(o.opened)
        if opened is True and self.flavor == "uxd" and o.ha != self.ha:
            opened = ".ha is %r after open" % (o.ha,)
        if opened is True and live is not None:
            snd, rcv = o.actualBufSizes()
            um = "orig"
            if self.flavor == "uxd":
                um = {ux.SOCK_UMASK: "sock", ux.ORIG_UMASK: "orig"}.get(live.um_at_bind, oct(live.um_at_bind or 0))
            sopts = {"nonblock": not live.blocking,
                     "bcast": bool(live.opts.get((_socket.SOL_SOCKET, _socket.SO_BROADCAST), 0)),
                     "bufok": snd >= BUFSIZE and rcv >= BUFSIZE, "um": um}
        else:
            sopts = dict(NO_OPTS)
        return {"opened": opened, "bound": live is not None,
                "addr": w.file_state(self.ha) if self.flavor == "uxd" else w.port_state(),
                "dirok": (UXD_DIR in w.dirs) if self.flavor == "uxd" else True,
                "pumask": {ux.ORIG_UMASK: "orig", ux.SOCK_UMASK: "sock"}.get(w.umask, oct(w.umask)),
                "sopts": sopts, "wlog": self._wire(expected), "accepted": tuple(self.acc), "delivered": tuple(self.dlv),
                "res": self.res}

    # ---- steps
    def step(self, name, args, expected):
        o = self.obj
        if name in ("Open", "Reopen"):
            self.deny = (args[0] == "deny")
            self.kbuf = args[1]
            try:
                r = o.open() if name == "Open" else o.reopen()
            finally:
                self.deny = False
            self.res = ("bool", r) if isinstance(r, bool) else ("unexpected result", repr(r))
        elif name == "Close":
            r = o.close()
            self.res = ("none",) if r is None else ("unexpected result", repr(r))
        elif name == "Stale":
            self.world.files[self.ha] = "stale"
        elif name == "Take":
            self.world.taken = True
        elif name == "Release":
            self.world.taken = False
        elif name == "LogOpen":
            if self.wl.reopen() is not True:
                raise AssertionError("WireLog.reopen of a memory log did not answer True")
            self.wopen = True
        elif name == "LogClose":
            for d in self.cur:
                self.logged[d] += self.cur[d]
                self.cur[d] = b""
            self.wl.close()
            self.wopen = False
        elif name in ("ReceiveNone", "Receive"):
            s = self.fake.last
            if name == "Receive":
                s.push("recvfrom", dn.dgram(PAYLOAD[args[0]], self.peers[args[1]]))
            elif args[0] == "block":
                s.push("recvfrom", dn.BLOCK if (len(s.calls) % 2) else dn.err(errno.EWOULDBLOCK))
            else:
                s.push("recvfrom", dn.err(getattr(errno, args[0])))
            try:
                self.res = _receive_result(o.receive(), self.peerid)
            except OSError as ex:
                self.res = ("raise", _errname(ex))
            if s.pending("recvfrom"):
                s.clear("recvfrom")
                self.res = ("receive() did not ask the socket",)
            elif s.recv_sizes and s.recv_sizes[-1] != BUFSIZE and name == "Receive" and len(PAYLOAD[args[0]]) <= BUFSIZE:
                # a datagram shorter than bufsize looks the same whatever size was asked for: the size itself is documented
                self.res = ("recvfrom asked for %r bytes, bufsize is %d" % (s.recv_sizes[-1], BUFSIZE),)
        elif name == "Send":
            s = self.fake.last
            data = PAYLOAD[args[0]]
            ans = args[2]
            s.push("sendto", dn.FULL if ans == "full" else dn.partial(len(data) - 1) if ans == "short" else dn.err(getattr(errno, ans)))
            try:
                r = o.send(data, self.peers[args[1]])
                self.res = ("sent", r) if (isinstance(r, int) and not isinstance(r, bool)) else ("unexpected result", repr(r))
            except OSError as ex:
                self.res = ("raise", _errname(ex))
            if s.pending("sendto"):
                s.clear("sendto")
                self.res = ("send() did not ask the socket",)
        else:
            raise NotImplementedError(name)
        return self.project(expected)


# ------------------------------------------------------------------ (a) binding B: real AF_UNIX sockets in a scratch directory
class RealPeer(object):
    """one real SocketUxdNb bound to a file under `root`, with a real WireLog writing files; logs its own events"""

    def __init__(self, uxding, wiring, root, name, rng):
        self.name = name
        self.dir = os.path.join(root, "sock-" + name)
        self.ha = os.path.join(self.dir, name + ".uxd")
        self.cfg = {"umask": rng.random() < 0.6, "bcast": False, "log": rng.choice(["none", "split", "split", "same"])}
        self.dirok = rng.random() < 0.6
        if self.dirok:
            os.mkdir(self.dir)
        self.wl = None
        if self.cfg["log"] != "none":
            logdir = os.path.join(root, "log-" + name)
            os.mkdir(logdir)
            self.wl = wiring.WireLog(path=logdir, prefix=name, same=(self.cfg["log"] == "same"))
        self.obj = uxding.SocketUxdNb(ha=self.ha, umask=(ux.SOCK_UMASK if self.cfg["umask"] else None), bufsize=BUFSIZE,
                                      wlog=self.wl)
        self.events = [dict(ev="Init", dirok=self.dirok, **self.cfg)]
        self.res = ["none"]
        self.done = {"RX": b"", "TX": b"", "ALL": b""}
        self.cur = {"RX": b"", "TX": b"", "ALL": b""}
        self.peers = {}
        self.bad = None

    def _read(self, log):
        if log is None or log.closed:
            return None
        log.flush()
        with open(log.name, "rb") as f:
            return f.read()

    def _records(self, have, only):
        """bytes of a log -> records [dir, peer, payload] (greedy over the known alphabets; None when they are no records)"""
        out = []
        pos = 0
        heads = [(("%s %s\n" % (d, ha)).encode("ascii"), d, p) for d in ("RX", "TX") for p, ha in self.peers.items()]
        pays = sorted(PAYLOAD.items(), key=lambda kv: -len(kv[1]))
        while pos < len(have):
            for (h, d, p) in heads:
                if have.startswith(h, pos):
                    break
            else:
                return None
            pos += len(h)
            for (k, b) in pays:
                if have.startswith(b + b"\n", pos) and (pos + len(b) + 1 == len(have) or have.startswith((b"RX ", b"TX "), pos + len(b) + 1)):
                    break
            else:
                return None
            pos += len(b) + 1
            out.append([d, p, k])
        return [r for r in out if r[0] == only]

    def observe(self):
        o = self.obj
        exists = os.path.lexists(self.ha)
        cur = os.umask(ux.ORIG_UMASK)
        if self.wl is not None:
            if self.cfg["log"] == "same":
                v = self._read(self.wl.rxLog)
                if v is not None:
                    self.cur["ALL"] = v
                allb = self.done["ALL"] + self.cur["ALL"]
                wrx, wtx = self._records(allb, "RX"), self._records(allb, "TX")
            else:
                for d, log in (("RX", self.wl.rxLog), ("TX", self.wl.txLog)):
                    v = self._read(log)
                    if v is not None:
                        self.cur[d] = v
                wrx = self._records(self.done["RX"] + self.cur["RX"], "RX")
                wtx = self._records(self.done["TX"] + self.cur["TX"], "TX")
                if wrx is not None and self._records(self.done["RX"] + self.cur["RX"], "TX"):
                    wrx = None
                if wtx is not None and self._records(self.done["TX"] + self.cur["TX"], "RX"):
                    wtx = None
        else:
            wrx, wtx = [], []
        if wrx is None:
            wrx = [["unparsable rx log", "", ""]]
        if wtx is None:
            wtx = [["unparsable tx log", "", ""]]
        sopts = dict(NO_OPTS)
        if o.opened is True and o.ss is not None:
            snd, rcv = o.actualBufSizes()
            mode = stat.S_IMODE(os.lstat(self.ha).st_mode) if exists else -1
            um = "sock" if mode == (0o777 & ~ux.SOCK_UMASK) else "orig" if mode == (0o777 & ~ux.ORIG_UMASK) else oct(mode)
            sopts = {"nonblock": o.ss.getblocking() is False,
                     "bcast": False, "bufok": snd >= BUFSIZE and rcv >= BUFSIZE, "um": um}
        return {"opened": o.opened is True,
                "file": exists, "dirok": os.path.isdir(self.dir),
                "pumask": {ux.ORIG_UMASK: "orig", ux.SOCK_UMASK: "sock"}.get(cur, oct(cur)),
                "sopts": sopts, "res": self.res, "wrx": wrx, "wtx": wtx}

    def log(self, ev, **args):
        e = dict(ev=ev, **args)
        e.update(self.observe())
        self.events.append(e)


def _boolres(r):
    return ["bool", r] if isinstance(r, bool) else ["unexpected result", repr(r)]


def _do_open(p, reopen):
    p.res = _boolres(p.obj.reopen() if reopen else p.obj.open())
    p.log("Reopen" if reopen else "Open", b="ok", k="big")


def _do_close(p):
    r = p.obj.close()
    p.res = ["none"] if r is None else ["unexpected result", repr(r)]
    p.log("Close")


def _do_stale(p):
    if os.path.isdir(p.dir) and not os.path.lexists(p.ha):
        s = _socket.socket(_socket.AF_UNIX, _socket.SOCK_DGRAM)     # a process that dies without unlinking its file
        s.bind(p.ha)
        s.close()
        p.log("Stale")


def _do_send(p, q, d):
    try:
        r = p.obj.send(PAYLOAD[d], q.ha)
        p.res = ["sent", r] if isinstance(r, int) and not isinstance(r, bool) else ["unexpected result", repr(r)]
        s = "full" if r == len(PAYLOAD[d]) else "short"
    except OSError as ex:
        p.res = ["raise", _errname(ex)]
        s = _errname(ex)
    p.log("Send", d=d, p=q.name, s=s)


def _do_receive(p, ids):
    try:
        r = _receive_result(p.obj.receive(), ids)
    except OSError as ex:
        r = ("raise", _errname(ex))
    p.res = list(r)
    if r[0] == "data":
        p.log("Receive", d=("l" if r[1] == "lt" else r[1]), p=r[2])     # the kernel cuts the long datagram at bufsize
    else:
        p.log("ReceiveNone", r=("block" if r[0] == "nodata" else r[1] if r[0] == "raise" else "?"))


def record_uxd(seed, nsteps):
    """one seeded history of two real SocketUxdNb objects in a fresh scratch directory -> two traces (one per object)"""
    env.use_repo()
    from ioflo.aio import wiring
    from ioflo.aio.uxd import uxding
    quiet_console()
    rng = random.Random(seed)
    root = tempfile.mkdtemp(prefix="ux", dir=env.subdir("uxdwire"))
    old_umask = os.umask(ux.ORIG_UMASK)
    peers = []
    console = uxding.console
    try:
        if rng.random() < 0.3:     # some histories with the console at its most verbose (send / receive then render the payload)
            console.reinit(verbosity=console.Wordage.profuse, path=os.devnull)
        peers = [RealPeer(uxding, wiring, root, n, rng) for n in ("p1", "p2")]
        has = {p.name: p.ha for p in peers}
        ids = {v: k for k, v in has.items()}
        for p in peers:
            p.peers = has
        for _ in range(nsteps):
            p = rng.choice(peers)
            q = rng.choice(peers)
            c = rng.random()
            if p.obj.opened is not True:
                if c < 0.40:
                    _do_open(p, False)
                elif c < 0.60:
                    _do_open(p, True)
                elif c < 0.70:
                    _do_close(p)
                elif c < 0.85:
                    _do_stale(p)
                elif p.wl is not None:
                    _toggle_log(p)
            elif c < 0.40:
                # now and then a burst that fills the receiver's queue: the kernel then answers EAGAIN, which send raises
                for _k in range(14 if rng.random() < 0.08 else 1):
                    _do_send(p, q, rng.choice(["e", "s", "l", "s"]))
            elif c < 0.75:
                _do_receive(p, ids)
            elif c < 0.83:
                _do_close(p)
            elif c < 0.90:
                _do_open(p, True)
            elif p.wl is not None:
                _toggle_log(p)
        return [p.events for p in peers]
    finally:
        for p in peers:
            try:
                p.obj.close()
            except Exception:
                pass
            try:
                if p.wl is not None:
                    p.wl.close()
            except Exception:
                pass
        console.reinit(verbosity=0, path="")
        os.umask(old_umask)
        shutil.rmtree(root, ignore_errors=True)


def _toggle_log(p):
    wl = p.wl
    is_open = (wl.rxLog is not None and not wl.rxLog.closed) or (wl.txLog is not None and not wl.txLog.closed)
    if is_open:
        p.observe()
        for d in p.cur:
            p.done[d] += p.cur[d]
            p.cur[d] = b""
        wl.close()
        p.log("LogClose")
    else:
        # the name of a wire-log file has a resolution of one second: a file of the same second is rewritten, which the
        # bookkeeping above (bytes of finished epochs are kept aside) allows for
        if wl.reopen() is not True:
            raise AssertionError("WireLog.reopen in an existing directory did not answer True")
        p.log("LogOpen")


# ------------------------------------------------------------------ constants of the tiers
def wl_constants(ctx):
    base = {"RxSet": [True, False], "TxSet": [True, False], "SameSet": [True, False], "BufSet": [True, False],
            "CtorPres": [""], "CtorMids": ["k"], "DirArgs": ["", "d2", "nd"], "PreArgs": ["", "p"], "MidArgs": [""],
            "ArgCombos": "some", "Addrs": ["ip"], "Datas": ["n"], "MaxClock": 2, "MaxWrites": 2, "MaxObjs": 2}
    if ctx.quick:
        return [("graph", base, True)]
    g = dict(base, Addrs=["ip", "ux"], Datas=["n", "e"])
    mc = dict(base, Addrs=["ip", "ux"], Datas=["n", "e"], CtorPres=["c"], CtorMids=[""], DirArgs=["", "d1", "d2", "nd"],
              MidArgs=["", "m"], ArgCombos="full", MaxClock=3, MaxWrites=2, MaxObjs=3)
    return [("graph", g, True), ("mc", mc, False)]


def sn_constants(ctx, flavor):
    uxd = flavor == "uxd"
    c = {"Flavor": flavor, "Umasks": [True, False] if uxd else [False], "Bcasts": [False] if uxd else [True, False],
         "Logs": ["none", "split", "same"], "DirOks": [True, False] if uxd else [True], "Peers": ["p1"],
         "SendData": ["s", "e"], "RecvData": ["l"], "SendEnv": ["full", "short", "EAGAIN"], "RecvEnv": ["block", "ECONNREFUSED"],
         "KBufs": ["small", "big"], "MaxIo": 2}
    if ctx.quick:
        return [("graph", c, True)]
    g = dict(c, Peers=["p1", "p2"], RecvData=["s", "l"], SendEnv=["full", "short", "EAGAIN", "ECONNREFUSED"])
    mc = dict(g, SendData=["s", "e", "l"], RecvData=["s", "l", "e"], SendEnv=["full", "short", "EAGAIN", "ECONNREFUSED", "ENOENT"],
              RecvEnv=["block", "ECONNREFUSED", "ENOBUFS"], MaxIo=2)
    return [("graph", g, True), ("mc", mc, False)]


TRACE_CONST = {"Flavor": "uxd", "Umasks": [True, False], "Bcasts": [False], "Logs": ["none", "split", "same"], "DirOks": [True, False],
               "Peers": ["p1", "p2"], "SendData": ["s"], "RecvData": ["s"], "SendEnv": ["full"], "RecvEnv": ["block"],
               "KBufs": ["big"], "MaxIo": 1000000}


# ------------------------------------------------------------------ the check
def run(ctx):
    ctx.rule = ("SockNb.tla (one uxd / udp socket object with a wire log; every bind answer, kernel buffer size, stale file / "
                "taken port, recvfrom and sendto answer is an action parameter) and WireLog.tla (history of every log object; "
                "all 16 rx/tx/same/buffify configurations chosen initially) model checked with their invariants; binding A: the "
                "complete state graphs replayed edge by edge on the real classes (sockets over a kernel double with a real "
                "WireLog attached; WireLog on a scratch directory under a scripted clock); binding B: seeded histories of two "
                "real SocketUxdNb objects over real AF_UNIX sockets and files validated by TLC as behaviours of SockNb.tla; "
                "distinct = graph edges replayed + recorded events accepted")
    ctx.assume("TLC, vf/doubles_net.py, the kernel double of vf/families/_uxdwire.py and the projection functions are trusted")
    ctx.assume("payloads / addresses are opaque to the models: a fixed alphabet (empty, binary with newline and NUL, longer than "
               "bufsize) stands for all of them")
    ctx.assume("a file wire log is reopened at most once per clock second (the documentation does not say what happens to a file "
               "of the same name)")
    d = env.subdir("uxdwire-tlc")
    t0 = time.time()
    phases = {}
    jobs = []
    for (tag, c, dump) in wl_constants(ctx):
        jobs.append(("WireLog", "wirelog/" + tag, c, wl_cfg(c), d + "/wl-%s.dot" % tag if dump else None, WL_ACTIONS))
    for fl in ("uxd", "udp"):
        for (tag, c, dump) in sn_constants(ctx, fl):
            jobs.append(("SockNb", "%s/%s" % (fl, tag), c, sn_cfg(c), d + "/sn-%s-%s.dot" % (fl, tag) if dump else None,
                         SN_ACTIONS[fl]))
    per = max(1, env.NCPU // 3)

    def model(job):
        module, name, c, cfg, dot, actions = job
        return tlc.run(module, cfg, spec_dir=SPEC_DIR, dump_dot=dot, deadlock=False, tag="xuw" + name.replace("/", ""),
                       extra_env=jvm_env(ctx.quick), coverage=True, workers=per, timeout=3000)

    # the recorded executions do not need TLC to be made: record them while the models run
    ntr = ctx.pick(60, 300)
    nsteps = ctx.pick(60, 100)
    def validate(trs):
        return validate_jobs([("SockNbTrace", sn_cfg(TRACE_CONST, props=True, trace=True), trs, 40)], SPEC_DIR,
                             procs=max(1, env.NCPU // 4), quick=ctx.quick)[0]

    with ThreadPoolExecutor(max_workers=len(jobs) + 1) as ex:
        futs = [ex.submit(model, j) for j in jobs]
        traces = []
        rec_error = None
        try:
            for i in range(ntr):
                traces.extend(record_uxd(ctx.seed * 100003 + i, nsteps))
        except Exception as exc:   # the real code raised something the documentation does not allow
            rec_error = exc
        if traces:
            kinds = {e["ev"] for t in traces for e in t}
            missing = [a for a in SN_ACTIONS["uxd"] if a not in kinds]
            if missing and rec_error is None:
                raise tlc.TlcError("vacuous recording: the real histories never performed %s" % ", ".join(missing))
        phases["record_s"] = round(time.time() - t0, 1)
        vfut = ex.submit(validate, traces) if traces else None
        results = [f.result() for f in futs]
        out = vfut.result() if vfut else None
    phases["tlc_s"] = round(time.time() - t0, 1)

    total = cov = nsteps_replayed = 0
    for job, res in zip(jobs, results):
        module, name, c, cfg, dot, actions = job
        ctx.add_model(res, name, {k: v for k, v in c.items()})
        if not res.ok:
            ctx.diverge(Divergence(PROP, "model", res.error_name or res.error, name, "specification property violated in the model",
                                   steps=[{"action": a, "state": st} for a, st in res.trace]))
            continue
        tlc.require_coverage(res, actions, name)
        if dot is None:
            continue
        g = graph.load_dot(dot)
        paths = graph.edge_cover(g, max_len=30)
        trs = replay.graph_paths_to_traces(g, paths)
        if module == "WireLog":
            make = lambda init: guarded(WireLogAdapter)(init)
        else:
            make = lambda init, fl=c["Flavor"]: guarded(SockAdapter)(fl, init)
        t1 = time.time()
        k, divs = replay.replay(PROP, trs, make, stop_after=8)
        phases["replay_%s_s" % name] = round(time.time() - t1, 1)
        for dv in divs:
            dv.where = "%s:%s" % (name.split("/")[0], dv.where)
        ctx.diverge(divs)
        nsteps_replayed += k
        total += len({(u, lab, v) for u, es in g.out.items() for (lab, a, v) in es})
        cov += graph.covered_edges(paths)
        if trs:
            ctx.add_validated(len(trs), {"graph": name, "path": [x[0] for x in trs[len(trs) // 2]][:16]})

    # binding B
    accepted = 0
    if rec_error is not None:
        tb = rec_error.__traceback__
        ctx.diverge(Divergence(PROP, "exception", "record", "uxd-real:" + replay.innermost_ioflo_frame(tb),
                               "%s: %s" % (type(rec_error).__name__, str(rec_error)[:200])))
    if out is not None:
        ctx.states += out.states
        ctx.transitions += out.generated
        accepted = len(out.accepted)
        for (i, err, ename, tr) in out.model_errors:
            ctx.diverge(Divergence(PROP, "model", ename or err, "uxd-real", "invariant violated while validating recorded trace %d" % i,
                                   steps=[{"action": a, "state": st} for a, st in tr]))
        for i, upto in sorted(out.rejected.items()):
            t = traces[i]
            ev = t[upto + 1] if 0 <= upto + 1 < len(t) else {}
            ctx.diverge(Divergence(PROP, "rejected", ev.get("ev", "?"), "uxd-real",
                                   "recorded execution is not a behaviour of SockNb.tla at event %d: %s" % (upto + 1, _brief(ev)),
                                   steps=t[:upto + 2][-12:]))
        ctx.add_validated(accepted, {"trace": [e["ev"] for e in traces[0]][:16]})
    nev = sum(len(t) - 1 for t in traces)
    ctx.exhaustive = (cov == total and total > 0)
    ctx.extra.update({"graph_edges": total, "edges_replayed": cov, "evaluations": nsteps_replayed + nev,
                      "distinct_nontrivial": cov + accepted, "recorded_traces": len(traces), "recorded_events": nev,
                      "recorded_accepted": accepted, "phases": phases})


def _brief(ev):
    return ", ".join("%s=%r" % (k, ev[k]) for k in ("ev", "b", "d", "p", "s", "r", "opened", "file", "dirok", "pumask", "res") if k in ev)


EXTRAS = {"uxdwire": run}
