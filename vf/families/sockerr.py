"""C25 - transport errors are classified (specs/net/SockErr.tla).

TLC enumerates the complete table (transport class x socket operation x entry point x error) together with all
sequences of MaxSteps consecutive faults / successes; every edge is replayed on the real class with the scripted socket
double raising exactly that error (binding A).  Subjects: tcp.Client, ClientTls, Incomer, IncomerTls (TLS over a
FakeTlsContext; the double raises ssl.SSLWant*Error / ssl.SSLEOFError below them), udp.SocketUdpNb, proto.UdpStack.
"""
import errno

from .. import doubles_net as dn
from .. import env, graph, replay, tlc
from ..replay import Divergence
from ._net import graph_traces, jvm_env

SPEC_DIR = env.SPECS + "/net"
CLASSES = ("client", "clienttls", "incomer", "incomertls", "udp", "udpstack")
PEER = ("10.0.0.9", 5009)
LOCAL = ("127.0.0.1", 6101)
MSG = b"ab"


def cfg_text(classes, maxsteps):
    return ('SPECIFICATION Spec\nCONSTANTS\n  Classes = {%s}\n  MaxSteps = %d\n'
            'INVARIANT LossCutsOff\nINVARIANT LossNeverRaises\nINVARIANT OtherPropagates\n'
            'PROPERTY BlockKeepsState\nPROPERTY DatagramRetry\nPROPERTY RefusedReopens\n' % (", ".join('"%s"' % c for c in classes), maxsteps))


def answer(e):
    if e == "TLSEOF":
        return dn.TLS_EOF
    if e == "WANTREAD":
        return dn.WANT_READ
    if e == "WANTWRITE":
        return dn.WANT_WRITE
    return dn.err(getattr(errno, e))


class ErrAdapter:
    def __init__(self, init):
        env.use_repo()
        from ioflo.aio.tcp import clienting, serving
        from ioflo.aio.udp import udping
        from ioflo.aio.proto import stacking, packeting
        from ioflo.aid.consoling import getConsole
        getConsole().reinit(verbosity=0)      # the transports report every error on the console
        self.cls = cls = str(init["cls"])
        self.undo = []
        self.fake = None
        acc, con = bool(init["accepted"]), bool(init["connected"])
        self.stream = cls in ("client", "clienttls", "incomer", "incomertls")
        if cls in ("client", "clienttls"):
            self.fake = dn.FakeSocketModule()
            self.undo.append(dn.install(clienting, "socket", self.fake))
            if cls == "client":
                self.x = clienting.Client(ha=PEER)
            else:
                self.x = clienting.ClientTls(context=dn.FakeTlsContext(), ha=PEER)
            self.x.open()
            if acc:
                self.sock.push("connect_ex", dn.rc(0))
                if cls == "clienttls":
                    self.sock.push("do_handshake", dn.OK if con else dn.WANT_READ)
                got = self.x.serviceConnect()
                if bool(got) != con:
                    raise AssertionError("could not bring %s into state accepted=%s connected=%s" % (cls, acc, con))
        elif cls in ("incomer", "incomertls"):
            s = dn.ScriptedSocket(name="ix", peer=PEER, sockname=LOCAL, connected=True)
            self._sock = s
            if cls == "incomer":
                self.x = serving.Incomer(ha=LOCAL, bs=8096, ca=PEER, cs=s)
            else:
                self.x = serving.IncomerTls(context=dn.FakeTlsContext(), ha=LOCAL, bs=8096, ca=PEER, cs=s)
                if con:
                    s.push("do_handshake", dn.OK)
                    if not self.x.serviceHandshake():
                        raise AssertionError("handshake answered OK but IncomerTls is not connected")
        elif cls == "udp":
            self.fake = dn.FakeSocketModule()
            self.undo.append(dn.install(udping, "socket", self.fake))
            self.x = udping.SocketUdpNb(ha=LOCAL)
            if not self.x.reopen():
                raise AssertionError("SocketUdpNb did not open over the double")
        elif cls == "udpstack":
            self.fake = dn.FakeSocketModule()
            self.undo.append(dn.install(udping, "socket", self.fake))
            self.x = stacking.UdpStack(ha=LOCAL)
            self.x.transmit(packeting.Packet(stack=self.x, packed=MSG), ha=PEER)
        else:
            raise ValueError(cls)
        if self.stream:
            self.x.tx(MSG)

    @property
    def sock(self):
        """the (current) socket double below the transport"""
        if self.fake is not None:
            return self.fake.last
        return self._sock

    def close(self):
        for u in reversed(self.undo):
            u()
        self.undo = []

    # ---- one step
    def step(self, name, args, expected):
        act = args[0]
        op, via, e = str(act["op"]), str(act["via"]), str(act["e"])
        x = self.x
        sock = self.sock
        fail = (name == "Fail")
        sop = {"send": "send", "recv": "recv", "connect": "connect_ex", "handshake": "do_handshake",
               "sendto": "sendto", "recvfrom": "recvfrom"}[op]
        before = sock.count(sop)
        if fail:
            if op == "connect" and via == "rc":
                sock.push(sop, dn.rc(getattr(errno, e)))
            else:
                sock.push(sop, answer(e))
        else:
            if op in ("send", "sendto"):
                sock.push(sop, dn.FULL)
            elif op == "recv":
                sock.push(sop, dn.data(b"x"))
            elif op == "recvfrom":
                sock.push(sop, dn.dgram(b"x", PEER))
            elif op == "connect":
                sock.push(sop, dn.rc(errno.EISCONN if via == "isconn" else 0))
                if self.cls == "clienttls":
                    sock.push("do_handshake", dn.WANT_READ)
            elif op == "handshake":
                sock.push(sop, dn.OK)
        res = {"t": "none"}
        raised = False
        try:
            if op == "send":
                if via == "direct":
                    res = {"t": "int", "v": x.send(MSG)}
                else:
                    x.serviceTxes()
            elif op == "recv":
                if via == "direct":
                    r = x.receive()
                    res = {"t": "none"} if r is None else {"t": "bytes", "v": len(r)}
                elif via == "service":
                    x.serviceReceives()
                else:
                    x.serviceReceiveOnce()
            elif op == "connect":
                res = {"t": "bool", "v": x.serviceConnect()}
            elif op == "handshake":
                res = {"t": "bool", "v": x.serviceConnect() if self.cls == "clienttls" else x.serviceHandshake()}
            elif op == "sendto":
                if via == "direct":
                    res = {"t": "int", "v": x.send(MSG, PEER)}
                elif via == "service":
                    x.serviceTxPkts()
                else:
                    x.serviceTxPktsOnce()
            elif op == "recvfrom":
                if via == "direct":
                    d, sa = x.receive()
                    res = {"t": "dgram", "v": len(d)}
                elif via == "service":
                    x.serviceReceives()
                else:
                    x.serviceReceivesOnce()
            else:
                raise NotImplementedError(op)
        except OSError as ex:          # socket.error and ssl.SSLError are OSErrors: the only exceptions the statement allows
            raised = True
            res = {"t": "raise", "e": _name(ex, e if fail else "")}
        if sock.count(sop) == before:
            raise AssertionError("%s via %s did not reach the socket's %s()" % (op, via, sop))
        sock.clear()
        return self.project(res, op, raised, fail and _lossy_connect(op, e))

    def project(self, res=None, op="", raised=False, lossy_connect=False):
        x = self.x
        out = {}
        if res is not None:
            out["res"] = res
        if raised:
            return out            # what an escaping exception leaves behind is not specified
        sock = self.sock
        if self.stream:
            out.update({"txq": len(x.txes), "rxn": len(x.rxbs)})
            if not (self.fake is not None and len(self.fake.created) > 1):
                out["wire"] = len(sock.sent)      # (a reopened client has a fresh socket: bytes are counted per socket)
            if op != "connect":
                out["cutoff"] = bool(x.cutoff)
            if self.cls in ("client", "clienttls") and not lossy_connect and not (op == "handshake" and not x.cs):
                # the socket itself: how often it was replaced, and that the transport still holds an open one
                cs = getattr(x.cs, "inner", x.cs)
                out["gen"] = len(self.fake.created) - 1
                out["live"] = bool(cs is not None and cs is self.fake.last and not cs.closed)
            if self.cls in ("client", "clienttls"):
                out["connected"] = bool(x.connected)
                if not lossy_connect:
                    out["accepted"] = bool(x.accepted)
            elif self.cls == "incomertls":
                out["connected"] = bool(x.connected)
        elif self.cls == "udp":
            out["wire"] = len(sock.dgrams_sent)
        else:
            out.update({"txq": len(x.txPkts), "wire": len(sock.dgrams_sent), "rxn": len(x.rxPkts)})
        return out


def _lossy_connect(op, e):
    return op in ("connect", "handshake") and e not in ("EINPROGRESS", "EALREADY", "EWOULDBLOCK", "EAGAIN", "WANTREAD", "WANTWRITE",
                                                        "EINVAL", "ECONNREFUSED") or (op == "handshake" and e in ("EINVAL", "ECONNREFUSED"))


def _name(ex, injected):
    """name of a propagated error in the specification's vocabulary"""
    import ssl
    if injected == "TLSEOF" and isinstance(ex, ssl.SSLEOFError):
        return "TLSEOF"
    if injected == "WANTREAD" and isinstance(ex, ssl.SSLWantReadError):
        return "WANTREAD"
    if injected == "WANTWRITE" and isinstance(ex, ssl.SSLWantWriteError):
        return "WANTWRITE"
    if injected and hasattr(errno, injected) and not isinstance(ex, ssl.SSLError) and ex.errno == getattr(errno, injected):
        return injected
    return type(ex).__name__ + ":" + errno.errorcode.get(ex.errno or 0, str(ex.errno))


def _label(act):
    if act["a"] == "Init":
        return "Init"
    return "%s(%s,%s%s)" % (act["a"], act["op"], act["via"], "," + act["e"] if act["e"] else "")


def run_c25(ctx):
    ctx.rule = ("complete graph of SockErr.tla: every cell (transport class x socket operation x entry point x error: would-block, "
                "each connection-loss errno, TLS EOF, EPIPE/EBADF/ENOMEM/EINVAL) and every sequence of MaxSteps consecutive faults / "
                "successes; each edge replayed on the real class with the socket double raising that error; distinct = graph edges")
    ctx.assume("TLC, vf/doubles_net.py and the projection functions are trusted")
    ctx.assume("ssl is not modelled: TLS classes run over a FakeTlsContext; the double raises ssl.SSLWantReadError / SSLWantWriteError / SSLEOFError")
    maxsteps = ctx.pick(2, 3)
    dot = env.subdir("c25") + "/sockerr.dot"
    res = tlc.run("SockErr", cfg_text(CLASSES, maxsteps), spec_dir=SPEC_DIR, dump_dot=dot, deadlock=False, tag="c25", coverage=False,
                  extra_env=jvm_env(ctx.quick))
    ctx.add_model(res, "SockErr", {"Classes": list(CLASSES), "MaxSteps": maxsteps})
    if not res.ok:
        ctx.diverge(Divergence("C25", "model", res.error_name or res.error, "SockErr", "specification property violated in the model",
                               steps=[{"action": a, "state": s} for a, s in res.trace]))
        return
    g = graph.load_dot(dot)
    # vacuity: every class meets every kind of error on every operation it has
    seen = set()
    cells = 0
    for u in g.inits:
        cells += len(g.out[u])
    for st in g.states.values():
        a = st["act"]
        if a["a"] == "Fail":
            seen.add((str(st["cls"]), str(a["op"]), "raise" if st["res"]["t"] == "raise" else "quiet"))
        ctx.actions.setdefault(str(a["a"]), [0, 0])[1] += 1
    need = [(c, op, k) for c in ("client", "clienttls", "incomer", "incomertls") for op in ("send", "recv") for k in ("raise", "quiet")]
    need += [("clienttls", "handshake", k) for k in ("raise", "quiet")] + [("incomertls", "handshake", k) for k in ("raise", "quiet")]
    need += [("client", "connect", "quiet"), ("client", "connect", "raise"), ("udpstack", "sendto", "quiet"), ("udpstack", "sendto", "raise"),
             ("udpstack", "recvfrom", "quiet"), ("udpstack", "recvfrom", "raise"), ("udp", "recvfrom", "quiet"), ("udp", "recvfrom", "raise")]
    missing = [n for n in need if n not in seen]
    if missing:
        raise tlc.TlcError("vacuous model run (SockErr): cells never reached: %r" % (missing,))
    paths, traces = graph_traces(g, 12, _label)
    n, divs = replay.replay("C25", traces, ErrAdapter, stop_after=400)
    for d in divs:
        st = d.steps[0]["state"] if d.steps else {}
        last = d.steps[-1]["state"]["act"] if d.steps else {}
        d.where = "%s:%s" % (st.get("cls", "?"), d.where)
        d.action = "%s(%s,%s,%s)" % (d.action, last.get("op", ""), last.get("via", ""), last.get("e", ""))
    ctx.diverge(divs)
    cov = graph.covered_edges(paths)
    ctx.exhaustive = (cov == g.nedges)
    ctx.add_validated(len(traces), {"path": [s[0] for s in traces[len(traces) // 2]]})
    ctx.sample({"path": [s[0] for s in traces[len(traces) // 3]]})
    ctx.extra.update({"table_cells": cells, "graph_edges": g.nedges, "edges_replayed": cov, "distinct_nontrivial": cov,
                      "evaluations": n, "MaxSteps": maxsteps})


PROPERTIES = {"C25": run_c25}
