"""Helpers shared by storetree.py (C18) and share.py (C19).

Both specifications keep the *result* of an operation out of the state: it is the last parameter of every action
(`Fetch(T, "node")`), so the complete state graph carries the expected result on its edges without multiplying states.
`replay_graph` walks an edge cover of such a graph on real objects:

    adapter = make_adapter(init_state)          # fresh real object(s)
    adapter.project() -> dict                   # projection of the initial state (optional)
    adapter.step(name, inputs) -> (result, projection)

and requires result == the edge's last parameter and projection == the edge's target state.  Where the specification
admits several results for the same input in the same state (same target state), any of them is accepted.
Paths are spread over forked worker processes.
"""
import multiprocessing
import traceback

from .. import env
from ..graph import Graph, _EDGE, _NODE, _label, _dot_unescape, parse_action, edge_cover, covered_edges
from ..replay import Divergence, diff, innermost_ioflo_frame, norm
from ..tlaval import parse_state, to_py


def load_dot(path):
    """graph.load_dot with the label parsing cached (these graphs have few distinct labels and many edges)"""
    g = Graph()
    acache = {}
    with open(path) as f:
        for line in f:
            m = _EDGE.match(line)
            if m:
                raw, _ = _label(line, m.end())
                hit = acache.get(raw)
                if hit is None:
                    lab = _dot_unescape(raw)
                    hit = acache[raw] = (lab, parse_action(lab))
                src, dst = int(m.group(1)), int(m.group(2))
                g.out.setdefault(src, []).append((hit[0], hit[1], dst))
                g.nedges += 1
                continue
            m = _NODE.match(line)
            if m:
                raw, end = _label(line, m.end())
                nid = int(m.group(1))
                g.states[nid] = parse_state(_dot_unescape(raw))
                if "style = filled" in line[end:end + 40]:
                    g.inits.append(nid)
    for n in g.states:
        g.out.setdefault(n, [])
    return g


def _cmp(nexp, actual):
    """first difference between the (normalised) expected state and the projection, over the projected variables"""
    for k, v in actual.items():
        if k not in nexp:
            continue
        d = diff(nexp[k], norm(v), k)
        if d:
            return d
    return None


def _plain(x):
    try:
        return to_py(x)
    except Exception:
        return repr(x)


_G = {}


def _run_paths(idxs):
    prop, g, paths, make_adapter, nst = _G["prop"], _G["g"], _G["paths"], _G["mk"], _G["nst"]
    divs = []
    nsteps = alts = 0
    for pi in idxs:
        p = paths[pi]
        if not p:
            continue
        init = g.states[p[0][0]]
        done = [{"action": "Init", "state": _plain(init)}]
        try:
            ad = make_adapter(init)
            if hasattr(ad, "project"):
                actual = ad.project()
                bad = _cmp(nst[p[0][0]], actual)
                if bad:
                    divs.append(("state-mismatch", "Init", bad[0], "expected %r got %r" % (bad[1], bad[2]), done, _plain(init), _plain(actual), {}))
                    continue
        except Exception as ex:
            divs.append(("exception", "Init", innermost_ioflo_frame(ex.__traceback__), "%s: %s" % (type(ex).__name__, ex), done, None, None, {}))
            continue
        for (src, lab, (name, args), dst) in p:
            done.append({"action": lab, "state": _plain(g.states[dst])})
            nsteps += 1
            inputs, exp_r = args[:-1], args[-1]
            try:
                r, actual = ad.step(name, inputs)
            except Exception as ex:
                divs.append(("exception", name, innermost_ioflo_frame(ex.__traceback__), "%s: %s" % (type(ex).__name__, str(ex)[:200]),
                             list(done), _plain(g.states[dst]), None, {"traceback": traceback.format_exc()[-2000:]}))
                break
            bad = _cmp(nst[dst], actual)
            if not bad and norm(r) != norm(exp_r):
                # another answer admitted by the specification for this input in this state (same target state)?
                if any(a2[0] == name and a2[1][:-1] == inputs and d2 == dst and norm(a2[1][-1]) == norm(r)
                       for (_l2, a2, d2) in g.out[src]):
                    alts += 1
                    continue
                bad = ("res", exp_r, r)
            if bad:
                divs.append(("state-mismatch", name, bad[0], "expected %r got %r" % (bad[1], bad[2]), list(done),
                             _plain(g.states[dst]), _plain(actual), {"result": _plain(r), "expected_result": _plain(exp_r)}))
                break
        if hasattr(ad, "close"):
            ad.close()
        if len(divs) >= 20:
            break
    return nsteps, alts, divs


def replay_graph(prop, g, make_adapter, *, max_len=60, procs=None):
    """-> (paths, edges_covered, steps, alternatives_taken, [Divergence])"""
    paths = edge_cover(g, max_len=max_len)
    cov = covered_edges(paths)
    _G.update(prop=prop, g=g, paths=paths, mk=make_adapter, nst={i: {k: norm(v) for k, v in s.items()} for i, s in g.states.items()})
    procs = max(1, min(procs or env.NCPU, 16, len(paths) // 50 or 1))
    idx = list(range(len(paths)))
    if procs == 1:
        results = [_run_paths(idx)]
    else:
        nchunks = procs * 4
        chunks = [idx[i::nchunks] for i in range(nchunks)]
        ctx = multiprocessing.get_context("fork")
        with ctx.Pool(procs) as pool:
            results = pool.map(_run_paths, chunks)
    steps = sum(r[0] for r in results)
    alts = sum(r[1] for r in results)
    divs = []
    for r in results:
        for (kind, action, where, detail, done, exp, act, extra) in r[2]:
            divs.append(Divergence(prop, kind, action, where, detail, steps=done, expected=exp, actual=act, extra=extra))
    _G.clear()
    return paths, cov, steps, alts, divs


def model_divergence(prop, res, what):
    return Divergence(prop, "model", res.error_name or res.error, what, "specification property violated in the model",
                      steps=[{"action": a, "state": _plain(s)} for a, s in res.trace])
