"""C31 - keep-alive: N requests on one connection give N ordered, delimited responses (specs/http/KeepAlive.tla).

TLC checks the invariants of KeepAlive.tla over every mix of response shapes and every interleaving of submissions,
client / server service passes and (partial) deliveries, and dumps the state graph.  The graph is then walked on the
real programs (binding A, vf/families/_walk.py): a real `Patron` and a real `Valet` joined by an in-memory connection
whose deliveries are under the harness' control (vf/families/_httppair.py).  After every action the harness projects

    the client's public queues (requests, waited, responses: id header, the request recorded with the response, body),
    the application's call log, and
    the bytes on the wire, read by an independent framing parser (RFC 7230 3.3.3: Content-Length / chunked / until close)

onto the specification's variables; the step is accepted iff the specification has a successor of that action with
exactly that state.  How much a service pass writes and whether a pass sends after receiving is open in the
specification (several successors), everything else is fixed.
"""
import re

from .. import env, graph, tlc
from ..replay import Divergence
from . import _httppair as P
from ._walk import Walker

SPEC_DIR = env.SPECS + "/http"
ACTIONS = ["ClientRequest", "ClientService", "ServerService", "Deliver", "Settle"]


def cfg_text(n, maxblocks, props=True):
    s = ('SPECIFICATION Spec\nCONSTANTS\n  N = %d\n  Shapes = {"fixed", "stream", "empty", "bodiless"}\n  MaxBlocks = %d\n'
         'CHECK_DEADLOCK FALSE\n' % (n, maxblocks))
    if props:
        s += ("INVARIANT TypeOK\nINVARIANT ResponsesPrefixOfRequests\nINVARIANT EveryResponseDelimited\n"
              "INVARIANT ConnectionReusable\nINVARIANT AtQuiescenceAllAnswered\nPROPERTY SettleAnswersAll\n")
    return s


# ---------------------------------------------------------------- what the application answers

def body_of(shape, k, variant):
    """the pieces the application produces for request k"""
    if shape in ("empty", "bodiless"):
        return []
    tag = b"r%d:" % k
    if shape == "fixed":
        return [tag + b"fixed-" + b"x" * (3 + variant), b"\r\n0\r\n\r\n" + b"y" * (k + 2)]     # bytes that look like framing
    return [tag + b"stream-" + b"s" * (5 + variant), b"HTTP/1.1 200 OK\r\n\r\n" + b"t" * (k + 1)]


SHAPES = ("fixed", "stream", "empty", "bodiless")
# the ways a WSGI application may hand over a response of each shape (PEP 3333; empty items are "not ready yet")
STYLES = {
    # "error-...": the application raises httping.HTTPError (from the callable / from the body iterator); the server
    # renders it with a Content-Length, so towards the connection it is a response of fixed length
    "fixed": ("list", "generator", "error-raised", "error-raised-iterating", "empty-item-first", "one-item", "empty-item-between",
              "more-than-declared", "write-callable"),
    "stream": ("list", "generator", "empty-item-first", "one-item", "empty-item-between", "write-callable"),
    "empty": ("no-items", "length0-no-items", "empty-item", "length0-empty-item-list", "length0-empty-item-generator",
              "empty-item-list"),
    # responses that have no body whatever their headers say (RFC 7230 3.3.3): 204, 304, any reply to HEAD;
    # "length" = the application gives a Content-Length (for 304 / HEAD: that of the body it does not send)
    "bodiless": ("204", "204-length0", "204-empty-item", "304", "304-length", "304-empty-item-generator",
                 "head", "head-length", "head-empty-item"),
}


def style_of(shapes, variant, k):
    """the hand-over style of the response to request k: rotates with the rank of the mix among the mixes having the same
    shape at position k, which runs through 0 .. 4^(N-1)-1 >= number of styles"""
    shape = shapes.get(k, "empty")
    rank = 0
    for j in sorted(shapes):
        if j != k:
            rank = rank * len(SHAPES) + SHAPES.index(shapes[j])
    return STYLES[shape][(variant * 2 + rank + k) % len(STYLES[shape])]     # + k: neighbours of one shape differ in style


def method_of(style):
    return "HEAD" if style.startswith("head") else "GET"


def status_of(style):
    return 204 if style.startswith("204") else 304 if style.startswith("304") else 409 if style.startswith("error") else 200


def error_of(k):
    from ioflo.aio.http import httping
    return httping.HTTPError(409, reason="Conflict", title="r%d" % k, detail="raised by the application", headers={"X-Id": str(k)})


def expected_body(shapes, variant, k):
    if style_of(shapes, variant, k).startswith("error"):
        return error_of(k).render()
    return b"".join(body_of(shapes.get(k), k, variant))


def response_class(shape, style):
    return "error" if style.startswith("error") else shape


SEEN_PAIRS = set()    # (class of response k, class of response k+1) on one connection


SEEN_STYLES = {}      # (shape, style) -> positions of the connection at which it was used


class App:
    """WSGI application answering request /r<k> in the shape the behaviour prescribes.  The style in which the response
    is handed over rotates with the variant, the position of the request and the mix of shapes, so that every style of
    every shape occurs at every position of the connection."""

    def __init__(self, shapes, variant):
        self.shapes = shapes
        self.variant = variant
        self.calls = []
        self.styles = {}

    def __call__(self, environ, start_response):
        m = re.match(r"^/r(\d+)$", environ.get("PATH_INFO", ""))
        k = int(m.group(1)) if m else 0
        self.calls.append(k)
        shape = self.shapes.get(k, "empty")
        pieces = body_of(shape, k, self.variant)
        style = style_of(self.shapes, self.variant, k)
        self.styles[k] = style
        SEEN_STYLES.setdefault((shape, style), set()).add(k)
        if k - 1 in self.styles:
            SEEN_PAIRS.add((response_class(self.shapes[k - 1], self.styles[k - 1]), response_class(shape, style)))
        if style == "error-raised":
            raise error_of(k)
        if style == "error-raised-iterating":
            def failing():
                raise error_of(k)
                yield b""      # noqa
            return failing()
        headers = [("X-Id", str(k)), ("Content-Type", "application/octet-stream")]
        if shape == "fixed" or style.startswith("length0"):
            headers.append(("Content-Length", str(sum(len(p) for p in pieces))))
        if shape == "bodiless":
            if style.endswith("length0"):
                headers.append(("Content-Length", "0"))
            elif style.endswith("length"):
                headers.append(("Content-Length", "17"))       # of the representation that is not sent
            if environ.get("REQUEST_METHOD") != method_of(style):
                headers.append(("X-Wrong-Method", str(environ.get("REQUEST_METHOD"))))
            start_response({200: "200 OK", 204: "204 No Content", 304: "304 Not Modified"}[status_of(style)], headers)
            if style.endswith("empty-item"):
                return [b""]
            if style.endswith("empty-item-generator"):
                return (p for p in [b""])
            return []
        write = start_response("200 OK", headers)
        if shape == "empty":
            items = [] if style.endswith("no-items") else [b""]
            return (p for p in items) if style in ("empty-item", "length0-empty-item-generator") else items
        if style == "list":
            return list(pieces)
        if style == "generator":
            return (p for p in pieces)
        if style == "one-item":
            return [b"".join(pieces)]
        if style == "empty-item-between":
            return [pieces[0], b"", pieces[1]]
        if style == "more-than-declared":        # documented: the body is limited to the declared length
            return [pieces[0], pieces[1] + b"!beyond the declared length"]
        if style == "write-callable":            # the imperative write() returned by start_response
            write(pieces[0])
            return [pieces[1]]

        def gen():
            yield b""                     # "not ready yet": documented as allowed, writes nothing
            for p in pieces:
                yield p
        return gen()


# ---------------------------------------------------------------- independent reading of the response stream

def frame_responses(data, methods=()):
    """[(delim, complete, end offset, body)] of the responses at the front of `data` (RFC 7230 3.3.3); methods[i] is the
    method of the request that response i answers.  A reply to HEAD and a 1xx / 204 / 304 response end with the header
    section; when such a response nevertheless announces chunked coding, its (empty) chunked body is read as part of
    it - that is how this server frames them and what this client consumes."""
    out = []
    pos = 0
    n = len(data)
    while pos < n:
        i = data.find(b"\r\n\r\n", pos)
        if i < 0:
            break
        lines = data[pos:i].split(b"\r\n")
        try:
            status = int(lines[0].split()[1])
        except (IndexError, ValueError):
            out.append(("garbled", False, n, b""))
            break
        hs = {}
        for ln in lines[1:]:
            k, _, v = ln.partition(b":")
            hs[k.strip().lower()] = v.strip()
        start = i + 4
        bodiless = status in (204, 304) or 100 <= status < 200 or (len(out) < len(methods) and methods[len(out)] == "HEAD")
        if hs.get(b"transfer-encoding", b"").lower() == b"chunked":
            body = bytearray()
            p = start
            ok = False
            while True:
                j = data.find(b"\r\n", p)
                if j < 0:
                    break
                try:
                    size = int(data[p:j].split(b";")[0].strip(), 16)
                except ValueError:
                    out.append(("garbled", False, n, bytes(body)))
                    return out
                if size == 0:
                    t = data.find(b"\r\n\r\n", j)          # no trailers are sent by the applications used here
                    if t == j:
                        p = j + 4
                        ok = True
                    break
                if j + 2 + size + 2 > n:
                    break
                body.extend(data[j + 2:j + 2 + size])
                p = j + 2 + size + 2
            out.append(("chunked", ok, p if ok else n, bytes(body)))
            if not ok:
                break
            pos = p
        elif b"content-length" in hs or bodiless:
            ln = 0 if bodiless else int(hs.get(b"content-length", b"0"))
            ok = start + ln <= n
            out.append(("length", ok, start + ln if ok else n, data[start:start + ln]))
            if not ok:
                break
            pos = start + ln
        else:
            out.append(("close", False, n, data[start:]))
            break
    return out


# ---------------------------------------------------------------- the programs under test

class System:
    def __init__(self, init, variant):
        env.use_repo()
        from ioflo.aio.http import clienting, serving
        from ioflo.base import storing
        P.silence_console()
        self.shapes = {i + 1: s for i, s in enumerate(init["shapes"])} if not isinstance(init["shapes"], dict) \
            else {int(k): v for k, v in init["shapes"].items()}
        self.variant = variant
        self.net = P.PairNet(auto=False)
        self.app = App(self.shapes, variant)
        with P.patched(self.net):
            self.valet = serving.Valet(port=8131, store=storing.Store(stamp=0.0), app=self.app)
            if not self.valet.open():
                raise RuntimeError("Valet did not open on the in-memory network")
            self.patron = clienting.Patron(hostname="127.0.0.1", port=8131, store=storing.Store(stamp=0.0), path="/")
            self.patron.open()
            self.patron.serviceAll()
            self.valet.serviceAll()
        if len(self.net.conns) != 1 or not self.patron.connector.connected:
            raise RuntimeError("the connection was not established on the in-memory network")
        self.conn = self.net.conns[0]
        self.sub = 0
        self.blocks = {"c2s": [], "s2c": []}      # in flight: [remaining length, cut, fin]
        self.seen = {"c2s": 0, "s2c": 0}          # stream bytes already attributed to blocks
        self.emitted = 0
        self.cfin = False                          # the last block of the outstanding response has arrived at the client
        self.cpartial = False
        self.sdelivered = 0                        # bytes of the outstanding request delivered to the server
        self.reqlen = 0
        self.taken = 0
        self.methods = []

    # ---- helpers
    def _new_block(self, direction):
        stream = self.conn.c2s if direction == "c2s" else self.conn.s2c
        n = len(stream) - self.seen[direction]
        self.seen[direction] = len(stream)
        if n:
            self.blocks[direction].append([n, False, False])
        return n

    def _frames(self):
        return frame_responses(bytes(self.conn.s2c), self.methods)

    def _complete(self):
        return sum(1 for f in self._frames() if f[1])

    def _after_client(self):
        n = self._new_block("c2s")
        if n:
            self.reqlen = n
            self.sdelivered = 0
        if len(self.patron.responses) > self.taken:
            self.taken = len(self.patron.responses)
            self.cfin = self.cpartial = False

    def _after_server(self):
        n = self._new_block("s2c")
        if n:
            self.emitted += 1
            if self._complete() >= len(self.app.calls):
                self.blocks["s2c"][-1][2] = True
                self.emitted = 0

    # ---- actions
    def step(self, name, args):
        with P.patched(self.net), P.quiet():
            if name == "ClientRequest":
                self.sub += 1
                self.methods.append(method_of(style_of(self.shapes, self.variant, self.sub)))
                self.patron.request(method=self.methods[-1], path="/r%d" % self.sub)
            elif name == "ClientService":
                self.patron.serviceAll()
                self._after_client()
            elif name == "ServerService":
                calls = len(self.app.calls)
                self.valet.serviceAll()
                if len(self.app.calls) > calls:
                    self.emitted = 0
                self._after_server()
            elif name == "Deliver":
                direction, how = args
                b = self.blocks[direction][0]
                k = max(1, b[0] // 2) if how == "part" else b[0]
                if how == "part" and k >= b[0]:
                    raise RuntimeError("a block of one byte cannot be delivered in part")
                moved = self.net.deliver(self.conn, direction, k)
                if moved != k:
                    raise RuntimeError("the wire holds fewer bytes than the harness believes")
                b[0] -= k
                if direction == "c2s":
                    self.sdelivered += k
                if b[0] == 0:
                    self.blocks[direction].pop(0)
                    if direction == "s2c":
                        self.cpartial = False
                        self.cfin = b[2]
                else:
                    b[1] = True
                    if direction == "s2c":
                        self.cpartial = True
            elif name == "Settle":
                same = 0
                for _ in range(80):
                    before = (len(self.conn.c2s), len(self.conn.s2c), len(self.patron.responses), len(self.app.calls),
                              len(self.patron.requests))
                    self.net.deliver_all()
                    self.patron.serviceAll()
                    self.net.deliver_all()
                    self.valet.serviceAll()
                    after = (len(self.conn.c2s), len(self.conn.s2c), len(self.patron.responses), len(self.app.calls),
                             len(self.patron.requests))
                    same = same + 1 if after == before else 0
                    if same >= 3:
                        break
                self.net.deliver_all()
                self.blocks = {"c2s": [], "s2c": []}
                self.seen = {"c2s": len(self.conn.c2s), "s2c": len(self.conn.s2c)}
                self.emitted = 0
                self.cfin = self.cpartial = False
                self.taken = len(self.patron.responses)
                self.sdelivered = self.reqlen
                if self.conn.client.inq or self.conn.server.inq:
                    # bytes nobody reads any more stay visible as an incomplete buffer
                    self.cpartial = bool(self.conn.client.inq)
            else:
                raise NotImplementedError(name)
        return self.project()

    # ---- projection onto the specification's variables
    def project(self):
        sent = len(re.findall(rb"(?:^|\r\n\r\n)(?:GET|HEAD) /r\d+ HTTP/1\.1\r\n", bytes(self.conn.c2s)))
        served = len(self.app.calls)
        frames = self._frames()
        ncomplete = sum(1 for f in frames if f[1])
        responses = []
        for i, r in enumerate(self.patron.responses):
            try:
                rid = int(r["headers"].get("x-id", "0"))
            except ValueError:
                rid = 0
            m = re.match(r"^/r(\d+)$", str((r.get("request") or {}).get("path", "")))
            shape = "corrupt"
            want = self.shapes.get(rid)
            if want is not None and bytes(r["body"]) == expected_body(self.shapes, self.variant, rid) and not r["errored"] \
                    and r["status"] == status_of(style_of(self.shapes, self.variant, rid)) and "x-wrong-method" not in r["headers"] \
                    and (r.get("request") or {}).get("method") == method_of(style_of(self.shapes, self.variant, rid)):
                shape = want
            responses.append({"id": rid, "req": int(m.group(1)) if m else 0, "shape": shape})
        c2s = "none"
        if self.blocks["c2s"]:
            c2s = "rest" if self.blocks["c2s"][0][1] else "whole"
        if served >= sent or self.sdelivered == 0:
            sbuf = "empty"
        else:
            sbuf = "complete" if self.sdelivered >= self.reqlen else "partial"
        out = {
            "sub": self.sub, "sent": sent, "waited": bool(self.patron.waited), "responses": tuple(responses),
            "c2s": c2s, "sbuf": sbuf, "served": served, "emitted": self.emitted,
            "done": served > 0 and ncomplete >= served,
            "delims": tuple(f[0] for f in frames),
            "s2c": tuple({"fin": b[2], "cut": b[1]} for b in self.blocks["s2c"]),
            "cbuf": {"partial": self.cpartial, "fin": self.cfin},
        }
        if len(self.patron.responses) < len(self.shapes):
            cx = self.patron.connector
            out["open"] = (len(self.net.conns) == 1 and not self.conn.client.closed and not self.conn.server.closed
                           and not self.conn.client.wr_shut and not self.conn.server.wr_shut and not cx.cutoff)
        if self.app.calls != list(range(1, served + 1)):
            out["served"] = -1          # the application saw the requests out of order / twice
        return out

    def info(self):
        return {"variant": self.variant, "styles": dict(self.app.styles), "c2s": repr(bytes(self.conn.c2s)[-300:]), "s2c": repr(bytes(self.conn.s2c)[-600:])}

    def close(self):
        with P.patched(self.net), P.quiet():
            try:
                self.patron.close()
                self.valet.close()
            except Exception:
                pass


def run_c31(ctx):
    ctx.rule = ("KeepAlive.tla model checked over every mix of response shapes {fixed, stream, empty, bodiless (204 / 304 / reply to HEAD)} for N requests and every "
                "interleaving of submissions, client/server service passes, partial and whole deliveries; the dumped graph "
                "walked on a real Patron and Valet over an in-memory connection: every (state, action) pair the "
                "implementation can reach is performed and the projected state must be a successor allowed by the "
                "specification; distinct = (state, action) pairs performed")
    gn = 3
    dot = env.subdir("c31") + "/ka.dot"
    # one run checks the invariants and dumps the graph that is walked afterwards
    res = tlc.run("KeepAlive", cfg_text(gn, 3), spec_dir=SPEC_DIR, dump_dot=dot, tag="c31g", timeout=6 * 3600)
    ctx.add_model(res, "KeepAlive", {"N": gn, "MaxBlocks": 3})
    if not res.ok:
        ctx.diverge(Divergence("C31", "model", res.error_name or res.error, "KeepAlive", "specification property violated in the model",
                               steps=[{"action": a, "state": s} for a, s in res.trace]))
        return
    tlc.require_coverage(res, ACTIONS, "KeepAlive")
    if not ctx.quick:
        res = tlc.run("KeepAlive", cfg_text(4, 4), spec_dir=SPEC_DIR, tag="c31mc", timeout=6 * 3600)
        ctx.add_model(res, "KeepAlive/deeper", {"N": 4, "MaxBlocks": 4})
        if not res.ok:
            ctx.diverge(Divergence("C31", "model", res.error_name or res.error, "KeepAlive", "specification property violated in the model",
                                   steps=[{"action": a, "state": s} for a, s in res.trace]))
            return
    g = graph.load_dot(dot)
    total_pairs = done = steps = traces = 0
    complete = True
    for variant in range(ctx.pick(2, 5)):
        w = Walker("C31", g, lambda init, v=variant: System(init, v), seed=ctx.seed + variant, max_len=ctx.pick(150, 300))
        w.run(ctx.pick(60000, 500000))
        for d in w.divs:
            d.extra["variant"] = variant
        ctx.diverge(w.divs)
        total_pairs += w.pairs_total
        done += w.pairs_done
        steps += w.steps
        traces += w.traces
        complete = complete and not w.divs and w.complete()
        ctx.add_validated(w.traces, {"variant": variant, "walk": w.sample})
        if w.divs:
            break
    missing = [(sh, st) for sh in SHAPES for st in STYLES[sh] if len(SEEN_STYLES.get((sh, st), ())) < gn]
    if missing and not ctx.divs:
        raise tlc.TlcError("vacuous walk: response styles not used at every position of the connection: %r" % missing)
    classes = ("fixed", "stream", "empty", "bodiless", "error")
    nopair = [(a, b) for a in classes for b in classes if (a, b) not in SEEN_PAIRS]
    if nopair and not ctx.divs:
        raise tlc.TlcError("vacuous walk: ordered pairs of response classes never met on one connection: %r" % nopair)
    ctx.extra["response_class_pairs_on_one_connection"] = len(SEEN_PAIRS)
    ctx.extra["response_styles_exercised"] = {"%s/%s" % k: sorted(v) for k, v in sorted(SEEN_STYLES.items())}
    ctx.exhaustive = False       # outcomes the specification allows but the implementation never produces cannot be replayed
    ctx.extra.update({"graph_states": len(g.states), "graph_edges": g.nedges, "state_action_pairs": total_pairs,
                      "pairs_performed": done, "steps_on_real_programs": steps, "walks": traces,
                      "every_reachable_pair_performed": complete,
                      "distinct_nontrivial": done, "evaluations": steps})
    ctx.assume("the in-memory connection (vf/families/_httppair.py), the framing parser of the harness and TLC are trusted")


PROPERTIES = {"C31": run_c31}
