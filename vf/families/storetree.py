"""C18 - the data store tree stays well formed (specs/store/StoreTree.tla, StoreTreeTrace.tla).

  A. TLC checks the tree invariants / action properties and dumps the complete state graph (small path alphabet with
     dotted variants, empty segments, conflicting kinds); every edge is replayed on a real ioflo Store: the result of the
     call and a recursive walk of the real tree (kind, recorded name, identity of the object placed) must be what the
     specification's action gives.
  B. seeded random long operation sequences over a larger alphabet are executed on real Stores, logged, and TLC decides
     whether each recorded execution is a behaviour of the specification (StoreTreeTrace.tla).

The real shares offered by the harness carry data fields named like path segments (identity 2: value=0, identity 3:
a="x"), so that a lookup that wanders into a share is noticed.
"""
import random
import warnings

from .. import env, tlc, trace
from ..replay import Divergence, innermost_ioflo_frame
from . import _storelib

warnings.filterwarnings("ignore", category=SyntaxWarning)     # old-style escapes in ioflo docstrings, recompiled per process
SPEC_DIR = env.SPECS + "/store"
ACTIONS = ["Add", "Change", "Create", "AddNode", "CreateNode", "Fetch", "FetchShare", "FetchNode"]
FIELDS = {1: (), 2: (("value", 0),), 3: (("a", "x"),)}


def cfg_text(segs, depth, entries, ids, props=True):
    s = ('SPECIFICATION Spec\nCONSTANTS\n  Segs = {%s}\n  MaxDepth = %d\n  MaxEntries = %d\n  Ids = {%s}\n'
         % (", ".join('"%s"' % x for x in segs), depth, entries, ", ".join(str(i) for i in ids)))
    if props:
        s += ("INVARIANT TypeOK\nINVARIANT PrefixClosed\nINVARIANT NamesArePaths\nINVARIANT VariantsAgree\n"
              "PROPERTY LookupIsLastPlaced\nPROPERTY RejectedUnchanged\nPROPERTY KindsStable\n")
    return s + "CHECK_DEADLOCK FALSE\n"


def _levels(name):
    """a recorded name read as a dotted path (outer dots do not matter to any store operation)"""
    return tuple(name.strip(".").split("."))


class StoreAdapter:
    def __init__(self):
        env.use_repo()
        from ioflo.base import storing
        self.st = storing
        storing.Store.Clear()
        self.store = storing.Store(stamp=0.0)
        self.builtin = dict(self.store.shares.items())      # .meta .time .realtime .datetime made by the store itself
        self.ids = {}                                        # id(share object) -> identity given by the harness
        self.keep = []

    # ---- projection: recursive walk of the real tree
    def project(self):
        st = self.st
        out = {}

        def walk(node, path):
            for k, v in node.items():
                if not path and k in self.builtin and v is self.builtin[k]:
                    continue
                p = path + (k,)
                if isinstance(v, st.Share):
                    kind = "share" if v.store is self.store else "share-without-store"
                    out[p] = {"kind": kind, "id": self.ids.get(id(v), 0), "name": _levels(v.name)}
                elif isinstance(v, st.Node):
                    out[p] = {"kind": "node", "id": 0, "name": _levels(v.name)}
                    walk(v, p)
                else:
                    out[p] = {"kind": "other-" + type(v).__name__, "id": 0, "name": ()}
        walk(self.store.shares, ())
        for k, v in self.builtin.items():
            if self.store.shares.get(k) is not v:
                out[("<builtin %s replaced>" % k,)] = {"kind": "other", "id": 0, "name": ()}
        return {"tree": out}

    def _at(self, levels):
        """the object really stored at the path (plain dictionary walk through nodes only)"""
        cur = self.store.shares
        for lv in levels:
            if not isinstance(cur, self.st.Node) or not dict.__contains__(cur, lv):
                return None
            cur = dict.__getitem__(cur, lv)
        return cur

    def _classify(self, obj, levels):
        if obj is None:
            return "none"
        if obj is self._at(levels):
            if isinstance(obj, self.st.Share):
                return "share"
            if isinstance(obj, self.st.Node):
                return "node"
        return "other-%s" % type(obj).__name__       # not the object stored at that path

    def _share(self, text, ident):
        sh = self.st.Share(name=text)
        for k, v in FIELDS[ident]:
            sh[k] = v
        self.ids[id(sh)] = ident
        self.keep.append(sh)
        return sh

    def call(self, name, text, levels, ident=None):
        """perform one store operation; -> result class"""
        s = self.store
        try:
            if name == "Add":
                r = s.add(self._share(text, ident))
            elif name == "Change":
                r = s.change(self._share(text, ident))
            elif name == "Create":
                r = s.create(text)
            elif name == "AddNode":
                r = s.addNode(text)
            elif name == "CreateNode":
                r = s.createNode(text)
            elif name == "Fetch":
                r = s.fetch(text)
            elif name == "FetchShare":
                r = s.fetchShare(text)
            elif name == "FetchNode":
                r = s.fetchNode(text)
            else:
                raise NotImplementedError(name)
        except ValueError:
            if name.startswith("Fetch"):
                raise           # lookups are documented to answer None, never to raise
            return "err"
        return self._classify(r, levels)

    def step(self, name, inputs):
        T = inputs[0]
        text = ".".join(T["text"])
        r = self.call(name, text, tuple(T["lv"]), inputs[1] if len(inputs) > 1 else None)
        return r, self.project()


# ---------------------------------------------------------------- binding B
SEGS_B = ("a", "b", "c", "value")


def _random_text(rng):
    n = rng.choice([1, 1, 2, 2, 2, 3, 3, 4])
    pieces = [rng.choice(SEGS_B) for _ in range(n)]
    c = rng.random()
    if c < 0.10:
        pieces.insert(rng.randrange(0, n + 1), "")          # an empty segment somewhere (may be outer)
    elif c < 0.13:
        pieces = [""] * rng.randint(1, 3)                   # "", ".", ".."
    if rng.random() < 0.2:
        pieces = [""] * rng.randint(1, 2) + pieces          # leading dots
    if rng.random() < 0.2:
        pieces = pieces + [""] * rng.randint(1, 2)          # trailing dots
    return pieces


def _random_trace(rng, n):
    """-> (events, Divergence or None)"""
    ad = StoreAdapter()
    evs = [{"ev": "Init"}]
    used = []
    last = {}
    for _ in range(n):
        name = rng.choice(ACTIONS)
        pieces = list(rng.choice(used)) if used and rng.random() < 0.55 else _random_text(rng)
        if rng.random() < 0.3 and len(pieces) > 1:
            pieces = pieces[:rng.randint(1, len(pieces))]     # a prefix of a text used before
        used.append(pieces)
        text = ".".join(pieces)
        e = {"ev": name, "text": pieces}
        ident = None
        if name in ("Add", "Change"):
            ident = e["id"] = rng.randint(1, 3)
        try:
            e["res"] = ad.call(name, text, _levels(text), ident)
        except Exception as ex:
            evs.append(dict(e, res="raised " + type(ex).__name__))
            return evs, Divergence("C18", "exception", name, innermost_ioflo_frame(ex.__traceback__),
                                   "%s: %s" % (type(ex).__name__, str(ex)[:200]), steps=evs)
        tree = ad.project()["tree"]
        if tree != last:            # an event without "tree" observed the same projection as the event before
            e["tree"] = [{"path": list(p), "kind": v["kind"], "id": v["id"], "name": list(v["name"])} for p, v in tree.items()]
            last = tree
        evs.append(e)
    return evs, None


def run_c18(ctx):
    ctx.rule = ("A: complete state graph of StoreTree.tla (segments, depth, dotted variants incl. empty segments, share "
                "identities; bounded number of entries), every edge replayed on a real Store comparing the call's result and a "
                "recursive walk of the real tree; B: seeded random operation sequences on real Stores validated by TLC against "
                "StoreTreeTrace.tla; distinct = graph edges + accepted traces")
    graphs = ctx.pick([(("a", "value"), 3, 3, (1, 2))],
                      [(("a", "b", "value"), 3, 3, (1, 2, 3)), (("a", "value"), 3, 5, (1, 2))])
    total = cov = 0
    for gi, (segs, depth, entries, ids) in enumerate(graphs):
        consts = {"Segs": list(segs), "MaxDepth": depth, "MaxEntries": entries, "Ids": list(ids)}
        dot = env.subdir("c18") + "/storetree%d.dot" % gi
        res = tlc.run("StoreTree", cfg_text(segs, depth, entries, ids), spec_dir=SPEC_DIR, dump_dot=dot, tag="c18g%d" % gi)
        ctx.add_model(res, "StoreTree/%d" % gi, consts)
        if not res.ok:
            ctx.diverge(_storelib.model_divergence("C18", res, "StoreTree"))
            continue
        tlc.require_coverage(res, ACTIONS, "StoreTree")
        g = _storelib.load_dot(dot)
        paths, c, steps, alts, divs = _storelib.replay_graph("C18", g, lambda init: StoreAdapter(), max_len=80)
        total += g.nedges
        cov += c
        ctx.diverge(divs)
        ctx.add_validated(len(paths), {"path": [s[1] for s in paths[len(paths) // 2]][:12]})
        # alternative_answers_taken: edges where the implementation gave the other answer the specification admits
        ctx.extra.setdefault("graphs", []).append({"constants": consts, "states": len(g.states), "edges": g.nedges, "edges_replayed": c,
                                                   "replay_steps": steps, "alternative_answers_taken": alts})
        del g, paths
    # binding B
    rng = random.Random(ctx.seed)
    ntr = ctx.pick(300, 6000)
    if ctx.divs:
        ntr = min(ntr, 24)      # binding A already diverged: B is abbreviated (each rejected trace is diagnosed by its own TLC run)
    trs = []
    for _ in range(ntr):
        evs, d = _random_trace(rng, ctx.pick(40, 30) if rng.random() < 0.9 else 120)
        if d is not None:
            ctx.diverge(d)
            if len([x for x in ctx.divs if x.kind == "exception"]) > 20:
                break
            continue
        trs.append(evs)
    cfg = ('SPECIFICATION TraceSpec\nCONSTANTS\n  Segs = {"a"}\n  MaxDepth = 1\n  MaxEntries = 100000\n  Ids = {1, 2, 3}\n'
           'CONSTRAINT TraceOK\nINVARIANT PrefixClosed\nINVARIANT NamesArePaths\nCHECK_DEADLOCK FALSE\n')
    out = trace.validate("StoreTreeTrace", cfg, SPEC_DIR, trs, batch=250)
    ctx.states += out.states
    ctx.transitions += out.generated
    ctx.add_validated(len(out.accepted), {"trace": [{k: v for k, v in e.items() if k != "tree"} for e in trs[0][:10]]} if trs else None)
    for i, pref in sorted(out.rejected.items())[:10]:
        ev = trs[i][pref] if 0 <= pref < len(trs[i]) else {}
        ctx.diverge(Divergence("C18", "rejected", ev.get("ev", "?"), "trace",
                               "recorded execution is not a behaviour of StoreTree.tla at event %d: %s %r -> %s"
                               % (pref + 1, ev.get("ev"), ".".join(ev.get("text", [])), ev.get("res")),
                               steps=trs[i][:pref + 1]))
    for (i, err, name, tr) in out.model_errors[:5]:
        ctx.diverge(Divergence("C18", "rejected", name or err, "trace-invariant", "invariant %s violated on a recorded execution" % name,
                               steps=trs[i]))
    ctx.exhaustive = bool(total) and cov == total
    ctx.extra.update({"graph_edges": total, "edges_replayed": cov, "random_traces": len(trs), "random_traces_accepted": len(out.accepted),
                      "distinct_nontrivial": cov + len(out.accepted), "evaluations": cov + sum(len(t) - 1 for t in trs)})


PROPERTIES = {"C18": run_c18}
